#!/bin/bash
# usage: verify_seeded.sh <seed-id> <agent-worktree> <prop> [tier] ["needs text"]
# Confirms an independently written property-breaking change: compiles, pinned suite passes with it, its
# demonstration fails with it and passes without it; then runs our check against it. Stores it under /verif/seeded/<seed-id>/.
set -u
id=$1; awt=$2; prop=$3; tier=${4:-quick}
dst=/verif/seeded/$id
mkdir -p "$dst"
patch="$awt/_mutant/patch.diff"
[ -s "$patch" ] || { echo "no patch"; exit 2; }
cp "$patch" "$dst/patch.diff"
# demonstration files = untracked files of the agent worktree outside _mutant
demos=$(git -C "$awt" status --porcelain | awk '$1=="??"{print $2}' | grep -v "^_mutant" || true)
vs=/tmp/vs-$id
rm -rf "$vs"; git -C /repo worktree prune
git -C /repo worktree add -q --detach "$vs" HEAD || exit 2
git -C "$vs" apply "$dst/patch.diff" || { echo "PATCH DOES NOT APPLY"; git -C /repo worktree remove --force "$vs"; exit 2; }
for d in $demos; do mkdir -p "$vs/$(dirname $d)" "$dst/demo/$(dirname $d)"; cp "$awt/$d" "$vs/$d"; cp "$awt/$d" "$dst/demo/$d"; done
E="env -u GOTOOLCHAIN -u GOSUMDB GOFLAGS=-mod=mod GOPROXY=off"
# VERIF_FROZEN=<dir>: run the first check with the frozen copy of the simulator taken when the wave was launched
pkgs=$(for d in $demos; do echo "./$(dirname $d)/"; done | sort -u)
( cd "$vs" && $E go build ./... ) || { echo "DOES NOT COMPILE"; git -C /repo worktree remove --force "$vs"; exit 2; }
# pinned suite with the change (demo files temporarily out of the way)
for d in $demos; do mv "$vs/$d" "$vs/$d.off"; done
suite=$(python3 /verif/scripts/baseline_check.py "$vs" 2>&1 | head -3)
for d in $demos; do mv "$vs/$d.off" "$vs/$d"; done
with=$(cd "$vs" && $E go test -count=1 -run 'Mutant|mutant|ZZ|Demo' $pkgs 2>&1 | grep -E "^(ok|FAIL|--- FAIL)" | head -5)
git -C "$vs" apply -R "$dst/patch.diff"
without=$(cd "$vs" && $E go test -count=1 -run 'Mutant|mutant|ZZ|Demo' $pkgs 2>&1 | grep -E "^(ok|FAIL|--- FAIL)" | head -5)
git -C /repo worktree remove --force "$vs"
echo "suite with change: $suite"
echo "demo with change:  $with"
echo "demo without:      $without"
check=$(${VERIF_FROZEN:-/verif}/scripts/mutant.sh "sd-$id" "$dst/patch.diff" "$prop" "$tier" 2>&1 | head -4)
echo "our check: $check"
python3 - "$id" "$prop" "$tier" "$suite" "$with" "$without" "$check" "${5:-}" <<'PY'
import json,sys
id,prop,tier,suite,withc,without,check,needs=sys.argv[1:9]
meta={"id":id,"breaks_property":prop,"needs_to_manifest":needs,"source":"independent sub-agent given only the property text and a scratch worktree",
 "confirmed":{"pinned_suite_with_change":suite,"demonstration_with_change":withc,"demonstration_without_change":without},
 "our_check":{"command":"scripts/mutant.sh sd-%s seeded/%s/patch.diff %s %s"%(id,id,prop,tier),"result":check,
              "detected": "VIOLATION" in check}}
json.dump(meta,open("/verif/seeded/%s/meta.json"%id,"w"),indent=1)
print("detected:",meta["our_check"]["detected"])
PY
