#!/bin/bash
# usage: [MUTANT_BASE=<commit>] mutant.sh <name> <patch-file|-R:commit> <prop> [tier]   (MUTANT_BASE: the repository commit the change was written against, default HEAD)
# Applies a change to a scratch worktree of /repo (never to /repo itself), runs one check against it and
# prints whether the check reports a violation. Used for sensitivity testing only.
set -u
name=$1; patch=$2; prop=$3; tier=${4:-quick}
wt=/tmp/mut-$name
rm -rf "$wt"; git -C /repo worktree prune
git -C /repo worktree add -q --detach "$wt" "${MUTANT_BASE:-HEAD}" || exit 2
if [[ "$patch" == -R:* ]]; then
  git -C "$wt" revert --no-commit "${patch#-R:}" >/dev/null 2>&1 || { echo "MUTANT $name: revert does not apply"; git -C /repo worktree remove --force "$wt"; exit 2; }
else
  git -C "$wt" apply "$patch" || { echo "MUTANT $name: patch does not apply"; git -C /repo worktree remove --force "$wt"; exit 2; }
fi
( cd "$wt" && env -u GOTOOLCHAIN -u GOSUMDB GOFLAGS=-mod=mod go build ./... ) || { echo "MUTANT $name: does not compile"; git -C /repo worktree remove --force "$wt"; exit 2; }
V=$(cd "$(dirname "$0")/.." && pwd)
out=$(cd "$V" && VERIF_REPO="$wt" VERIF_EVIDENCE_DIR=/tmp/mut-evidence VERIF_REPLAY_DIR=/tmp/mut-replays python3 scripts/run_check.py "$prop" "$tier" 2>&1)
rc=$?
echo "MUTANT $name prop=$prop tier=$tier rc=$rc"
echo "$out" | grep -E "^VIOLATION|signature=|INFRASTRUCTURE" | head -6
git -C /repo worktree remove --force "$wt"
rm -f "$V"/bin/alt-*.mod "$V"/bin/alt-*.sum "$V"/bin/*-alt*.test
exit $rc
