#!/bin/bash
# usage: recheck_props_seeded.sh <prop>...   Like recheck_all_seeded.sh, for the stored changes of the named properties only.
cd "$(dirname "$0")/.."
for p in "$@"; do
  for d in seeded/$p-*/; do
    id=$(basename $d)
    prop=$(python3 -c "import json;m=json.load(open('$d/meta.json'));print(m['our_check']['command'].split()[-2])")
    out=$(python3 scripts/recheck_seeded.py $id $prop 2>&1 | tail -1)
    echo "$id $prop $out"
  done
done
