#!/usr/bin/env python3
"""Measure of reach: statement coverage of /repo/pkg/... by the simulated runs of the quick tier.

Builds the simulator with coverage instrumentation of the library packages, runs every claimed property's quick
batch (same seeds, same worker split as run_check.py), merges the profiles and prints the functions and blocks of
the library that no simulated run executed.  Not a check: it never prints VIOLATION; it tells where the workloads
do not reach.  usage: coverage.py [outdir] [props...]
"""
import os, subprocess, sys, glob, collections
sys.path.insert(0, os.path.dirname(os.path.abspath(__file__)))
from props import PROPS
VERIF = os.path.dirname(os.path.dirname(os.path.abspath(__file__)))
SIM = os.environ.get("VERIF_SIM_DIR") or os.path.join(VERIF, "sim")
GO = "/opt/veriftools/go1.26.8/bin/go"
out = sys.argv[1] if len(sys.argv) > 1 else "/tmp/verif-cov"
props = sys.argv[2:] or sorted(PROPS)
os.makedirs(out, exist_ok=True)
env = dict(os.environ, GOFLAGS="-mod=mod", GOPROXY="off", GOSUMDB="off", GOTOOLCHAIN="local")
open(os.path.join(SIM, "go.sum"), "w").write(open("/repo/go.sum").read() + open(os.path.join(SIM, "go.sum.extra")).read())
binp = os.path.join(out, "sim-cover.test")
r = subprocess.run([GO, "test", "-tags", "verif", "-c", "-cover", "-coverpkg=github.com/zitadel/oidc/v3/pkg/...", "-o", binp, "."], cwd=SIM, env=env)
if r.returncode:
    sys.exit(2)
for p in props:
    tc = PROPS[p]["quick"]
    workers = 16
    procs = []
    for w in range(workers):
        e = dict(env, VERIF_PROP=p, VERIF_TIER="quick", VERIF_SEED="1", VERIF_WORKER=str(w), VERIF_WORKERS=str(workers), VERIF_RUNS=str(tc["runs"]),
                 VERIF_WALL_S=str(tc["wall"] * 3), VERIF_OUT=os.path.join(out, "%s-w%d.json" % (p, w)), VERIF_REPLAY_DIR=os.path.join(out, "replays"))
        procs.append(subprocess.Popen([binp, "-test.run", "TestSim", "-test.count=1", "-test.cpu", "1", "-test.coverprofile=" + os.path.join(out, "%s-w%d.prof" % (p, w))],
                                      cwd=SIM, env=e, stdout=subprocess.DEVNULL, stderr=subprocess.DEVNULL))
    for q in procs:
        q.wait()
    print("ran", p, flush=True)
blocks = {}
perprop = collections.defaultdict(set)
for f in glob.glob(os.path.join(out, "*.prof")):
    p = os.path.basename(f).split("-")[0]
    for l in open(f):
        if l.startswith("mode:"):
            continue
        k, n, c = l.rsplit(" ", 2)
        blocks[k] = (int(n), max(blocks.get(k, (0, 0))[1], int(c)))
        if int(c):
            perprop[p].add(k)
with open(os.path.join(out, "merged.prof"), "w") as f:
    f.write("mode: set\n")
    for k, (n, c) in blocks.items():
        f.write("%s %d %d\n" % (k, n, 1 if c else 0))
tot = sum(n for n, c in blocks.values())
cov = sum(n for n, c in blocks.values() if c)
print("library statements: %d, executed by some simulated run: %d (%.1f%%)" % (tot, cov, 100.0 * cov / tot))
for p in sorted(perprop):
    print("  %s alone: %.1f%%" % (p, 100.0 * sum(blocks[k][0] for k in perprop[p]) / tot))
