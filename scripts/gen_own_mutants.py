#!/usr/bin/env python3
"""Generates the harness authors' own sensitivity mutants (DESIGN.md section 4 'Mutants to catch') as patch files
under /verif/mutants/. Each is one textual replacement in a scratch worktree of /repo."""
import os, subprocess, sys
M = [
 # (name, property, file, old, new)
 ("c01-exp-after", "C01", "pkg/oidc/verifier.go", "if !time.Now().Add(offset).Before(expiration) {", "if time.Now().Add(-offset).Add(-5 * time.Second).After(expiration) {"),
 ("c01-iat-noage", "C01", "pkg/oidc/verifier.go", "\tif maxAgeIAT == 0 {\n\t\treturn nil\n\t}", "\tif maxAgeIAT == 0 || maxAgeIAT > time.Minute {\n\t\treturn nil\n\t}"),
 ("c01-azp-multi", "C01", "pkg/oidc/verifier.go", "\tif len(claims.GetAudience()) > 1 {", "\tif len(claims.GetAudience()) > 2 {"),
 ("c01-athash-skip", "C01", "pkg/client/rp/verifier.go", "\tif actual != atHash {", "\tif len(actual) == len(atHash) && actual != atHash {"),
 ("c02-no-payload-compare", "C02", "pkg/oidc/verifier.go", "\tif !bytes.Equal(signedPayload, payload) {", "\tif len(signedPayload) == 0 {"),
 ("c02-multi-sig", "C02", "pkg/oidc/verifier.go", "\tif len(jws.Signatures) > 1 {", "\tif len(jws.Signatures) > 2 {"),
 ("c02-use-ignored", "C02", "pkg/oidc/keyset.go", "\t\tif k.Use != use && k.Use != \"\" {", "\t\tif k.Use != use && k.Use != \"\" && k.Use != \"enc\" {"),
 ("c02-first-of-many", "C02", "pkg/oidc/keyset.go", "\tif len(validKeys) == 1 {", "\tif len(validKeys) >= 1 {"),
 ("c03-hasprefix", "C03", "pkg/op/auth_request.go", "\tif slices.Contains(client.RedirectURIs(), uri) {\n\t\treturn nil\n\t}", "\tfor _, r := range client.RedirectURIs() {\n\t\tif strings.HasPrefix(uri, r) {\n\t\t\treturn nil\n\t\t}\n\t}"),
 ("c03-redirect-disabled-ignored", "C03", "pkg/op/error.go", "\tif authReq.GetRedirectURI() == \"\" || e.IsRedirectDisabled() {\n\t\tlogger.Log(r.Context(), e.LogLevel(), \"auth request: not redirecting\")", "\tif authReq.GetRedirectURI() == \"\" {\n\t\tlogger.Log(r.Context(), e.LogLevel(), \"auth request: not redirecting\")"),
 ("c03-equaluri-path", "C03", "pkg/op/auth_request.go", "\treturn url1.Path == url2.Path && url1.RawQuery == url2.RawQuery &&", "\treturn url1.RawQuery == url2.RawQuery &&"),
 ("c04-no-delete", "C04", "pkg/op/token.go", "\t\terr = creator.Storage().DeleteAuthRequest(ctx, authRequest.GetID())\n\t\tif err != nil {\n\t\t\treturn nil, err\n\t\t}", "\t\tif code == \"\" {\n\t\t\terr = creator.Storage().DeleteAuthRequest(ctx, authRequest.GetID())\n\t\t\tif err != nil {\n\t\t\t\treturn nil, err\n\t\t\t}\n\t\t}"),
 ("c04-redirect-prefix", "C04", "pkg/op/token_code.go", "\tif tokenReq.RedirectURI != authReq.GetRedirectURI() {", "\tif !strings.HasPrefix(tokenReq.RedirectURI, authReq.GetRedirectURI()) {"),
 ("c04-pkce-public-rule", "C04", "pkg/op/token_code.go", "\t\tif codeChallenge == nil {\n\t\t\treturn nil, nil, oidc.ErrInvalidRequest().WithDescription(\"PKCE required\")\n\t\t}", "\t\t_ = codeChallenge"),
 ("c05-secret-error-ignored", "C05", "pkg/op/token_refresh.go", "\tif err = AuthorizeClientIDSecret(ctx, tokenReq.ClientID, tokenReq.ClientSecret, exchanger.Storage()); err != nil {\n\t\treturn nil, nil, err\n\t}", "\tif err = AuthorizeClientIDSecret(ctx, tokenReq.ClientID, tokenReq.ClientSecret, exchanger.Storage()); err != nil && tokenReq.ClientSecret == \"\" {\n\t\treturn nil, nil, err\n\t}"),
 ("c05-introspect-unauth", "C05", "pkg/op/token_intospection.go", "\tif !authenticated {\n\t\treturn \"\", \"\", oidc.ErrInvalidClient().WithParent(ErrNoClientCredentials)\n\t}", "\t_ = authenticated"),
 ("c07-subset-removed", "C07", "pkg/op/token_refresh.go", "\t\tif !slices.Contains(authRequest.GetScopes(), scope) {\n\t\t\treturn oidc.ErrInvalidScope()\n\t\t}", "\t\tif scope == \"\" {\n\t\t\treturn oidc.ErrInvalidScope()\n\t\t}"),
 ("c07-client-equality-legacy", "C07", "pkg/op/server_legacy.go", "\tif r.Client.GetID() != request.GetClientID() {\n\t\treturn nil, oidc.ErrInvalidGrant()\n\t}", "\t_ = request.GetClientID()"),
 ("c07-no-rotation", "C07", "pkg/op/token_refresh.go", "\tresp, err := CreateTokenResponse(r.Context(), validatedRequest, client, exchanger, true, \"\", tokenReq.RefreshToken)", "\tresp, err := CreateTokenResponse(r.Context(), validatedRequest, client, exchanger, true, \"\", \"\")"),
 ("c08-active-before-storage", "C08", "pkg/op/token_intospection.go", "\terr = introspector.Storage().SetIntrospectionFromToken(r.Context(), response, tokenID, subject, clientID)\n\tif err != nil {", "\terr = introspector.Storage().SetIntrospectionFromToken(r.Context(), response, tokenID, subject, clientID)\n\tif err != nil && subject == \"\" {"),
 ("c08-revoke-wrong-client", "C08", "pkg/op/token_revocation.go", "\tif err := revoker.Storage().RevokeToken(r.Context(), token, subject, clientID); err != nil {", "\tif err := revoker.Storage().RevokeToken(r.Context(), token, subject, \"\"); err != nil && clientID == \"\" {"),
 ("c10-delete-error-ignored", "C10", "pkg/op/token.go", "\tidToken, err := CreateIDToken(ctx, IssuerFromContext(ctx), request, client.IDTokenLifetime(), accessToken, code, creator.Storage(), client)\n\tif err != nil {\n\t\treturn nil, err\n\t}", "\tidToken, err := CreateIDToken(ctx, IssuerFromContext(ctx), request, client.IDTokenLifetime(), accessToken, code, creator.Storage(), client)\n\tif err != nil && accessToken == \"\" {\n\t\treturn nil, err\n\t}"),
 ("c10-savecode-ignored", "C10", "pkg/op/auth_request.go", "\tif err := storage.SaveAuthCode(ctx, authReq.GetID(), code); err != nil {\n\t\treturn \"\", err\n\t}", "\t_ = storage.SaveAuthCode(ctx, authReq.GetID(), code)"),
 ("c13-no-singleflight", "C13", "pkg/client/rp/jwks.go", "\tif r.inflight == nil {", "\tif r.inflight == nil || len(r.cachedKeys) == 0 {"),
 ("c13-cache-on-error", "C13", "pkg/client/rp/jwks.go", "\tif err == nil {\n\t\tr.cachedKeys = keys\n\t}", "\tr.cachedKeys = keys"),
 ("c13-wait-without-ctx", "C13", "pkg/client/rp/jwks.go", "\tselect {\n\tcase <-ctx.Done():\n\t\treturn nil, ctx.Err()\n\tcase <-inflight.wait():\n\t\treturn inflight.result()\n\t}", "\t<-inflight.wait()\n\treturn inflight.result()"),
 ("c14-keyset-by-sub", "C14", "pkg/op/verifier_jwt_profile.go", "\t\tkeySet = &jwtProfileKeySet{storage: v.Storage, clientID: request.Issuer}", "\t\tkeySet = &jwtProfileKeySet{storage: v.Storage, clientID: request.Subject}"),
 ("c14-subject-check-removed", "C14", "pkg/op/verifier_jwt_profile.go", "\tif request.Issuer != request.Subject {", "\tif request.Issuer == \"\" {"),
 ("c14-ro-issuer", "C14", "pkg/op/auth_request.go", "\tif requestObject.Issuer != requestObject.ClientID {", "\tif requestObject.Issuer == \"\" {"),
 ("c15-actor-not-validated", "C15", "pkg/op/token_exchange.go", "\t\tif !ok {\n\t\t\treturn nil, oidc.ErrInvalidRequest().WithDescription(\"actor_token is invalid\")\n\t\t}", "\t\t_ = ok"),
 ("c16-done-before-denied", "C16", "pkg/op/device.go", "\tif state.Denied {\n\t\treturn state, oidc.ErrAccessDenied()\n\t}\n\tif state.Done {\n\t\treturn state, nil\n\t}", "\tif state.Done {\n\t\treturn state, nil\n\t}\n\tif state.Denied {\n\t\treturn state, oidc.ErrAccessDenied()\n\t}"),
 ("c16-expiry-inverted", "C16", "pkg/op/device.go", "\tif time.Now().After(state.Expires) {", "\tif time.Now().Before(state.Expires.Add(-time.Hour)) {"),
 ("c16-deadline-dropped", "C16", "pkg/op/device.go", "\tif errors.Is(err, context.DeadlineExceeded) {\n\t\treturn nil, oidc.ErrSlowDown().WithParent(err)\n\t}", ""),
 ("c17-no-compare", "C17", "pkg/http/cookie.go", "\tif value != r.FormValue(name) {", "\tif value == \"\" {"),
 ("c17-verifier-regenerated", "C17", "pkg/client/rp/relying_party.go", "\t\t\tcodeOpts = append(codeOpts, WithCodeVerifier(codeVerifier))", "\t\t\tcodeOpts = append(codeOpts, WithCodeVerifier(codeVerifier[:len(codeVerifier)-1]+\"A\"))"),
 ("c18-uri-check-skipped-with-hint", "C18", "pkg/op/session.go", "\t\tif req.PostLogoutRedirectURI != \"\" {\n\t\t\tif err := ValidateEndSessionPostLogoutRedirectURI(req.PostLogoutRedirectURI, client); err != nil {", "\t\tif req.PostLogoutRedirectURI != \"\" {\n\t\t\tif err := ValidateEndSessionPostLogoutRedirectURI(req.PostLogoutRedirectURI, client); err != nil && req.IdTokenHint == \"\" {"),
 ("c18-azp-compare-removed", "C18", "pkg/op/session.go", "\t\tif req.ClientID != \"\" && req.ClientID != claims.GetAuthorizedParty() {", "\t\tif req.ClientID != \"\" && claims.GetAuthorizedParty() == \"\" {"),
 ("c19-refresh-always-advertised", "C19", "pkg/op/discovery.go", "\tif c.GrantTypeRefreshTokenSupported() {\n\t\tgrantTypes = append(grantTypes, oidc.GrantTypeRefreshToken)\n\t}", "\tgrantTypes = append(grantTypes, oidc.GrantTypeRefreshToken)"),
 ("c19-discover-issuer-prefix", "C19", "pkg/client/client.go", "\tif discoveryConfig.Issuer != issuer {", "\tif !strings.HasPrefix(discoveryConfig.Issuer, issuer) {"),
 ("c06-exp-without-skew", "C06", "pkg/op/token.go", "\texp := time.Now().UTC().Add(client.ClockSkew()).Add(validity)", "\texp := time.Now().UTC().Add(validity)"),
 ("c06-athash-over-idless", "C06", "pkg/op/token.go", "\t\tatHash, err := oidc.ClaimHash(accessToken, signingKey.SignatureAlgorithm())", "\t\tatHash, err := oidc.ClaimHash(accessToken, jose.RS256)"),
 ("c11-merge-set", "C11", "pkg/op/auth_request.go", "\t\t\tqueries.Add(param, value)", "\t\t\tqueries.Set(param, value)"),
]
wt = "/tmp/own-mutants-wt"
subprocess.run(["git", "-C", "/repo", "worktree", "remove", "--force", wt], capture_output=True)
subprocess.run(["git", "-C", "/repo", "worktree", "prune"])
subprocess.check_call(["git", "-C", "/repo", "worktree", "add", "-q", "--detach", wt, "HEAD"])
index = []
for name, prop, f, old, new in M:
    p = os.path.join(wt, f)
    s = open(p).read()
    if s.count(old) != 1:
        print("SKIP %s: pattern occurs %d times" % (name, s.count(old)))
        continue
    s2 = s.replace(old, new)
    if "jose.RS256" in new and "jose \"github.com/go-jose" not in s2:
        s2 = s2.replace('import (', 'import (\n\tjose "github.com/go-jose/go-jose/v4"', 1)
    if "strings." in new and '"strings"' not in s2:
        s2 = s2.replace('import (', 'import (\n\t"strings"', 1)
    open(p, "w").write(s2)
    subprocess.run(["gofmt", "-w", p])
    d = subprocess.run(["git", "-C", wt, "diff"], capture_output=True, text=True).stdout
    open("/verif/mutants/%s.diff" % name, "w").write(d)
    subprocess.check_call(["git", "-C", wt, "checkout", "--", "."])
    index.append((name, prop))
subprocess.run(["git", "-C", "/repo", "worktree", "remove", "--force", wt])
open("/verif/mutants/INDEX.txt", "w").write("".join("%s %s\n" % x for x in index))
print(len(index), "mutants written")
