#!/usr/bin/env python3
"""Determinism self-test: every property's world is run for R seeds in 6 separate processes
(GOMAXPROCS 1, 4, 16; twice each) and the complete event logs are compared."""
import hashlib, os, subprocess, sys, shutil
VERIF = os.path.dirname(os.path.dirname(os.path.abspath(__file__)))
sys.path.insert(0, os.path.join(VERIF, "scripts"))
from props import PROPS
import run_check
runs = int(sys.argv[1]) if len(sys.argv) > 1 else 30
props = sys.argv[2:] or sorted(PROPS)
bad = 0
for prop in props:
    binp = run_check.build(prop, race=False)
    digests = {}
    for procs in (1, 4, 16):
        for rep in (0, 1):
            e = run_check.env_base()
            e.update(VERIF_PROP=prop, VERIF_DUMP="1", VERIF_RUNS=str(runs), VERIF_SEED="7", GOMAXPROCS=str(procs))
            r = subprocess.run([binp, "-test.run", "TestSim", "-test.count=1", "-test.timeout=30m"], cwd=os.path.join(VERIF, "sim"), env=e, capture_output=True, text=True)
            lines = [l for l in r.stdout.splitlines() if not l.startswith(("PASS", "ok ", "--- ", "=== ", "FAIL"))]
            digests[(procs, rep)] = hashlib.sha256("\n".join(lines).encode()).hexdigest()[:16]
            if not lines:
                print("  %s procs=%d: empty output: %s" % (prop, procs, r.stderr[-300:]))
    ok = len(set(digests.values())) == 1
    print("%s %s  %d seeds x 6 processes (GOMAXPROCS 1/4/16 x2): %s" % ("OK  " if ok else "DIFF", prop, runs, sorted(set(digests.values()))))
    if not ok:
        bad += 1
        print("   ", digests)
sys.exit(1 if bad else 0)
