"""Per-property configuration of the simulation checks (tiers, evidence texts, vacuity guards)."""

REAL_COMMON = ["pkg/op (Provider and LegacyServer routers)", "pkg/client/rp", "pkg/client/rs", "pkg/client", "pkg/client/profile",
               "pkg/client/tokenexchange", "pkg/oidc", "pkg/http", "pkg/crypto", "go-jose", "x/oauth2", "gorilla/securecookie", "zitadel/schema", "chi"]
STUB_COMMON = ["storage: SimStore (map-backed implementation of the documented op.Storage contract, with journal and fault injector)",
               "network: simnet RoundTripper calling the node's http.Handler in-process (no sockets, no TLS)",
               "user agent and login UI: harness actors (real net/http/cookiejar)",
               "clock: testing/synctest fake clock", "randomness: testing/cryptotest seeded crypto/rand"]

FLOW_ASSUME = ["storage follows the documented op.Storage contract (SimStore, DESIGN.md section 2.5) and never lies about its own effects",
               "requests are served one at a time unless a check says otherwise; no real sockets, TLS or net/http server internals",
               "checks are compiled with go1.26.8 while the pinned suite uses go1.24.1",
               "a clean batch is evidence over the sampled histories, not a proof"]


def flow(engine, technique, rule, quick, thorough, min_probes, level_text, design_ref, level="exploration", level_note=None, extra_assume=None):
    return {
        "level": level, "engine": engine, "technique": technique, "rule": rule, "quick": quick, "thorough": thorough,
        "min_probes": min_probes, "components": {"real": REAL_COMMON, "stub": STUB_COMMON},
        "assumptions": FLOW_ASSUME + (extra_assume or []),
        "level_text": level_text,
        "level_note": level_note or "Trusted: SimStore as reference storage, synctest/cryptotest, the harness's reference model of the statement. Not covered: real sockets/TLS, concurrent requests inside one handler.",
        "design_ref": design_ref,
    }


PROPS = {
    "C13": {
        "level": "exploration",
        "engine": "W-keyset",
        "technique": "deterministic simulation: seeded park/release scheduler over the real remoteKeySet with simulated JWKS transport, rotation, cancellation and fault injection; interval oracle over the recorded history",
        "rule": "one evaluation = one seeded world: 2-6 caller tasks x 1-3 VerifySignature calls on one real rp.remoteKeySet; the scheduler picks every "
                "interleaving (hook points verify.miss, update.enter, update.predone, update.precommit; transport req/handle/deliver), rotation, cancellation, "
                "deadline and fault. non-trivial = at least one JWKS download and two calls; distinct = distinct sequence of applied scheduler events",
        "quick": {"runs": 1500, "wall": 40},
        "thorough": {"runs": 400000, "wall": 900},
        "min_probes": {
            "quick": {"_runs": 5000, "joined-inflight": 100, "window-hook-with-arrival": 50, "failed-download-with-warm-cache": 20,
                      "rotation-between-handle-and-deliver": 20, "deadline-while-waiting": 20, "two-successive-downloads": 100, "kid-less-ambiguous": 10, "own-context-ended-while-waiting": 200, "call-accepted-after-refresh": 1000, "every-key-withdrawn": 300},
            "thorough": {"_runs": 100000, "joined-inflight": 1000, "window-hook-with-arrival": 1000, "failed-download-with-warm-cache": 500},
        },
        "components": {"real": ["pkg/client/rp.remoteKeySet (jwks.go)", "pkg/http.HttpRequest", "pkg/oidc.FindMatchingKey", "go-jose signature verification", "net/http.Client"],
                       "stub": ["JWKS endpoint and transport (parking RoundTripper)", "clock (synctest)", "callers (harness tasks)"]},
        "assumptions": ["goroutines of the key set interleave only at the six hook points and at the transport (everything between two points runs atomically; library mutexes are never contended)",
                        "checks are compiled with go1.26.8 while the pinned suite uses go1.24.1",
                        "a clean batch is evidence over the sampled schedules, not a proof"],
        "level_text": "Seeded exploration of schedules and fault sequences around one real remoteKeySet; the history oracle (soundness, completeness, single flight, cache retention, bounded refresh, isolation) is evaluated on every run. Sampling, not enumeration: the schedule space is unbounded.",
        "level_note": "Trusted: synctest quiescence detection, the hook placement in jwks.go (build tag verif), go-jose. Not covered: real sockets/TLS, preemption inside critical sections.",
        "design_ref": "DESIGN.md section 4 C13 and Appendix A",
    },
    "C04": flow(
        "W-flows",
        "deterministic simulation: seeded multi-client histories of authorize/login/callback/code-exchange against the real provider (both routers) over simulated storage, network and clock; one-directional history oracle",
        "one evaluation = one seeded world (router, algorithm, provider flags, 5 client registrations) running 30-70 actor steps: start authorization, login, redeem a code "
        "honestly or with 1-2 deviations (foreign client, replay, wrong/missing redirect_uri or verifier, wrong/no secret). non-trivial = at least one honest redemption "
        "succeeded and one adversarial redemption was attempted; distinct = distinct step history",
        {"runs": 250, "wall": 60}, {"runs": 40000, "wall": 900},
        {"quick": {"_runs": 1500, "code-redeemed-with-another-loopback-uri": 150, "native-loopback-port-variation": 1000, "honest-redeem-success": 1000, "adversarial-redeem": 5000, "code-issued": 3000, "concurrent-pairs": 3000, "premature-callbacks": 2000, "authorization-with-id-token-hint": 1000},
         "thorough": {"_runs": 50000, "honest-redeem-success": 50000}},
        "Seeded exploration of interleaved multi-client histories; every 2xx token response is checked against the ledger of issued codes (client, redirect URI, PKCE, single use, token binding).",
        "DESIGN.md section 4 C04"),
    "C10": dict(flow(
        "W-fault",
        "deterministic simulation with exhaustive single-fault enumeration: for each flow and router a fault-free pilot counts the storage calls of the target request, then one fresh seeded world per (k, fault kind) fails exactly the k-th storage call - after a warm-up history (another client's JWT tokens verified by the provider, keys, discovery, and the idempotent target request itself once fault-free)",
        "one evaluation = one (configuration seed, flow, router): pilot + one simulated world per (k-th storage call of the target request) x (error | context-timeout | torn out-parameter). "
        "distinct non-trivial case = distinct (router, flow, k, fault kind, storage method) in which the fault actually fired inside the target request",
        {"runs": 16, "wall": 90}, {"runs": 2500, "wall": 1200},
        {"quick": {"_runs": 200, "user-code-always-taken": 3, "error": 800, "timeout": 800, "torn": 30, "canceled": 800, "_distinct": 400, "warm-up-jwt-verified": 200, "target-warm-run": 80},
         "thorough": {"_runs": 20000, "error": 50000, "torn": 2000}},
        "Fault enumeration: every storage-call position of every scripted flow on both routers is failed once per fault kind (complete in k for the flows and configurations run); the response is checked for an error answer and for the absence of codes, tokens, claims and active:true.",
        "DESIGN.md section 4 C10", level="fault_enumeration",
        level_note="Trusted: SimStore reports every injected fault as an error (no silent loss); the flow scripts cover 27 target requests x 2 routers. Multi-fault sequences are not enumerated."),
        exhaustive_if_probes=[f"flow:{f}/{r}" for f in ['authorize', 'authorize-unregistered-uri', 'authorize-with-hint', 'callback-code', 'callback-code-formpost', 'callback-idtoken-token', 'callback-idtoken', 'callback-idtoken-token-formpost', 'code-exchange', 'code-exchange-offline', 'code-exchange-public', 'code-exchange-jwtclient', 'refresh', 'client-credentials', 'jwt-bearer', 'token-exchange-access', 'token-exchange-refresh', 'token-exchange-id', 'token-exchange-actor', 'device-authorization', 'device-token', 'userinfo', 'introspect', 'revoke-access', 'revoke-refresh', 'end-session', 'keys'] for r in ("A", "B")]),
    "C05": flow(
        "W-flows",
        "deterministic simulation: seeded histories of token, introspection, revocation and device-authorization requests by honest and hostile clients with every credential presentation; success checked against a reference authentication/grant matrix",
        "one evaluation = one seeded world (router, provider flags, storage capabilities, 5 client registrations with random grant sets) running 40-80 actor steps; each step picks endpoint x grant x client x credential presentation "
        "(right, wrong secret, secret by the other method, id only, none, assertion signed by foreign/other client's key, expired, wrong aud, sub!=iss, future iat). non-trivial = at least one success was checked; distinct = distinct step history",
        {"runs": 40, "wall": 90}, {"runs": 8000, "wall": 1200},
        {"quick": {"_runs": 400, "refresh-after-grant-was-withdrawn": 120, "code-redeemed-after-grant-was-withdrawn": 300, "refresh-success": 300, "introspect-active": 200, "other-grant-success": 150, "device-code-issued": 200, "secret-check-fails": 300},
         "thorough": {"_runs": 20000}},
        "Seeded exploration; one-directional oracle: every token issued, active:true, effective revocation or device code implies the reference matrix admits the presented credentials and the grant is registered and enabled; refusals must be OAuth error documents.",
        "DESIGN.md section 4 C05 and Appendix C"),
    "C07": flow(
        "W-flows",
        "deterministic simulation: seeded histories of code flows followed by refresh chains by owner and foreign clients with subset/superset/disjoint scopes, replayed and unknown tokens, storage faults inside refreshes, and scheduled concurrent groups (2-4 requests about one token pair interleaved by the seeded scheduler at every storage call); history oracle against the storage journal, real-time-order rules and a porcupine linearizability cross-check against a two-bit liveness model",
        "one evaluation = one seeded world running 40-80 actor steps biased to refresh requests (chains up to 8 long, clock jumps, revocation and logout in between; in faulting worlds one storage call of a refresh may fail) and 'race' steps: refreshes, revocations, logout and uses of one token pair as concurrent tasks, "
        "every interleaving at storage calls and at most one storage fault chosen by the scheduler. non-trivial = at least one refresh succeeded; distinct = distinct step history",
        {"runs": 40, "wall": 90}, {"runs": 8000, "wall": 1200},
        {"quick": {"_runs": 400, "refresh-after-grant-was-withdrawn": 400, "refresh-success": 1000, "widening-refused": 1000, "refresh-chain-2+": 300, "race-groups": 1500, "race-refresh-ok": 400, "race-linearizability-checked": 1200, "error": 80, "sched-error": 100},
         "thorough": {"_runs": 20000, "race-groups": 100000}},
        "Seeded exploration; every successful refresh is checked for client binding, registered grant, scope subset, rotation through the storage (journal), response token = storage's new token, preserved subject/audience/auth_time and non-growing scope along the chain.",
        "DESIGN.md section 4 C07"),
    "C08": flow(
        "W-flows",
        "deterministic simulation: seeded histories of issuance, userinfo, introspection, revocation, logout and clock jumps past expiry with genuine, tampered, re-encrypted and garbage tokens, torn storage faults, and scheduled concurrent groups (uses, revocations, refreshes and logout of one token pair interleaved by the seeded scheduler at every storage call); reference liveness model, real-time-order rules and a porcupine linearizability cross-check",
        "one evaluation = one seeded world running 40-80 actor steps (obtain, userinfo, introspect, revoke with/without hint by owner/foreign/public client, end_session, clock advance to and past expiry). "
        "non-trivial = a token was honoured and a revocation or logout took effect; distinct = distinct step history",
        {"runs": 40, "wall": 90}, {"runs": 8000, "wall": 1200},
        {"quick": {"_runs": 400, "clock-at-a-token's-expiry-instant": 80, "userinfo-200": 500, "introspect-active": 150, "introspect-inactive": 500, "revocation-effective": 300, "garbage-revocation": 100, "foreign-revocation-attempt": 50, "logout": 300, "race-groups": 1500, "race-use-ok": 600, "race-kill-ok": 1500, "race-use-overlapping-kill": 300,
                   "race-linearizability-checked": 1200, "subject-with-colon": 100, "exchange-success": 150, "exchange-with-actor-success": 50, "exchange-id-token-subject-success": 20},
         "thorough": {"_runs": 20000}},
        "Seeded exploration; userinfo 200 / active:true imply the token is live in the reference model (and the caller authenticated and in the audience); inactive answers are exactly {active:false}; owner revocation and logout kill the tokens; foreign revocation is refused; garbage revocation answers 200.",
        "DESIGN.md section 4 C08"),
    "C15": flow(
        "W-flows",
        "deterministic simulation: seeded histories of token-exchange requests with live, expired, revoked, foreign, type-confused and garbage subject/actor tokens under a changing storage policy; success checked against the liveness model and the storage journal",
        "one evaluation = one seeded world (router, token types, policy) running 40-80 actor steps: obtain tokens, exchange (subject kind x actor kind x declared type x requested type x scopes x caller x presentation), "
        "revoke, logout, clock jumps, policy changes (default type, veto, impersonation, dropped scopes). non-trivial = at least one exchange succeeded; distinct = distinct step history",
        {"runs": 40, "wall": 90}, {"runs": 8000, "wall": 1200},
        {"quick": {"_runs": 400, "clock-at-a-token's-expiry-instant": 100, "exchange-success": 300, "veto-at-ValidateTokenExchangeRequest": 20, "veto-at-CreateTokenExchangeRequest": 15, "veto-at-GetPrivateClaimsFromTokenExchangeRequest": 5, "veto-at-SetUserinfoFromTokenExchangeRequest": 3, "act-chain-decided": 3, "exchange-with-third-party-token-success": 5}, "thorough": {"_runs": 20000}},
        "Seeded exploration; every 2xx exchange implies an authenticated, registered client, live subject/actor tokens of the declared type, no veto, a non-empty token of the declared kind that is live at the provider and carries the subject, scopes and actor the journal shows the policy decided.",
        "DESIGN.md section 4 C15"),
    "C09": dict(flow(
        "W-fault",
        "deterministic simulation with fault enumeration: (a) a fixed catalogue of malformed requests, crafted tokens, hostile provider answers and JSON documents is run completely against the real provider (both routers), the client helpers and the decoders; (b) storage-fault sweeps - every storage-call position of 27 flows on both routers fails once - judged by the answers-once rules (one response, no panic, no storage call after an error answer)",
        "one evaluation = one seeded world (router, algorithm, token types, capabilities, user-code configuration incl. degenerate ones) x the complete catalogue: ~3150 server requests (42 token payloads x 2 overlays x 12 token sinks, broken token shapes, "
        "10 malformed Basic headers x 10 grant types x 4 endpoints, 10 malformed bodies, 14 routes x 7 methods x 10 queries, 150 seeded mutations), ~1730 faulty-peer answers to 18 client helpers, ~1750 decoder/verifier inputs, and ~230 requests with genuine tokens, ID tokens and codes of two clients after their lifetimes have passed (clock advance). "
        "One world in four is a catalogue world; the other three are fault sweeps of one (flow, router) pair each. distinct non-trivial = distinct (router, case) executed plus distinct world configurations",
        {"runs": 6, "wall": 120}, {"runs": 600, "wall": 1500},
        {"quick": {"_runs": 96, "server-cases": 60000, "client-cases": 30000, "decoder-cases": 30000, "server-error-answers": 30000, "client-errors-returned": 20000, "keyset-child-cases": 1500,
                   "fault-sweep-worlds": 60, "fault-sweep-cases": 500, "clock-advanced-for-aged-tokens": 40, "slow-peer-cases": 1000},
         "thorough": {"_runs": 6000, "fault-sweep-cases": 100000}},
        "Fault enumeration over a stated catalogue (complete per world) plus seeded mutation: no handler, helper, verifier or decoder may panic; a recorder counts response headers and the storage journal shows whether a handler went on after answering with an error.",
        "DESIGN.md section 4 C09", level="fault_enumeration",
        level_note="Trusted: the catalogue is the input space (it is large but not all inputs); simnet instead of net/http server, so connection-level behaviour is out of scope."),
        ),
    "C16": flow(
        "W-flows",
        "deterministic simulation: seeded histories of device authorization, approval, denial, expiry (clock jumps) and polling by initiating and foreign clients, including the real rp.DeviceAccessToken polling loop on the simulated clock, storage time-outs, and scheduled concurrent groups (polls by the initiating and a foreign client interleaved with the user's approval or denial at every storage call)",
        "one evaluation = one seeded world (router, user-code alphabet/length/dash interval, lifetime, poll interval) running 30-70 actor steps: start (any client, any credential presentation), approve/deny, poll (right/foreign client, unknown code, "
        "injected storage timeout), clock advance, and a complete client polling loop with approval/denial/expiry after 0-3 polls. non-trivial = tokens were issued at least once; distinct = distinct step history",
        {"runs": 40, "wall": 90}, {"runs": 8000, "wall": 1200},
        {"quick": {"_runs": 400, "polls-around-the-expiry-instant": 100, "device-started": 1500, "device-tokens": 500, "poll-loop-approve": 500, "poll-answer-slow_down": 100, "poll-answer-expired_token": 100, "poll-answer-access_denied": 100, "storage-timeout": 100, "user-code-collisions": 50, "race-groups": 500, "race-device-tokens": 150},
         "thorough": {"_runs": 20000}},
        "Seeded exploration; tokens imply approval of that code by the ledger user and the initiating, authenticated client; refusals follow the reference state machine (pending/denied/expired/slow_down); response fields follow the configuration; bounded progress of the real polling loop after approval.",
        "DESIGN.md section 4 C16 and Appendix C"),
    "C03": flow(
        "W-flows",
        "deterministic simulation: seeded hostile authorization and callback requests against randomly registered clients, with storage faults at every call; every response's Location / form action is checked against a reference redirect-URI matcher",
        "one evaluation = one seeded world (router, 4 random client registrations: application type x dev mode x auth method x response types x 1-4 registered URIs x opted-in or ignored globs) running 40-80 steps: authorize with a redirect_uri "
        "drawn from 26 mutation kinds of a registered URI, crossed with response type/mode, other broken parameters and storage faults; callbacks for done/not-done/unknown requests. non-trivial = a redirect to a client and an error page both occurred",
        {"runs": 400, "wall": 60}, {"runs": 150000, "wall": 1200},
        {"quick": {"_runs": 5000, "response-type-spelled-unusually": 5000, "redirect-to-client": 20000, "to-login": 5000, "error-page": 100000, "error": 4000, "concurrent-callback-pairs": 800}, "thorough": {"_runs": 500000}},
        "Seeded exploration; whenever the user agent is sent anywhere but the login page (302 or form_post) the target must be the requested URI and that URI must be allowed for the client by the reference matcher; missing/unknown-client requests get an error page.",
        "DESIGN.md section 4 C03 and Appendix C"),
    "C18": flow(
        "W-flows",
        "deterministic simulation: seeded end_session requests with genuine, expired (clock jumps), re-signed, foreign-issuer, azp-less, tampered and garbage hints and hints of another tenant of the same provider (multi-tenant worlds: issuer from Host or Forwarded header) crossed with client_id, post-logout URIs, globs and states on both routers",
        "one evaluation = one seeded world (router, algorithm, per-client post-logout registrations and globs, id-token lifetimes) running 40-80 steps: obtain id tokens, advance the clock, logout with hint kind x client_id x post_logout_redirect_uri kind x state x GET/POST. "
        "non-trivial = at least one logout redirected and one was rejected",
        {"runs": 40, "wall": 90}, {"runs": 8000, "wall": 1200},
        {"quick": {"_runs": 400, "signing-key-rotated": 400, "signing-key-rotated-to-another-algorithm": 40, "separate-access-token-keyset": 80, "logout-through-the-storage's-request-capability": 300, "separate-hint-keyset": 40, "hints-signed-by-the-hint-keyset-key": 100, "logout-redirect": 2000, "logout-rejected": 4000, "redirect-to-registered": 800, "expired-hint-accepted": 300, "hints-of-other-tenant": 300}, "thorough": {"_runs": 20000}},
        "Seeded exploration; a redirect goes to the default URI or to a URI registered for the client proven by a validly signed hint (or client_id); invalid hints and contradictions are rejected; expired valid hints are accepted; the journal shows the hint's subject and client being terminated; state arrives unchanged.",
        "DESIGN.md section 4 C18"),
    "C17": flow(
        "W-flows",
        "deterministic simulation: seeded interleavings of several login attempts of one real relying party (cookie handler, PKCE on/off) in two browsers, with attacker-crafted callbacks (missing, foreign-instance, swapped, truncated, bit-flipped, replayed and stale cookies); oracle over the simulated network log",
        "one evaluation = one seeded world (router, PKCE, cookie max-age, auth style) running 30-70 steps: start a login through rp.AuthURLHandler, deliver a callback in one of 17 variants (incl. a state that equals the cookie's only after one more decoding step), advance the clock past the cookie age. "
        "non-trivial = at least one callback led to a token request and one was refused; distinct = distinct step history",
        {"runs": 100, "wall": 60}, {"runs": 40000, "wall": 1200},
        {"quick": {"_runs": 1500, "code-sent-to-provider": 2000, "callback-refused": 15000, "honest-login-completed": 800, "attempt-started": 15000, "concurrent-starts": 2000, "token-endpoint-drop-resp": 300, "token-endpoint-500": 300}, "thorough": {"_runs": 100000}},
        "Seeded exploration; a token-endpoint request from the RP implies the callback's state equals the plaintext of a state cookie this RP instance signed and presented by that browser, and the verifier sent equals the pkce cookie whose S256 went into the authorization URL; refusals run the unauthorized handler and send nothing.",
        "DESIGN.md section 4 C17"),
    "C06": flow(
        "W-flows",
        "deterministic simulation: every token response of seeded multi-flow runs (code, implicit, refresh, device, client_credentials, jwt-bearer, token-exchange) under rotating keys (between requests and, as an environment event, right before the k-th storage call of a request; within and across algorithm families), clock skew and a frozen clock is re-verified with the library's own verifiers and compared with the stored grant",
        "one evaluation = one seeded world (router, one of 8 signing algorithms, per-client token type/skew/lifetime/assertion flag, colliding custom claims) running 25-50 steps over 7 flows plus key rotation and clock advance. "
        "non-trivial = id tokens and access tokens were both checked; distinct = distinct step history",
        {"runs": 40, "wall": 90}, {"runs": 8000, "wall": 1200},
        {"quick": {"_runs": 400, "id-token-issued-by-a-slow-request": 100, "id-tokens-checked": 8000, "access-tokens-checked": 8000, "rotation-in-mid-request": 500, "signed-with-key-rotated-in-mid-request": 300, "refresh-after-refused-wish": 200, "multi-tenant-steps": 2000}, "thorough": {"_runs": 20000}},
        "Seeded exploration with exact-time oracles (the simulated clock is frozen during a request): signing key, rp.VerifyTokens against the published JWKS over simnet, iss/aud/azp/sub/nonce/auth_time/amr, iat and exp equalities, at_hash/c_hash, user claims only for granted scopes, opaque tokens decrypt only with the provider key, expires_in/scope equal the stored values.",
        "DESIGN.md section 4 C06"),
    "C14": flow(
        "W-flows",
        "deterministic simulation: seeded assertions (iss, sub, aud, iat, exp on clock boundaries, kid, signing key) presented as jwt-bearer grant and as client authentication at four endpoints, signed request objects, and the library's own client helpers, against the real provider - in half of the worlds a multi-tenant provider (2-3 issuers from the Host or, behind a simulated reverse proxy, the Forwarded header) with every step addressed to a seeded tenant",
        "one evaluation = one seeded world running 40-80 steps: generated assertion x 5 surfaces, request object with 0-2 deviations, helper interop (profile, rs, tokenexchange, rp), clock advance. non-trivial = assertions were both accepted and refused",
        {"runs": 40, "wall": 90}, {"runs": 8000, "wall": 1200},
        {"quick": {"_runs": 400, "assertion-with-another-client_id-in-the-form": 1200, "concurrent-assertion-groups": 500, "concurrent-forgeries-rejected": 400, "assertion-accepted": 2000, "assertion-refused": 5000, "helper-assertions-accepted": 1500, "request-object-honoured": 300, "request-object-not-honoured": 3000, "multi-tenant-steps": 5000}, "thorough": {"_runs": 20000}},
        "Seeded exploration; accepted assertions must be valid in the reference model for the client named as issuer (key, audience, times outside a 2 s band, sub=iss) and the authenticated identity equals the issuer; request-object parameters take effect only for valid objects; helper-made assertions are accepted.",
        "DESIGN.md section 4 C14"),
    "C11": flow(
        "W-flows",
        "deterministic simulation of the three-party pipeline (provider encodes, user agent decodes query / fragment / auto-submit form, relying party consumes) with seeded hostile parameter values, requests without state, and error responses caused by a failing storage that answers with one reused *oidc.Error value; conservation oracle",
        "one evaluation = one seeded world (router, RP response mode, session state on/off) running 30-60 steps: raw authorization (success or error) with generated state/nonce x response type x mode x redirect URI shape, or a complete login through the real relying party. "
        "The values are seeded generation over Unicode and ASCII punctuation; only the pipeline is simulation. non-trivial = responses were decoded and the RP pipeline ran",
        {"runs": 40, "wall": 90}, {"runs": 8000, "wall": 1200},
        {"quick": {"_runs": 400, "responses-decoded": 8000, "mode-form_post": 1500, "mode-fragment": 3000, "mode-query": 3000, "pipeline-completed": 3000, "storage-error-responses": 300, "storage-error-responses-without-state": 30, "sentinel": 300, "response-write-fails": 500, "storage-error-text-arrived-intact": 80, "storage-oauth-error-arrived-intact": 100}, "thorough": {"_runs": 20000}},
        "Seeded exploration; what the user agent decodes equals what the provider produced and the client sent (code, state, session_state, tokens, error, description), pre-existing query parameters survive, the form has exactly the expected DOM, and fault-free logins complete at the relying party.",
        "DESIGN.md section 4 C11"),
    "C19": flow(
        "W-flows",
        "deterministic simulation used as a configuration sweep: seeded provider configurations (flags, storage capabilities, custom relative/absolute endpoints, static/host/forwarded issuer, both routers) are probed through discovery, every advertised endpoint and every grant type; 2-3 tenants per host-derived world visited in a seeded order (the Forwarded strategy behind a simulated reverse proxy with one internal Host); concurrent discovery for different hosts",
        "one evaluation = one seeded provider configuration: discovery per issuer host, probe of each advertised endpoint, 7 grant-type probes, a complete code flow with S256 (wrong verifier must fail) using only advertised endpoints, a signed request object when advertised, "
        "interleaved discovery for two hosts with host-derived issuers, a 14-row issuer-validation table and 5 hostile discovery documents. Apart from the host interleaving this is a configuration sweep (said plainly). distinct = distinct configuration",
        {"runs": 40, "wall": 90}, {"runs": 20000, "wall": 1200},
        {"quick": {"_runs": 400, "providers-built-from-one-issuer-strategy": 300, "discovery-fetched": 500, "grant-probes": 3000, "endpoint-probes": 3000, "flows-completed": 500, "issuer-table-rows": 5000, "hostile-documents": 2000, "interleaved-discoveries": 500, "request-object-probes": 100, "multi-tenant-worlds": 100, "request-object-history-probes": 100, "sibling-provider-groups": 300},
         "thorough": {"_runs": 50000}},
        "Seeded exploration of configurations; the document's issuer equals the iss of issued tokens, advertised endpoints are issuer-relative (or the configured absolute URL) and served, grant types are advertised iff not answered unsupported_grant_type, advertised S256 and request objects are honoured, bad issuers are rejected at construction, foreign-issuer documents are rejected by client.Discover.",
        "DESIGN.md section 4 C19"),
    "C02": flow(
        "W-flows",
        "deterministic simulation with fault enumeration: a Byzantine network actor applies every operator of a fixed tamper catalogue to genuinely issued tokens in flight and delivers them to the five real verifier surfaces, under seeded algorithm families and key-set shapes",
        "one evaluation = one seeded world (router, one of 8 algorithms, one of 7 provider key-set shapes) x 5 surfaces (rp.VerifyIDToken over the real remote key set, /userinfo, /end_session id_token_hint, jwt-bearer assertion, request object) x 42 operators "
        "(strip, alg none, 18 HMAC-with-public-key encodings, re-sign, kid games, payload edits, truncation, segment counts, alg outside the allow-list, wrong key type, JSON general/flattened serialisation incl. smuggled payloads, embedded jwk). "
        "Epilogue (a history): the provider rotates and retires its key; the same long-lived verifiers must believe the new key's tokens and, having fetched the new set, reject the retired key's. distinct non-trivial = distinct (surface, operator, algorithm, key-set shape) delivered",
        {"runs": 30, "wall": 90}, {"runs": 6000, "wall": 1200},
        {"quick": {"_runs": 300, "separate-access-token-keyset": 25, "withdrawn-key-rejected": 300, "genuine-accepted": 1000, "tampered-rejected": 40000, "hmac": 10000, "json": 4000, "kidless-probes": 20, "_distinct": 3000, "rotation-epilogues": 150, "retired": 400, "second-client-key-used": 250, "kidless-history-probes": 20}, "thorough": {"_runs": 20000}},
        "Fault enumeration over the stated operator catalogue (complete per world): only the unmodified token (and a kid-less re-signature with exactly one candidate key) may be believed; the claims handed back are those of the signed payload; two fitting keys and no kid must be refused.",
        "DESIGN.md section 4 C02", level="fault_enumeration",
        level_note="Trusted: go-jose's primitives. The catalogue is the manipulation space; no schedule dimension."),
    "C01": flow(
        "W-time",
        "deterministic simulation of the clock: tokens minted at t0 are verified by the real rp verifier at t0+delta with delta placed on, one second and three seconds around every time boundary; executable reference predicate with a stated rounding band; in one world of three the keys come from the real remote key set against a simulated JWKS endpoint with key renames and one-request outages",
        "one evaluation = one seeded world (algorithm, key) x 100-200 verifications: verifier configuration (offset, max iat age, max auth age, nonce, acr) and claims (iss, sub, aud, azp, exp, iat, auth_time, nonce, acr, at_hash, wrong key) drawn per case, the simulated clock advanced to the instant of verification. "
        "The time axis is decided by the simulator; the claim dimensions are seeded generation. non-trivial = acceptances, rejections and boundary placements all occurred",
        {"runs": 20, "wall": 90}, {"runs": 6000, "wall": 1200},
        {"quick": {"_runs": 300, "accepted": 5000, "rejected": 20000, "on-a-time-boundary": 5000, "remote-key-set-worlds": 60, "rejected-while-jwks-endpoint-was-down": 20, "download-and-rotation-in-one-second": 500, "kidless-provider-worlds": 15}, "thorough": {"_runs": 20000}},
        "Seeded exploration; accept implies every conjunct of OIDC Core 3.1.3.7 holds at the simulated instant, every conjunct holding with more than 2 s margin implies acceptance with unchanged claims; inside the band either answer is admissible.",
        "DESIGN.md section 4 C01"),
    "C20": dict(flow(
        "W-race",
        "deterministic simulation for the isolation half (invariants on package defaults and caller objects after every step of seeded construction/usage programs) plus seeded concurrent mixes on shared instances under the Go race detector (runtime-scheduled goroutines; happens-before analysis is the oracle)",
        "one evaluation = one seeded isolation program of 25-45 steps (construct providers with custom/default endpoints, relying parties, resource servers; EndSession, RevokeToken, Userinfo, Discover, device polling) with the invariants checked after every step, "
        "plus eight seeded goroutine mixes (3-8 goroutines from a barrier, 4 processors) on one provider, one relying party (functions and HTTP handlers), one resource server + key set, concurrent construction (endpoints, issuer strategies) error answers while the storage returns one reused error value, and callers of one remote key set that give up while a slow download is outstanding, all in a -race build. distinct = distinct isolation program",
        {"runs": 12, "wall": 120}, {"runs": 3000, "wall": 1500},
        {"quick": {"_runs": 150, "isolation-programs": 150, "race-mixes": 1300, "scheduled-concurrent-logins": 200, "sentinel-error-requests": 200, "scheduled-concurrent-reads": 200}, "thorough": {"_runs": 10000}},
        "Isolation: deterministic and replayable. Races: the seed fixes the program, the interleaving is the Go runtime's; a report is a happens-before violation found by the race detector, replayed by re-running the seed under -race (in practice stable, in principle probabilistic).",
        "DESIGN.md section 4 C20",
        level_note="Trusted: the Go race detector. The race half does not control the schedule (the simulator's own channels would create the happens-before edges that hide races); stated in DESIGN.md."),
        race=True),
}

# Vacuity guards added with the ninth wave of independently written changes (DESIGN.md 12.16): the dimensions that wave
# asked for must actually occur in a quick batch, otherwise the batch says nothing about them.
_W9_GUARDS = {
    "C01": {"token-with-a-nonce-nobody-expects": 1000},
    "C05": {"authorization-names-a-scope-twice": 250, "token-used-shortly-before-and-shortly-after-its-end": 40},
    "C06": {"key-material-replaced-under-the-same-kid": 80},
    "C07": {"authorization-names-a-scope-twice": 300, "token-used-shortly-before-and-shortly-after-its-end": 50, "schedule-strategy:pct": 250, "schedule-strategy:starve": 150},
    "C08": {"authorization-names-a-scope-twice": 250, "jwt-access-token-presented-at-another-tenant": 250, "multi-tenant-steps": 4000, "token-used-shortly-before-and-shortly-after-its-end": 80,
            "schedule-strategy:pct": 200, "schedule-strategy:starve": 100},
    "C09": {"requests-after-the-fault-was-over": 1500},
    "C11": {"registered-uri-repeats-a-parameter": 800},
    "C13": {"schedule-strategy:pct": 2000, "schedule-strategy:starve": 1500, "schedule-strategy:uniform": 4000, "worlds-with-encryption-keys-under-the-signing-kids": 2000,
            "worlds-with-one-kid-for-keys-of-different-types": 2000},
    "C15": {"authorization-names-a-scope-twice": 300, "token-used-shortly-before-and-shortly-after-its-end": 90},
    "C17": {"cookie-keys-of-the-other-application:last-byte-differs": 80, "cookie-keys-of-the-other-application:same-up-to-byte-32": 40, "cookie-keys-of-the-other-application:same-up-to-byte-64": 20,
            "cookie-keys-of-the-other-application:suffix-appended": 80},
    "C20": {"requests-of-sibling-instances-checked": 900},
}
# ... and with the tenth (undirected) wave (DESIGN.md 12.17)
_W10_GUARDS = {
    "C05": {"foreign-caller-whose-form-names-the-owner": 200},
    "C07": {"foreign-caller-whose-form-names-the-owner": 400},
    "C08": {"foreign-caller-whose-form-names-the-owner": 150},
    "C09": {"rp-handler-reached-the-userinfo-callback": 8},
    "C14": {"delegated-assertions-authenticating-a-client": 50, "helper-assertions-accepted": 1500},
    "C16": {"device-form-at-an-absolute-address": 30},
    "C17": {"worlds-with-the-userinfo-callback": 150},
    "C19": {"endpoints-disabled-on-the-server": 80},
    "C20": {"client-side-device-flows": 100},
}
# ... and with the eleventh wave (rarely used API surface, DESIGN.md 12.18)
_W11_GUARDS = {
    "C02": {"rp-key-set-with-skip-remote-check": 50},
    "C03": {"providers-built-with-the-public-constructors": 1000},
    "C04": {"challenge-without-a-method": 1200, "authentication-requests-by-post": 3000},
    "C08": {"userinfo-token-by-post-form": 400, "userinfo-token-by-query": 400},
    "C09": {"device-poll-with-the-peer's-interval": 300},
    "C11": {"response-type-in-the-other-order": 400, "authentication-requests-by-post": 1200},
    "C17": {"cookie-handler-with-a-domain": 150},
    "C18": {"post-logout-loopback-variations": 80},
    "C19": {"providers-built-with-the-public-constructors": 100},
    "C20": {"providers-from-one-shared-config": 100},
}
# ... and with the twelfth wave (undirected, another clause; DESIGN.md 12.19)
_W12_GUARDS = {
    "C05": {"assertion-for-a-look-alike-audience": 400, "subject-with-characters-that-escaping-rewrites": 200},
    "C06": {"subject-with-characters-that-escaping-rewrites": 500},
    "C08": {"subject-with-characters-that-escaping-rewrites": 200},
    "C09": {"fresh-codes-redeemed-with-verifier-anomalies": 300},
    "C15": {"actor-token-without-its-type": 300},
}
# ... and with the thirteenth wave (least examined clause; DESIGN.md 12.20)
_W13_GUARDS = {
    "C02": {"expired-forgeries-presented": 100},
    "C06": {"jwt-access-tokens-for-requests-with-an-empty-audience-list": 200, "storages-that-leave-jwt-expiry-to-the-library": 100},
    "C08": {"storages-that-leave-jwt-expiry-to-the-library": 100},
    "C14": {"assertion-next-to-the-form's-client-at-that-client's-token": 100},
    "C15": {"exchanges-that-issued-an-id-token": 50, "id-token-exchanges-with-an-empty-scope-list": 15},
    "C17": {"callbacks-delivered-by-post": 2000},
    "C19": {"request-objects-that-alone-carry-the-redirect-uri": 100},
}
# ... and with the fourteenth wave (legal but unusual implementations and request shapes; DESIGN.md 12.21)
_W14_GUARDS = {
    "C03": {"providers-behind-the-application's-own-server-type": 300},
    "C04": {"storages-that-answer-an-empty-challenge-value": 200, "providers-behind-the-application's-own-server-type": 200},
    "C05": {"storages-that-compare-an-empty-secret-plainly": 100, "assertion-type-without-an-assertion": 20, "providers-behind-the-application's-own-server-type": 30},
    "C08": {"storages-that-compare-an-empty-secret-plainly": 100},
    "C09": {"providers-behind-the-application's-own-server-type": 4},
    "C15": {"exchange-without-a-type-and-without-a-storage-default": 80},
}
# ... and with the fifteenth wave (undirected; DESIGN.md 12.22)
_W15_GUARDS = {
    "C01": {"time-claims-of-thirteen-digits": 800},
    "C05": {"assertions-by-clients-registered-for-a-secret": 100, "secret-clients-with-a-registered-key": 100},
    "C06": {"signing-keys-published-without-a-use": 80},
    "C09": {"hand-made-jose-headers": 100},
    "C14": {"assertions-with-rfc3339-time-claims": 100},
    "C16": {"device-requests-with-a-scope-of-the-application's-own": 500},
    "C02": {"relying-parties-with-algorithms-from-discovery": 500},
    "C17": {"logins-with-a-state-longer-than-a-kilobyte": 1500},
}
for _gs in (_W9_GUARDS, _W10_GUARDS, _W11_GUARDS, _W12_GUARDS, _W13_GUARDS, _W14_GUARDS, _W15_GUARDS):
    for _p, _g in _gs.items():
        PROPS[_p]["min_probes"]["quick"].update(_g)

# What the fourth build session added to the worlds (DESIGN.md 12.16-12.19), appended to the rule texts of the evidence.
_RULE_ADDENDA = {
    "C01": " Since the fourth session: tokens that carry a nonce nobody expects.",
    "C02": " Since the fourth session: the relying party's key set built with SkipRemoteCheck in half of the named-key worlds; ambiguous kid-less tokens delivered again after a fetch.",
    "C04": " Since the fourth session: client 'odd' (unnamed auth method with a secret), a second private_key_jwt client, challenges without a method (query and request object), authentication requests by POST, providers built with the public constructors.",
    "C05": " Since the fourth session: client 'odd', a second private_key_jwt client, foreign callers whose form names the owner, look-alike assertion audiences, subjects with characters that escaping rewrites, tokens used shortly before and after their end.",
    "C06": " Since the fourth session: key material replaced under the kid in use; a subject with characters that URL escaping rewrites.",
    "C07": " Since the fourth session: scopes named twice at authorization, wishes of the grant's length with one entry exchanged, foreign callers whose form names the owner, scheduler search strategies (uniform / PCT / starve) in the race groups.",
    "C08": " Since the fourth session: multi-tenant worlds (a JWT access token presented at another tenant), userinfo token by header / POST form / query, scheduler search strategies in the race groups.",
    "C09": " Since the fourth session: requests after a fault is over (aftermath) and a pause between history and target in the fault sweeps; the relying party's handlers with the userinfo callback and the device flow with the peer's interval among the client-side cases; fresh codes with verifier anomalies in the server catalogue.",
    "C10": " Since the fourth session: a seeded pause between warm-up history and target request; optional storage capabilities (userinfo/claims from request, end-session from request, exchange verifier) alternate with the cycle through the flows.",
    "C11": " Since the fourth session: delivery-mode rule for every decoded response; response type in the other order; registered redirect URIs that repeat a parameter.",
    "C13": " Since the fourth session: scheduler search strategies (uniform / PCT with seeded priority change points / starve one task); providers that name keys of different types alike; encryption keys published under signing kids.",
    "C14": " Since the fourth session: every helper family that produces assertions (incl. key-file constructors); a second private_key_jwt client; ClientJWTAuth / AuthorizePrivateJWTKey over an exchanger with the application's delegating verifier.",
    "C15": " Since the fourth session: the same token presented shortly before and shortly after its end by the same client; actor tokens without their type.",
    "C16": " Since the fourth session: device form at an absolute address (UserFormURL).",
    "C17": " Since the fourth session: cookie keys of seeded lengths and near-identical keys of the other application; cookie Domain / SameSite options; the userinfo callback; callback variants 'junk state cookie + no state parameter', 'junk pkce cookie', 'state cookie only'.",
    "C18": " Since the fourth session: loopback post-logout registrations and port / host / scheme variations.",
    "C19": " Since the fourth session: endpoints switched off on the LegacyServer (nil entries); providers built with NewOpenIDProvider / NewDynamicOpenIDProvider / NewForwardedOpenIDProvider.",
    "C20": " Since the fourth session: sibling client-side instances with their own credentials; client side of the device grant; providers for several issuers from one shared configuration value (compared after every step).",
}
_RULE_ADDENDA["C02"] += " Time passes beyond the ID token's lifetime at the end: expired hints that were never validly signed."
_RULE_ADDENDA["C03"] = " Since the fourth session: unknown clients reported with the storage's own OAuth error; OAuth-error fault kinds at /authorize; providers built with the public constructors; authentication requests by POST."
_RULE_ADDENDA["C06"] += " Storages that leave the expiry of JWT access tokens to the library; client-credentials requests with an empty, non-nil audience list."
_RULE_ADDENDA["C08"] += " Storages that leave the expiry of JWT access tokens to the library."
_RULE_ADDENDA["C17"] += " Callbacks delivered by POST."
_RULE_ADDENDA["C03"] += " One LegacyServer world in three behind the application's own server type (verifies a copy of the request)."
_RULE_ADDENDA["C04"] += " Storages that answer requests without PKCE with an empty challenge value; verifiers over the whole unreserved alphabet."
_RULE_ADDENDA["C05"] += " Storages that compare an empty secret plainly (as the example storage does); an assertion type without an assertion."
_RULE_ADDENDA["C08"] += " Storages that compare an empty secret plainly."
_RULE_ADDENDA["C09"] += " One LegacyServer world in three behind the application's own server type (answers with Response values of its own making)."
_RULE_ADDENDA["C15"] += " Storages that leave requested_token_type empty: an issued token must declare its type and the type must describe it."
_RULE_ADDENDA["C19"] += " Verifiers over the whole unreserved alphabet."
_RULE_ADDENDA["C01"] += " Time claims of thirteen digits (a legal far-away expiry; an iat that a provider writing milliseconds would send)."
_RULE_ADDENDA["C02"] += " Relying parties that take the allowed algorithms from discovery (WithSigningAlgsFromDiscovery) against documents advertising the algorithm in use, symmetric ones only, none, or another asymmetric one."
_RULE_ADDENDA["C17"] += " States of one to two kilobytes in half of the worlds."
_RULE_ADDENDA["C05"] += " Clients registered for a secret of which the storage also holds a public key, presenting a faultless assertion (three known findings at introspection / revocation, see known_findings.txt)."
_RULE_ADDENDA["C06"] += " Signing keys published without a use member (one world in three)."
_RULE_ADDENDA["C09"] += " Hand-made JOSE headers (members of the wrong JSON type, unknown critical members, embedded keys) over valid claims at every endpoint that takes a token."
_RULE_ADDENDA["C11"] += " States of base64 letters with spaces."
_RULE_ADDENDA["C14"] += " Hand-made assertions whose iat/exp are RFC 3339 strings, in UTC or with a zone offset (half of the worlds)."
_RULE_ADDENDA["C16"] += " Device requests with a scope of the application's own, known to the client's registration or not."
for _p, _t in _RULE_ADDENDA.items():
    PROPS[_p]["rule"] = PROPS[_p]["rule"] + _t
