"""Per-property configuration of the simulation checks (tiers, evidence texts, vacuity guards)."""

REAL_COMMON = ["pkg/op (Provider and LegacyServer routers)", "pkg/client/rp", "pkg/client/rs", "pkg/client", "pkg/client/profile",
               "pkg/client/tokenexchange", "pkg/oidc", "pkg/http", "pkg/crypto", "go-jose", "x/oauth2", "gorilla/securecookie", "zitadel/schema", "chi"]
STUB_COMMON = ["storage: SimStore (map-backed implementation of the documented op.Storage contract, with journal and fault injector)",
               "network: simnet RoundTripper calling the node's http.Handler in-process (no sockets, no TLS)",
               "user agent and login UI: harness actors (real net/http/cookiejar)",
               "clock: testing/synctest fake clock", "randomness: testing/cryptotest seeded crypto/rand"]

PROPS = {
    "C13": {
        "level": "exploration",
        "engine": "W-keyset",
        "technique": "deterministic simulation: seeded park/release scheduler over the real remoteKeySet with simulated JWKS transport, rotation, cancellation and fault injection; interval oracle over the recorded history",
        "rule": "one evaluation = one seeded world: 2-6 caller tasks x 1-3 VerifySignature calls on one real rp.remoteKeySet; the scheduler picks every "
                "interleaving (hook points verify.miss, update.enter, update.predone, update.precommit; transport req/handle/deliver), rotation, cancellation, "
                "deadline and fault. non-trivial = at least one JWKS download and two calls; distinct = distinct sequence of applied scheduler events",
        "quick": {"runs": 1500, "wall": 40},
        "thorough": {"runs": 400000, "wall": 900},
        "min_probes": {
            "quick": {"_runs": 5000, "joined-inflight": 100, "window-hook-with-arrival": 50, "failed-download-with-warm-cache": 20,
                      "rotation-between-handle-and-deliver": 20, "deadline-while-waiting": 20, "two-successive-downloads": 100, "kid-less-ambiguous": 10},
            "thorough": {"_runs": 100000, "joined-inflight": 1000, "window-hook-with-arrival": 1000, "failed-download-with-warm-cache": 500},
        },
        "components": {"real": ["pkg/client/rp.remoteKeySet (jwks.go)", "pkg/http.HttpRequest", "pkg/oidc.FindMatchingKey", "go-jose signature verification", "net/http.Client"],
                       "stub": ["JWKS endpoint and transport (parking RoundTripper)", "clock (synctest)", "callers (harness tasks)"]},
        "assumptions": ["goroutines of the key set interleave only at the six hook points and at the transport (everything between two points runs atomically; library mutexes are never contended)",
                        "checks are compiled with go1.26.8 while the pinned suite uses go1.24.1",
                        "a clean batch is evidence over the sampled schedules, not a proof"],
        "level_text": "Seeded exploration of schedules and fault sequences around one real remoteKeySet; the history oracle (soundness, completeness, single flight, cache retention, bounded refresh, isolation) is evaluated on every run. Sampling, not enumeration: the schedule space is unbounded.",
        "level_note": "Trusted: synctest quiescence detection, the hook placement in jwks.go (build tag verif), go-jose. Not covered: real sockets/TLS, preemption inside critical sections.",
        "design_ref": "DESIGN.md section 4 C13 and Appendix A",
    },
}
