#!/usr/bin/env python3
"""Driver of the deterministic-simulation checks.

usage: run_check.py <property> quick|thorough
       run_check.py <property> --replay <file>

Builds the simulator test binary from /repo's current working tree (build tag
verif), starts one worker process per core, merges their summaries, writes
/verif/evidence/<property>.json and prints VIOLATION / KNOWN-FINDING lines.
exit 0 = property held on everything explored, 1 = violation, 2 = infrastructure.
"""
import re
import json, os, subprocess, sys, time, shutil

VERIF = os.path.dirname(os.path.dirname(os.path.abspath(__file__)))
SIM = os.environ.get("VERIF_SIM_DIR") or os.path.join(VERIF, "sim")  # VERIF_SIM_DIR: sensitivity runs against a frozen copy of the simulator while it is being edited
BIN = os.path.join(VERIF, "bin")
GO = shutil.which("go1.26.8") or "/opt/veriftools/go1.26.8/bin/go"

sys.path.insert(0, os.path.dirname(os.path.abspath(__file__)))
from props import PROPS  # noqa: E402


def env_base():
    e = dict(os.environ)
    e.update(GOFLAGS="-mod=mod", GOPROXY="off", GOSUMDB="off", GOTOOLCHAIN="local")
    return e


def infra(msg):
    print("INFRASTRUCTURE: " + msg)
    sys.exit(2)


def build(prop, race=False):
    os.makedirs(BIN, exist_ok=True)
    # the harness module resolves its dependencies with the repository's own go.sum
    try:
        repo_sum = open("/repo/go.sum").read()
        extra = ""
        p = os.path.join(SIM, "go.sum.extra")
        if os.path.exists(p):
            extra = open(p).read()
        with open(os.path.join(SIM, "go.sum"), "w") as f:
            f.write(repo_sum + extra)
    except OSError as ex:
        infra("cannot prepare go.sum: %s" % ex)
    out = os.path.join(BIN, "sim-%s%s.test" % (prop, "-race" if race else ""))
    cmd = [GO, "test", "-tags", "verif", "-c", "-o", out]
    alt = os.environ.get("VERIF_REPO")
    if alt:
        # sensitivity testing only: build the simulator against a scratch copy of the repository
        tag = str(abs(hash(alt)) % 100000)
        modfile = os.path.join(BIN, "alt-%s.mod" % tag)
        mod = open(os.path.join(SIM, "go.mod")).read().replace("=> /repo", "=> " + alt)
        open(modfile, "w").write(mod)
        shutil.copy(os.path.join(SIM, "go.sum"), os.path.join(BIN, "alt-%s.sum" % tag))
        out = os.path.join(BIN, "sim-%s%s-alt%s.test" % (prop, "-race" if race else "", tag))
        cmd = [GO, "test", "-modfile=" + modfile, "-tags", "verif", "-c", "-o", out]
    if race:
        cmd.append("-race")
    cmd.append(".")
    r = subprocess.run(cmd, cwd=SIM, env=env_base(), capture_output=True, text=True)
    if r.returncode != 0:
        infra("build failed:\n" + r.stdout + r.stderr)
    return out


def known_findings():
    known = {}
    path = os.path.join(VERIF, "known_findings.txt")
    if os.path.exists(path):
        for line in open(path):
            line = line.strip()
            if line.startswith("finding:"):
                parts = dict(p.split("=", 1) for p in line.split()[1:3] if "=" in p)
                if "signature" in parts:
                    known[parts["signature"]] = line
    return known


def replay(prop, path):
    binp = build(prop, race=PROPS[prop].get("race", False))
    e = env_base()
    e.update(VERIF_PROP=prop, VERIF_REPLAY=os.path.abspath(path))
    os.makedirs(BIN, exist_ok=True)
    hang_out = os.path.join(BIN, "replay-%d.json" % os.getpid())
    e["VERIF_OUT"] = hang_out
    r = subprocess.run([binp, "-test.run", "TestSim", "-test.count=1", "-test.timeout=30m"], cwd=SIM, env=e, capture_output=True, text=True)
    sys.stdout.write(r.stdout)
    if "REPRODUCED property=" in r.stdout and "NOT-REPRODUCED" not in r.stdout:
        print("VIOLATION property=%s replay=%s" % (prop, path))
        sys.exit(1)
    if "NOT-REPRODUCED" in r.stdout:
        sys.exit(0)
    try:
        rf = json.load(open(path))
    except (OSError, ValueError):
        rf = {}
    if rf.get("hang") and r.returncode == 3 and os.path.exists(hang_out + ".hang"):
        txt = open(hang_out + ".hang").read()
        os.remove(hang_out + ".hang")
        if "github.com/zitadel/oidc/v3/pkg" in txt:
            print("REPRODUCED non-termination: " + txt[:200].replace("\n", " "))
            print("VIOLATION property=%s replay=%s" % (prop, path))
            sys.exit(1)
    if rf.get("crash") and r.returncode != 0 and "fatal error: stack overflow" in (r.stdout + r.stderr) and "github.com/zitadel/oidc/v3/pkg" in (r.stdout + r.stderr):
        print("REPRODUCED process crash: fatal error: stack overflow")
        print("VIOLATION property=%s replay=%s" % (prop, path))
        sys.exit(1)
    if rf.get("crash") and r.returncode != 0 and "panic:" in (r.stdout + r.stderr) and "verif/sim" not in (r.stdout + r.stderr).split("panic:", 1)[1].split("\n\n")[1 if (r.stdout + r.stderr).split("panic:", 1)[1].count("\n\n") else 0]:
        print("REPRODUCED process crash: " + (r.stdout + r.stderr).split("panic:", 1)[1][:300])
        print("VIOLATION property=%s replay=%s" % (prop, path))
        sys.exit(1)
    sys.stderr.write(r.stderr)
    infra("replay did not complete")


def main():
    if len(sys.argv) < 3:
        print(__doc__)
        sys.exit(2)
    prop = sys.argv[1]
    if prop not in PROPS:
        infra("unknown property " + prop)
    if sys.argv[2] == "--replay":
        replay(prop, sys.argv[3])
        return
    tier = os.environ.get("VERIF_TIER") or sys.argv[2]
    if tier not in ("quick", "thorough"):
        infra("tier must be quick or thorough")
    seed = os.environ.get("VERIF_SEED", "1")
    try:
        seed_int = int(seed)
    except ValueError:
        seed_int = abs(hash(seed)) % (1 << 31)
    conf = PROPS[prop]
    tc = conf[tier]
    if os.environ.get("VERIF_SCALE"):
        # background passes between the tiers: the thorough tier's budget scaled down (never used by the registered commands)
        sc = float(os.environ["VERIF_SCALE"])
        tc = dict(tc, runs=max(1, int(tc["runs"] * sc)), wall=max(30, int(tc["wall"] * sc)))
    workers = int(os.environ.get("VERIF_WORKERS", tc.get("workers", min(16, os.cpu_count() or 1))))
    start = time.time()
    binp = build(prop, race=conf.get("race", False))
    build_s = time.time() - start
    outdir = os.path.join(BIN, "out-%s-%d" % (prop, os.getpid()))
    os.makedirs(outdir, exist_ok=True)
    os.makedirs(os.path.join(VERIF, "replays"), exist_ok=True)
    os.makedirs(os.path.join(VERIF, "evidence"), exist_ok=True)
    procs = []
    for w in range(workers):
        e = env_base()
        e.update(VERIF_PROP=prop, VERIF_TIER=tier, VERIF_SEED=str(seed_int), VERIF_WORKER=str(w), VERIF_WORKERS=str(workers),
                 VERIF_RUNS=str(tc["runs"]), VERIF_WALL_S=str(tc["wall"]), VERIF_OUT=os.path.join(outdir, "w%d.json" % w),
                 VERIF_REPLAY_DIR=os.environ.get("VERIF_REPLAY_DIR") or os.path.join(VERIF, "replays"))
        e.pop("VERIF_REPLAY", None)
        log = open(os.path.join(outdir, "w%d.log" % w), "w")
        p = subprocess.Popen([binp, "-test.run", "TestSim", "-test.count=1", "-test.timeout=6h", "-test.cpu", "1"], cwd=SIM, env=e, stdout=log, stderr=subprocess.STDOUT)
        procs.append((p, log))
    deadline = time.time() + tc["wall"] * 3 + 120
    failed = []
    for w, (p, log) in enumerate(procs):
        try:
            rc = p.wait(timeout=max(1, deadline - time.time()))
        except subprocess.TimeoutExpired:
            p.kill()
            rc = -9
        log.close()
        if rc != 0:
            failed.append((w, rc))
    sums = []
    for w in range(workers):
        pth = os.path.join(outdir, "w%d.json" % w)
        if os.path.exists(pth):
            sums.append(json.load(open(pth)))
    # a worker that wrote its summary has finished its batch; a non-zero exit status then only means that the test
    # binary marked the run as failed (the race detector does that), which the summary already reports as a violation
    if len(sums) == workers:
        failed = []
    crash_viol = []
    if failed and len(sums) != workers:
        # A worker died. If the panic is in a goroutine that the library started itself (no harness frame on its stack)
        # the world cannot recover it: that is a finding about the library, attributed to the seed the worker was running.
        for w, rc in failed:
            try:
                log = open(os.path.join(outdir, "w%d.log" % w)).read()
                cur = int(open(os.path.join(outdir, "w%d.json.cur" % w)).read())
            except (OSError, ValueError):
                continue
            kind = "process-crash"
            hang_path = os.path.join(outdir, "w%d.json.hang" % w)
            if rc == 3 and os.path.exists(hang_path):
                # the in-process watchdog: no seam of the simulator was reached for a long stretch of processor time. It is
                # the library's doing when a goroutine that is on the processor has library frames and no harness frame
                # above them (the harness calls the library, not the other way round, except for storage and network seams)
                log = "panic: " + open(hang_path).read()
                blocks = [b for b in log.split("\n\n") if re.match(r"goroutine \d+[^\[]*\[(running|runnable)", b) and "kernel.StartWatchdog" not in b]
                pick = None
                for b in blocks:
                    lines = [l for l in b.splitlines() if l and not l.startswith("\t")]
                    lib = [k for k, l in enumerate(lines) if "github.com/zitadel/oidc/v3/pkg" in l]
                    har = [k for k, l in enumerate(lines) if "verif/sim" in l]
                    if lib and (not har or min(lib) < min(har)):
                        pick = b
                        break
                if pick is None:
                    continue
                kind = "non-termination"
                log = log[:log.find("goroutine ")] + pick + "\n\n"
            elif "fatal error: stack overflow" in log and "panic:" not in log:
                log = log.replace("fatal error: stack overflow", "panic: fatal error: stack overflow (unbounded recursion)", 1)
            i = log.find("panic:")
            j = log.find("goroutine ", i)
            if i < 0 or j < 0:
                continue
            block = log[j:].split("\n\n")[0]
            if kind == "process-crash" and ("verif/sim" in block.split("github.com/zitadel/oidc/v3/pkg")[0] or "github.com/zitadel/oidc/v3/pkg" not in block):
                continue
            top = [l.strip() for l in block.splitlines() if "github.com/zitadel/oidc/v3/pkg" in l and "(" in l]
            fn = "unknown"
            if top:
                fn = top[0].rsplit("/", 1)[-1]
                fn = fn[:fn.rfind("(")] if "(" in fn else fn
            sig = "%s/%s/%s" % (prop, kind, fn)
            rpath = os.path.join(os.environ.get("VERIF_REPLAY_DIR") or os.path.join(VERIF, "replays"), "%s-crash-%d.json" % (prop, cur))
            json.dump({"property": prop, "signature": sig, "crash": True, "hang": kind == "non-termination", "detail": log[i:i + 600], "spec": {"prop": prop, "seed": cur},
                       "original_length": 0, "minimised_length": 0, "trace": []}, open(rpath, "w"), indent=1)
            crash_viol.append({"signature": sig, "prop": prop, "detail": ("the request never returned: " if kind == "non-termination" else "the process died: ") + log[i:i + 300].replace("\n", " "), "seed": cur, "replay": rpath, "count": 1})
        if crash_viol and len(crash_viol) == len(failed):
            known = known_findings()
            for v in crash_viol[:3]:
                if v["signature"] in known:
                    print("KNOWN-FINDING: property=%s %s %s" % (prop, v["signature"], v["detail"][:200]))
                else:
                    print("VIOLATION property=%s replay=%s" % (prop, v["replay"]))
                    print("  signature=%s seed=%d: %s" % (v["signature"], v["seed"], v["detail"][:400]))
            shutil.rmtree(outdir, ignore_errors=True)
            sys.exit(1 if any(v["signature"] not in known for v in crash_viol) else 0)
    if failed or len(sums) != workers:
        tail = ""
        for w, rc in failed[:2]:
            try:
                tail += "worker %d rc=%s:\n%s\n" % (w, rc, open(os.path.join(outdir, "w%d.log" % w)).read()[-3000:])
            except OSError:
                pass
        infra("workers failed: %s\n%s" % (failed, tail))

    # ---- merge ----
    probes, faults, distinct, hashes = {}, {}, set(), set()
    runs = nontrivial = steps = faultfree = faulting = 0
    simsec = 0.0
    samples, infra_msgs, viols, extra = [], [], {}, {}
    for s in sums:
        runs += s["runs"]; nontrivial += s["nontrivial_runs"]; steps += s["steps"]
        faultfree += s["fault_free_runs"]; faulting += s["faulting_runs"]; simsec += s["sim_seconds"]
        for k, v in (s.get("probes") or {}).items():
            probes[k] = probes.get(k, 0) + v
        for k, v in (s.get("faults") or {}).items():
            faults[k] = faults.get(k, 0) + v
        distinct.update(s.get("distinct") or [])
        hashes.update(s.get("trace_hashes") or [])
        if len(samples) < 4:
            samples.extend((s.get("samples") or [])[:1])
        infra_msgs.extend(s.get("infra") or [])
        for v in s.get("violations") or []:
            cur = viols.get(v["signature"])
            if cur is None:
                viols[v["signature"]] = dict(v)
            else:
                cur["count"] += v["count"]
                if v["seed"] < cur["seed"]:
                    cur.update(seed=v["seed"], replay=v["replay"], detail=v["detail"])
        for k, v in (s.get("extra") or {}).items():
            if isinstance(v, (int, float)):
                extra[k] = extra.get(k, 0) + v
            else:
                extra.setdefault(k, v)
    wall = time.time() - start
    known = known_findings()
    new_viol = [v for sig, v in sorted(viols.items()) if sig not in known]
    known_hit = [v for sig, v in sorted(viols.items()) if sig in known]
    exhaustive = bool(sums) and all(s.get("exhaustive") for s in sums)
    if conf.get("exhaustive_if_probes"):
        exhaustive = all(probes.get(p, 0) > 0 for p in conf["exhaustive_if_probes"])
    ev = {
        "property_id": prop, "tier": tier, "seed": seed_int, "level": conf["level"],
        "coverage": {
            "evaluations": runs,
            "distinct_nontrivial": len(distinct),
            "rule": conf["rule"],
            "samples": samples[:4],
            "exhaustive": exhaustive,
            "nontrivial_runs": nontrivial,
            "distinct_schedules_or_histories": len(hashes),
            "simulated_runs_per_hour": int(runs / max(wall - build_s, 1e-6) * 3600),
            "simulated_seconds": round(simsec, 3),
            "scheduler_or_actor_steps": steps,
            "fault_free_runs": faultfree, "faulting_runs": faulting,
            "faults_fired": dict(sorted(faults.items())),
            "probes": dict(sorted(probes.items())),
            "workers": workers,
            "seeds": {"base": seed_int, "first_world_seed": min(s["seeds_first_last"][0] for s in sums if s.get("seeds_first_last")) if any(s.get("seeds_first_last") for s in sums) else None,
                      "last_world_seed": max(s["seeds_first_last"][1] for s in sums if s.get("seeds_first_last")) if any(s.get("seeds_first_last") for s in sums) else None},
            "components": conf["components"],
            "known_findings_hit": [{"signature": v["signature"], "count": v["count"], "replay": v["replay"]} for v in known_hit],
            "extra": extra,
        },
        "assumptions": conf["assumptions"],
        "wall_s": round(wall, 2),
        "violations": len(new_viol),
    }
    evdir = os.environ.get("VERIF_EVIDENCE_DIR") or os.path.join(VERIF, "evidence")
    os.makedirs(evdir, exist_ok=True)
    json.dump(ev, open(os.path.join(evdir, prop + ".json"), "w"), indent=1)
    shutil.rmtree(outdir, ignore_errors=True)

    print("property=%s tier=%s seed=%d runs=%d nontrivial=%d distinct=%d steps=%d faults=%d wall=%.1fs" % (
        prop, tier, seed_int, runs, nontrivial, len(distinct), steps, sum(faults.values()), wall))
    for v in known_hit:
        print("KNOWN-FINDING: property=%s %s (x%d, replay=%s) %s" % (prop, v["signature"], v["count"], v["replay"], v["detail"][:300]))
    for v in new_viol:
        print("VIOLATION property=%s replay=%s" % (prop, v["replay"]))
        print("  signature=%s count=%d seed=%d: %s" % (v["signature"], v["count"], v["seed"], v["detail"][:600]))
        try:
            note = json.load(open(v["replay"])).get("note")
            if note:
                print("  minimiser: " + note)
        except (OSError, ValueError):
            pass
    if new_viol:
        sys.exit(1)
    if infra_msgs:
        infra("runs with infrastructure trouble: %s" % infra_msgs[:3])
    # vacuity guard: a batch that did not exercise the property proves nothing
    for name, minimum in conf.get("min_probes", {}).get(tier, {}).items():
        got = runs if name == "_runs" else (len(distinct) if name == "_distinct" else probes.get(name, 0) + faults.get(name, 0))
        if os.environ.get("VERIF_SCALE"):
            minimum = int(minimum * float(os.environ["VERIF_SCALE"]) * 0.8)  # a scaled background pass has a scaled floor
        if got < minimum:
            infra("vacuous batch: probe %s=%d < %d" % (name, got, minimum))
    sys.exit(0)


if __name__ == "__main__":
    main()
