#!/usr/bin/env python3
"""usage: recheck_seeded.py <seed-id> [<prop> [tier]] [--history "text"]
Re-runs one of our checks against a stored independently written change (seeded/<id>/patch.diff, applied to a scratch
worktree by scripts/mutant.sh) and updates seeded/<id>/meta.json: our_check of the first run is kept as first_attempt."""
import json, os, subprocess, sys
VERIF = os.path.dirname(os.path.dirname(os.path.abspath(__file__)))
args = sys.argv[1:]
hist = None
if "--history" in args:
    i = args.index("--history")
    hist = args[i + 1]
    del args[i:i + 2]
sid = args[0]
mp = os.path.join(VERIF, "seeded", sid, "meta.json")
meta = json.load(open(mp))
prop = args[1] if len(args) > 1 else meta["breaks_property"]
tier = args[2] if len(args) > 2 else "quick"
env = dict(os.environ)
if meta.get("base_commit"):
    env["MUTANT_BASE"] = meta["base_commit"]  # the change was written against this commit of /repo (a later repair touches the same lines)
out = subprocess.run([os.path.join(VERIF, "scripts", "mutant.sh"), "sd-" + sid, os.path.join(VERIF, "seeded", sid, "patch.diff"), prop, tier],
                     capture_output=True, text=True, env=env).stdout
lines = [l[:700] for l in out.splitlines()][:4]
res = "\n".join(lines)
detected = "VIOLATION" in res
if "first_attempt" not in meta and not meta["our_check"].get("detected"):
    meta["first_attempt"] = meta["our_check"]
meta["our_check"] = {"command": "scripts/mutant.sh sd-%s seeded/%s/patch.diff %s %s" % (sid, sid, prop, tier), "result": res, "detected": detected}
if hist:
    meta["history"] = hist
json.dump(meta, open(mp, "w"), indent=1)
print(res)
print("detected:", detected)
