#!/usr/bin/env python3
"""Writes /verif/MANIFEST.json from scripts/props.py and scripts/not_applicable.json."""
import json, os, sys
HERE = os.path.dirname(os.path.abspath(__file__))
sys.path.insert(0, HERE)
from props import PROPS
VERIF = os.path.dirname(HERE)
na = json.load(open(os.path.join(HERE, "not_applicable.json")))
checks = []
for pid in sorted(PROPS):
    c = PROPS[pid]
    checks.append({
        "property_id": pid,
        "quick_cmd": "python3 scripts/run_check.py %s quick" % pid,
        "thorough_cmd": "python3 scripts/run_check.py %s thorough" % pid,
        "evidence_file": "/verif/evidence/%s.json" % pid,
        "replay_cmd_template": "python3 scripts/run_check.py %s --replay {path}" % pid,
        "engine": c["engine"],
        "level_claimed": {"category": c["level"], "text": c["level_text"], "design_ref": c["design_ref"]},
        "level_note": c["level_note"],
        "technique": c["technique"],
    })
engines = {}
for pid in sorted(PROPS):
    engines.setdefault(PROPS[pid]["engine"], []).append(pid)
paths = {"W-keyset": "sim/keyset", "W-flows": "sim/world + sim/props", "W-fault": "sim/world + sim/props", "W-time": "sim/props", "W-race": "sim/props"}
m = {
    "version": 1,
    "setup_cmd": "python3 scripts/setup.py",
    "hooks": {
        "guard": "verif",
        "enable": "go test -tags verif (scripts/run_check.py builds the simulator test binary from /repo's working tree with this tag)",
        "baseline_off_cmd": "cd /repo && GOFLAGS=-mod=mod go test -json -vet=off -count=1 -timeout 25m ./...",
        "source_commits": json.load(open(os.path.join(HERE, "hook_commits.json"))),
        "add_only": True,
    },
    "engines": [{"name": n, "path": paths.get(n, "sim"), "serves_properties": ps,
                 "kind_free_text": "deterministic simulation (seeded scheduler / fake clock / simulated transport and storage with fault injection)"} for n, ps in sorted(engines.items())],
    "checks": checks,
    "notes": "All checks are deterministic simulations driven by VERIF_SEED; exit 2 means infrastructure trouble (build failure, vacuous batch), never a violation. known_findings.txt lists recorded findings and repairs.",
    "not_applicable": [x for x in na if x["property_id"] not in PROPS],
}
json.dump(m, open(os.path.join(VERIF, "MANIFEST.json"), "w"), indent=1)
print("wrote MANIFEST.json with", len(checks), "checks,", len(m["not_applicable"]), "not applicable")
