#!/bin/bash
# Runs every own mutant (mutants/INDEX.txt) against the quick check of its property and the pinned suite; writes mutants/RESULTS.txt
cd /verif
: > mutants/RESULTS.txt
while read name prop; do
  wt=/tmp/mut-own-$name
  rm -rf "$wt"; git -C /repo worktree prune
  git -C /repo worktree add -q --detach "$wt" HEAD
  if ! git -C "$wt" apply "/verif/mutants/$name.diff" 2>/dev/null; then echo "$name $prop PATCH-FAILS" >> mutants/RESULTS.txt; git -C /repo worktree remove --force "$wt"; continue; fi
  if ! ( cd "$wt" && env -u GOTOOLCHAIN -u GOSUMDB GOFLAGS=-mod=mod go build ./... ) 2>/dev/null; then echo "$name $prop NO-COMPILE" >> mutants/RESULTS.txt; git -C /repo worktree remove --force "$wt"; continue; fi
  suite=$(python3 scripts/baseline_check.py "$wt" 2>&1 | head -1)
  out=$(VERIF_REPO="$wt" VERIF_EVIDENCE_DIR=/tmp/mut-evidence VERIF_REPLAY_DIR=/tmp/mut-replays python3 scripts/run_check.py "$prop" quick 2>&1)
  rc=$?
  sig=$(echo "$out" | grep -o "signature=[^ ]*" | head -2 | tr '\n' ' ')
  echo "$name $prop rc=$rc suite[$suite] $sig" >> mutants/RESULTS.txt
  git -C /repo worktree remove --force "$wt"
  rm -f bin/alt-*.mod bin/alt-*.sum bin/*-alt*.test
done < mutants/INDEX.txt
cat mutants/RESULTS.txt
