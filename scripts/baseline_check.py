#!/usr/bin/env python3
"""Runs the repository's own suite (guard off) and compares it with the stable_pass list of /root/.vp/BASELINE.json."""
import json, subprocess, os, sys
repo = sys.argv[1] if len(sys.argv) > 1 else "/repo"
base = json.load(open("/root/.vp/BASELINE.json"))
env = dict(os.environ, GOFLAGS="-mod=mod", GOPROXY="off")
env.pop("GOTOOLCHAIN", None)
env.pop("GOSUMDB", None)
p = subprocess.run(["go", "test", "-json", "-vet=off", "-count=1", "-timeout", "25m", "./..."], cwd=repo, env=env, capture_output=True, text=True)
res = {}
for line in p.stdout.splitlines():
    try:
        e = json.loads(line)
    except ValueError:
        continue
    if e.get("Test") and e.get("Action") in ("pass", "fail", "skip"):
        res[e["Package"] + "::" + e["Test"]] = e["Action"]
bad = [t for t in base["stable_pass"] if res.get(t) != "pass"]
print("stable tests: %d, passing now: %d" % (len(base["stable_pass"]), len(base["stable_pass"]) - len(bad)))
for t in bad[:20]:
    print("NOT PASSING:", t, res.get(t))
sys.exit(1 if bad else 0)
