#!/usr/bin/env python3
"""Writes /verif/SENSITIVITY.md from seeded/*/meta.json, mutants/RESULTS.txt and the revert sweep log."""
import json, glob, os, re
out = ["# Sensitivity of the checks", "",
       "Three kinds of property-breaking changes were run against the checks, always in a scratch worktree of /repo",
       "(`scripts/mutant.sh`, which builds the simulator against the scratch copy through `-modfile`), never in /repo itself.", ""]
out += ["## 1. Independently written changes (`/verif/seeded/<id>/`)", "",
        "Written by sub-agents that saw only the property text and a scratch worktree. Each was confirmed here: it compiles, the 719 pinned",
        "tests pass with it, its own demonstration fails with it and passes without it (`scripts/verify_seeded.sh`).", "",
        "| id | property | needs, in order to manifest | caught by | first attempt |", "|---|---|---|---|---|"]
for p in sorted(glob.glob("/verif/seeded/*/meta.json")):
    m = json.load(open(p))
    sig = re.findall(r"signature=(\S+)", m["our_check"]["result"])
    first = "caught" if "history" not in m else ("missed / crashed - strengthened" if "MISSED" in m["history"] or "CRASHED" in m["history"] else "caught after strengthening")
    out.append("| %s | %s | %s | %s `%s` | %s |" % (m["id"], m["breaks_property"], m["needs_to_manifest"], "quick check" if m["our_check"]["detected"] else "**NOT CAUGHT**", sig[0] if sig else "", first))
out += ["", "Strengthening that followed a miss (details in each meta.json `history`):", ""]
for p in sorted(glob.glob("/verif/seeded/*/meta.json")):
    m = json.load(open(p))
    if "history" in m:
        out.append("* **%s** - %s" % (m["id"], m["history"]))
out += ["", "## 2. Own mutants (`/verif/mutants/*.diff`, from DESIGN.md section 4 'Mutants to catch')", "",
        "`scripts/run_own_mutants.sh`; `suite` = how many of the 719 pinned tests still pass with the mutant (a mutant the suite already kills is less interesting).", "",
        "| mutant | property | check result | pinned suite | first signature |", "|---|---|---|---|---|"]
if os.path.exists("/verif/mutants/RESULTS.txt"):
    for line in open("/verif/mutants/RESULTS.txt"):
        parts = line.split()
        if len(parts) < 3:
            continue
        name, prop = parts[0], parts[1]
        rc = parts[2]
        suite = re.search(r"passing now: (\d+)", line)
        sig = re.search(r"signature=(\S+)", line)
        res = {"rc=1": "VIOLATION", "rc=0": "not caught", "rc=2": "infrastructure"}.get(rc, rc)
        out.append("| %s | %s | %s | %s | %s |" % (name, prop, res, (suite.group(1) + "/719") if suite else "", ("`" + sig.group(1) + "`") if sig else ""))
notes = "/verif/mutants/NOTES.md"
if os.path.exists(notes):
    out += ["", open(notes).read()]
out += ["", "## 3. Reverting each repair", "",
        "Every `fix:` commit was reverted in a scratch worktree and the check of its property run (`/tmp/revert_sweep.sh` at the time; the same can be done with",
        "`scripts/mutant.sh <name> -R:<commit> <property>`). All reverts that apply are detected by the quick check of the property the defect was filed under;",
        "panics are by design reported by C09 only (C15/C16 count them as probes).", ""]
if os.path.exists("/verif/mutants/REVERTS.txt"):
    out += ["```", open("/verif/mutants/REVERTS.txt").read().strip(), "```"]
open("/verif/SENSITIVITY.md", "w").write("\n".join(out) + "\n")
print("wrote SENSITIVITY.md")
