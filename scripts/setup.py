#!/usr/bin/env python3
"""Run once after a fresh restore: compiles the simulator offline so that later checks start from a warm build cache."""
import os, subprocess, sys, shutil
VERIF = os.path.dirname(os.path.dirname(os.path.abspath(__file__)))
SIM = os.path.join(VERIF, "sim")
GO = shutil.which("go1.26.8") or "/opt/veriftools/go1.26.8/bin/go"
e = dict(os.environ, GOFLAGS="-mod=mod", GOPROXY="off", GOSUMDB="off", GOTOOLCHAIN="local")
os.makedirs(os.path.join(VERIF, "bin"), exist_ok=True)
for d in ("evidence", "replays"):
    os.makedirs(os.path.join(VERIF, d), exist_ok=True)
extra = ""
p = os.path.join(SIM, "go.sum.extra")
if os.path.exists(p):
    extra = open(p).read()
open(os.path.join(SIM, "go.sum"), "w").write(open("/repo/go.sum").read() + extra)
r = subprocess.run([GO, "test", "-tags", "verif", "-c", "-o", os.path.join(VERIF, "bin", "sim-setup.test"), "."], cwd=SIM, env=e)
if r.returncode != 0:
    sys.exit(2)
print("setup ok")
