#!/bin/bash
# Re-runs the check of its property against every stored independently written change (sequentially) and prints one line each.
cd "$(dirname "$0")/.."
for d in seeded/*/; do
  id=$(basename $d)
  prop=$(python3 -c "import json;m=json.load(open('$d/meta.json'));print(m['our_check']['command'].split()[-2])")
  out=$(python3 scripts/recheck_seeded.py $id $prop 2>&1 | tail -1)
  echo "$id $prop $out"
done
