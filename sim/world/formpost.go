package world

import (
	"fmt"
	"net/url"
	"strings"

	"golang.org/x/net/html"
)

// decodeFormPost parses the auto-submitting page the way a user agent does and
// returns the form action and the name/value pairs it would submit.
func decodeFormPost(body string) (*AuthzResponse, error) {
	doc, err := html.Parse(strings.NewReader(body))
	if err != nil {
		return nil, err
	}
	out := &AuthzResponse{Mode: "form_post", Params: url.Values{}}
	var extra []string
	var walk func(n *html.Node, inForm bool)
	walk = func(n *html.Node, inForm bool) {
		if n.Type == html.ElementNode {
			switch n.Data {
			case "form":
				out.Forms++
				for _, a := range n.Attr {
					if a.Key == "action" {
						out.Target = a.Val
					}
				}
				inForm = true
			case "input":
				out.Inputs++
				var name, val string
				for _, a := range n.Attr {
					switch a.Key {
					case "name":
						name = a.Val
					case "value":
						val = a.Val
					case "type":
					default:
						extra = append(extra, "input attribute "+a.Key)
					}
				}
				if !inForm {
					extra = append(extra, "input outside form")
				}
				out.Params.Add(name, val)
			case "html", "head", "body", "meta":
			default:
				extra = append(extra, "element "+n.Data)
			}
		}
		for c := n.FirstChild; c != nil; c = c.NextSibling {
			walk(c, inForm)
		}
	}
	walk(doc, false)
	if len(extra) > 0 {
		return out, fmt.Errorf("unexpected markup: %s", strings.Join(extra, "; "))
	}
	return out, nil
}
