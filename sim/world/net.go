package world

import (
	"bytes"
	"context"
	"errors"
	"fmt"
	"io"
	"net/http"
	"net/http/cookiejar"
	"net/url"
	"runtime/debug"
	"strings"
	"sync"

	"verif/sim/kernel"
)

// Exchange is one request/response pair that crossed the simulated network.
type Exchange struct {
	ID         int
	From       string
	Host       string
	Method     string
	URL        string
	Path       string
	ReqHeader  http.Header
	ReqBody    string
	Status     int
	RespHeader http.Header
	RespBody   string

	WriteHeaderCalls int    // explicit WriteHeader calls plus the implicit one of a first Write
	Panic            string // non-empty: the handler panicked
	PanicStack       string
	CallsAtError     int // storage calls of this request made when an error status was written (-1: no error status)
	CallsAtEnd       int // storage calls of this request when the handler returned
	NetFault         string
}

// Form parses the request body (and query) as the server would.
func (e *Exchange) Form() url.Values {
	v, _ := url.ParseQuery(e.ReqBody)
	if u, err := url.Parse(e.URL); err == nil {
		for k, vs := range u.Query() {
			for _, x := range vs {
				v.Add(k, x)
			}
		}
	}
	return v
}

// Net is the in-process network: a RoundTripper that hands each request to the
// http.Handler registered for its host. No sockets, no TLS.
type Net struct {
	mu    sync.Mutex
	Hosts map[string]http.Handler
	Log   []*Exchange
	Store *Store
	// Fault is asked before a request is served; it may return "drop-req" (request lost),
	// "drop-resp" (server effect happens, client sees an error), "write-fail:<n>" (the connection breaks while the
	// server writes its answer: after n body bytes every write fails; the client sees an error) or "".
	Fault func(ex *Exchange) string
	// Corrupt may rewrite a response before the client sees it (hostile or faulty peer).
	Corrupt func(ex *Exchange) (status int, body string, replaced bool)
	KeepLog bool
	// OnWrite is invoked before the server writes body bytes of a response (a slow or blocked client: scheduler yield
	// point); may be nil.
	OnWrite func(ctx context.Context, ex *Exchange)
	// OnHeader is invoked whenever a handler reaches for the response headers (setting a cookie, a Location ...):
	// one more place where a scheduled group may switch tasks inside a handler; may be nil.
	OnHeader func(ctx context.Context, ex *Exchange)
}

func NewNet(store *Store) *Net {
	return &Net{Hosts: map[string]http.Handler{}, Store: store, KeepLog: true}
}

type recorder struct {
	ex      *Exchange
	hdr     http.Header
	body    bytes.Buffer
	status  int
	wrote   bool
	onError func() int
	// failAfter >= 0: the connection breaks after that many body bytes; the write reports a short count and an error
	failAfter int
	onWrite   func()
	onHeader  func()
}

func (r *recorder) Header() http.Header {
	if r.onHeader != nil {
		r.onHeader()
	}
	return r.hdr
}
func (r *recorder) WriteHeader(code int) {
	r.ex.WriteHeaderCalls++
	if r.wrote {
		return
	}
	r.wrote = true
	r.status = code
	r.ex.RespHeader = r.hdr.Clone()
	if code >= 400 && r.onError != nil {
		r.ex.CallsAtError = r.onError()
	}
}
func (r *recorder) Write(b []byte) (int, error) {
	if !r.wrote {
		r.WriteHeader(200)
	}
	if r.onWrite != nil {
		r.onWrite()
	}
	if r.failAfter >= 0 {
		room := r.failAfter - r.body.Len()
		if room < 0 {
			room = 0
		}
		if len(b) > room {
			r.body.Write(b[:room])
			return room, errors.New("simnet: write: connection reset by peer")
		}
	}
	return r.body.Write(b)
}

type actorKey struct{}

// Serve runs the handler registered for the request's host and records the exchange.
func (n *Net) Serve(from string, req *http.Request) (*Exchange, error) {
	n.mu.Lock()
	ex := &Exchange{ID: len(n.Log) + 1, From: from, Host: req.URL.Host, Method: req.Method, URL: req.URL.String(), Path: req.URL.Path,
		ReqHeader: req.Header.Clone(), CallsAtError: -1}
	if n.KeepLog {
		n.Log = append(n.Log, ex)
	} else {
		n.Log = append(n.Log, nil)
	}
	h := n.Hosts[req.URL.Host]
	n.mu.Unlock()
	if req.Body != nil {
		b, _ := io.ReadAll(req.Body)
		req.Body.Close()
		ex.ReqBody = string(b)
	}
	if h == nil {
		return ex, fmt.Errorf("simnet: no such host %q", req.URL.Host)
	}
	fault := ""
	if n.Fault != nil {
		fault = n.Fault(ex)
		ex.NetFault = fault
	}
	if fault == "drop-req" {
		return ex, errors.New("simnet: connection refused")
	}
	sreq, err := http.NewRequestWithContext(WithReqID(req.Context(), ex.ID), req.Method, req.URL.String(), strings.NewReader(ex.ReqBody))
	if err != nil {
		return ex, err
	}
	sreq.Header = req.Header.Clone()
	sreq.Host = req.URL.Host
	if req.Host != "" {
		sreq.Host = req.Host
	}
	sreq.RequestURI = req.URL.RequestURI()
	sreq.RemoteAddr = "10.0.0.1:40000"
	sreq.ContentLength = int64(len(ex.ReqBody))
	rec := &recorder{ex: ex, hdr: http.Header{}, failAfter: -1}
	if strings.HasPrefix(fault, "write-fail:") {
		fmt.Sscanf(fault, "write-fail:%d", &rec.failAfter)
	}
	if n.Store != nil {
		rec.onError = func() int { return n.Store.CallsIn(ex.ID) }
	}
	if n.OnWrite != nil {
		hook, ctx := n.OnWrite, sreq.Context()
		rec.onWrite = func() { hook(ctx, ex) }
	}
	if n.OnHeader != nil {
		hook, ctx := n.OnHeader, sreq.Context()
		rec.onHeader = func() { hook(ctx, ex) }
	}
	func() {
		defer func() {
			if r := recover(); r != nil {
				ex.Panic = fmt.Sprint(r)
				ex.PanicStack = string(debug.Stack())
			}
		}()
		h.ServeHTTP(rec, sreq)
	}()
	if n.Store != nil {
		ex.CallsAtEnd = n.Store.CallsIn(ex.ID)
	}
	if !rec.wrote {
		rec.status = 200
		ex.RespHeader = rec.hdr.Clone()
	}
	ex.Status = rec.status
	ex.RespBody = rec.body.String()
	if ex.Panic != "" {
		return ex, errors.New("simnet: connection closed (server panic)")
	}
	if fault == "drop-resp" || strings.HasPrefix(fault, "write-fail:") {
		return ex, errors.New("simnet: connection reset by peer")
	}
	return ex, nil
}

// ExHolder lets a caller learn which exchange its own request became (also under concurrency).
type ExHolder struct{ Ex *Exchange }

type exHolderKey struct{}

type transport struct {
	n    *Net
	from string
}

func (t *transport) RoundTrip(req *http.Request) (*http.Response, error) {
	kernel.Tick()
	ex, err := t.n.Serve(t.from, req)
	if h, ok := req.Context().Value(exHolderKey{}).(*ExHolder); ok {
		h.Ex = ex
	}
	if err != nil {
		return nil, err
	}
	if cerr := req.Context().Err(); cerr != nil {
		// the client's context ended while the server was still busy: the client sees that, not the late answer
		return nil, cerr
	}
	status, body, hdr := ex.Status, ex.RespBody, ex.RespHeader.Clone()
	if t.n.Corrupt != nil {
		if s, b, ok := t.n.Corrupt(ex); ok {
			status, body = s, b
		}
	}
	return &http.Response{StatusCode: status, Status: fmt.Sprintf("%d %s", status, http.StatusText(status)), Proto: "HTTP/1.1", ProtoMajor: 1, ProtoMinor: 1,
		Header: hdr, Body: io.NopCloser(strings.NewReader(body)), ContentLength: int64(len(body)), Request: req}, nil
}

// Client returns an http.Client whose requests travel over the simulated network.
// It never follows redirects by itself unless follow is set.
func (n *Net) Client(from string, jar http.CookieJar, follow bool) *http.Client {
	c := &http.Client{Transport: &transport{n: n, from: from}, Jar: jar}
	if !follow {
		c.CheckRedirect = func(*http.Request, []*http.Request) error { return http.ErrUseLastResponse }
	}
	return c
}

// Last returns the most recent exchange.
func (n *Net) Last() *Exchange {
	n.mu.Lock()
	defer n.mu.Unlock()
	for i := len(n.Log) - 1; i >= 0; i-- {
		if n.Log[i] != nil {
			return n.Log[i]
		}
	}
	return nil
}

func (n *Net) Len() int {
	n.mu.Lock()
	defer n.mu.Unlock()
	return len(n.Log)
}

// Since returns the exchanges recorded after the first k.
func (n *Net) Since(k int) []*Exchange {
	n.mu.Lock()
	defer n.mu.Unlock()
	var out []*Exchange
	for _, e := range n.Log[k:] {
		if e != nil {
			out = append(out, e)
		}
	}
	return out
}

// ---- user agent ----

// Browser is a user agent with a real cookie jar; it moves one hop at a time.
type Browser struct {
	Name string
	Jar  *cookiejar.Jar
	net  *Net
	c    *http.Client
}

func (n *Net) NewBrowser(name string) *Browser {
	jar, _ := cookiejar.New(nil)
	return &Browser{Name: name, Jar: jar, net: n, c: n.Client(name, jar, false)}
}

type Resp struct {
	Status   int
	Header   http.Header
	Body     string
	Location string
	Ex       *Exchange
	Err      error
}

func (b *Browser) do(req *http.Request) *Resp {
	before := b.net.Len()
	resp, err := b.c.Do(req)
	var ex *Exchange
	if xs := b.net.Since(before); len(xs) > 0 {
		ex = xs[0]
	}
	if err != nil {
		return &Resp{Err: err, Ex: ex}
	}
	defer resp.Body.Close()
	body, _ := io.ReadAll(resp.Body)
	return &Resp{Status: resp.StatusCode, Header: resp.Header, Body: string(body), Location: resp.Header.Get("Location"), Ex: ex}
}

func (b *Browser) Get(rawurl string) *Resp {
	req, err := http.NewRequest("GET", rawurl, nil)
	if err != nil {
		return &Resp{Err: err}
	}
	return b.do(req)
}

func (b *Browser) PostForm(rawurl string, form url.Values) *Resp {
	req, err := http.NewRequest("POST", rawurl, strings.NewReader(form.Encode()))
	if err != nil {
		return &Resp{Err: err}
	}
	req.Header.Set("Content-Type", "application/x-www-form-urlencoded")
	return b.do(req)
}

// PostFormWithCookies posts a form with exactly the given cookies.
func (b *Browser) PostFormWithCookies(rawurl string, form url.Values, cookies []*http.Cookie) *Resp {
	req, err := http.NewRequest("POST", rawurl, strings.NewReader(form.Encode()))
	if err != nil {
		return &Resp{Err: err}
	}
	req.Header.Set("Content-Type", "application/x-www-form-urlencoded")
	c := b.net.Client(b.Name, nil, false)
	for _, ck := range cookies {
		req.AddCookie(ck)
	}
	before := b.net.Len()
	resp, err := c.Do(req)
	var ex *Exchange
	if xs := b.net.Since(before); len(xs) > 0 {
		ex = xs[0]
	}
	if err != nil {
		return &Resp{Err: err, Ex: ex}
	}
	defer resp.Body.Close()
	body, _ := io.ReadAll(resp.Body)
	return &Resp{Status: resp.StatusCode, Header: resp.Header, Body: string(body), Location: resp.Header.Get("Location"), Ex: ex}
}

// GetWithCookies sends a request with exactly the given cookies (an attacker-crafted jar).
func (b *Browser) GetWithCookies(rawurl string, cookies []*http.Cookie) *Resp {
	req, err := http.NewRequest("GET", rawurl, nil)
	if err != nil {
		return &Resp{Err: err}
	}
	c := b.net.Client(b.Name, nil, false)
	for _, ck := range cookies {
		req.AddCookie(ck)
	}
	before := b.net.Len()
	resp, err := c.Do(req)
	var ex *Exchange
	if xs := b.net.Since(before); len(xs) > 0 {
		ex = xs[0]
	}
	if err != nil {
		return &Resp{Err: err, Ex: ex}
	}
	defer resp.Body.Close()
	body, _ := io.ReadAll(resp.Body)
	return &Resp{Status: resp.StatusCode, Header: resp.Header, Body: string(body), Location: resp.Header.Get("Location"), Ex: ex}
}
