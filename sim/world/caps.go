package world

import (
	"context"
	"errors"
	"fmt"
	"slices"
	"strings"
	"time"

	"github.com/zitadel/oidc/v3/pkg/oidc"
	"github.com/zitadel/oidc/v3/pkg/op"
)

// Optional storage capabilities. The library discovers them by type assertion,
// so each combination is its own wrapper type (caps_gen.go).

type Caps struct {
	ClientCredentials bool
	TokenExchange     bool
	Device            bool
	FromRequest       bool // CanSetUserinfoFromRequest + CanGetPrivateClaimsFromRequest
	// EndFromRequest: CanTerminateSessionFromRequest - the storage is handed the whole validated end-session request and
	// returns the URI to redirect to (SimStore returns the one the library validated)
	EndFromRequest bool
	// ExchangeVerifier: TokenExchangeTokensVerifierStorage - tokens the provider itself does not recognise are shown to
	// the storage, which knows the tokens of one third-party issuer (only together with TokenExchange)
	ExchangeVerifier bool
}

// ---- CanTerminateSessionFromRequest ----

type capEnd struct{ s *Store }

func (c capEnd) TerminateSessionFromRequest(ctx context.Context, r *op.EndSessionRequest) (string, error) {
	s := c.s
	// journalled under the name of the plain call: the effect and its arguments are the same
	if f, _ := s.enter(ctx, "TerminateSession", r.UserID, r.ClientID); f != "" {
		return "", s.faultErr(ctx, f)
	}
	s.mu.Lock()
	defer s.mu.Unlock()
	s.EndFromRequestCalls++
	s.terminateLocked(r.UserID, r.ClientID)
	return r.RedirectURI, nil
}

// ---- TokenExchangeTokensVerifierStorage ----

// ThirdPartyToken is a token of the one third-party issuer the storage knows: "3p.<subject>.<live|dead>".
func ThirdPartyToken(subject string, live bool) string {
	return "3p." + subject + "." + map[bool]string{true: "live", false: "dead"}[live]
}

type capTEV struct{ s *Store }

func (c capTEV) verify(ctx context.Context, method, token string, tt oidc.TokenType) (string, string, map[string]any, error) {
	s := c.s
	if f, _ := s.enter(ctx, method, tt); f != "" {
		return "", "", nil, s.faultErr(ctx, f)
	}
	parts := strings.Split(token, ".")
	s.mu.Lock()
	defer s.mu.Unlock()
	if tt != oidc.JWTTokenType || len(parts) != 3 || parts[0] != "3p" || parts[2] != "live" || s.Users[parts[1]] == nil {
		return "", "", nil, errors.New("simstore: not a live token of the third-party issuer")
	}
	s.ThirdPartyAccepted++
	return token, parts[1], map[string]any{"iss": "https://third-party.sim", "sub": parts[1]}, nil
}

func (c capTEV) VerifyExchangeSubjectToken(ctx context.Context, token string, tt oidc.TokenType) (string, string, map[string]any, error) {
	return c.verify(ctx, "VerifyExchangeSubjectToken", token, tt)
}

func (c capTEV) VerifyExchangeActorToken(ctx context.Context, token string, tt oidc.TokenType) (string, string, map[string]any, error) {
	return c.verify(ctx, "VerifyExchangeActorToken", token, tt)
}

type capCC struct{ s *Store }

func (c capCC) ClientCredentials(ctx context.Context, clientID, clientSecret string) (op.Client, error) {
	s := c.s
	if f, _ := s.enter(ctx, "ClientCredentials", clientID); f != "" {
		return nil, s.faultErr(ctx, f)
	}
	s.mu.Lock()
	defer s.mu.Unlock()
	cl := s.Clients[clientID]
	if cl == nil || cl.Secret == "" || cl.Secret != clientSecret || cl.Auth == oidc.AuthMethodNone || cl.Auth == oidc.AuthMethodPrivateKeyJWT {
		return nil, oidc.ErrInvalidClient().WithDescription("wrong service user or password")
	}
	return s.clientFor(clientID), nil
}

func (c capCC) ClientCredentialsTokenRequest(ctx context.Context, clientID string, scopes []string) (op.TokenRequest, error) {
	s := c.s
	if f, _ := s.enter(ctx, "ClientCredentialsTokenRequest", clientID, scopes); f != "" {
		return nil, s.faultErr(ctx, f)
	}
	s.mu.Lock()
	defer s.mu.Unlock()
	if s.Clients[clientID] == nil {
		return nil, notFound{"client"}
	}
	return &ccRequest{client: clientID, scopes: append([]string(nil), scopes...), emptyAud: s.EmptyAudience}, nil
}

type capTE struct{ s *Store }

func (c capTE) ValidateTokenExchangeRequest(ctx context.Context, r op.TokenExchangeRequest) error {
	s := c.s
	if f, _ := s.enter(ctx, "ValidateTokenExchangeRequest", r.GetExchangeSubjectTokenType(), r.GetExchangeSubjectTokenIDOrToken(), r.GetExchangeActorTokenType(), r.GetExchangeActorTokenIDOrToken()); f != "" {
		return s.faultErr(ctx, f)
	}
	s.mu.Lock()
	defer s.mu.Unlock()
	p := s.Policy
	if p.Veto && p.VetoAt == "" {
		return s.vetoLocked("ValidateTokenExchangeRequest")
	}
	// liveness of the presented tokens is the storage's answer, with the ids the library hands over
	check := func(tt oidc.TokenType, idOrToken, subject string) error {
		switch tt {
		case oidc.AccessTokenType:
			if s.liveToken(idOrToken, subject) == nil {
				return oidc.ErrInvalidRequest().WithDescription("token is not active")
			}
		case oidc.RefreshTokenType:
			if s.liveRefresh(idOrToken) == nil {
				return oidc.ErrInvalidRequest().WithDescription("token is not active")
			}
		}
		return nil
	}
	if err := check(r.GetExchangeSubjectTokenType(), r.GetExchangeSubjectTokenIDOrToken(), r.GetExchangeSubject()); err != nil {
		return err
	}
	if r.GetExchangeActorTokenIDOrToken() != "" {
		if err := check(r.GetExchangeActorTokenType(), r.GetExchangeActorTokenIDOrToken(), r.GetExchangeActor()); err != nil {
			return err
		}
	}
	if r.GetRequestedTokenType() == "" {
		r.SetRequestedTokenType(p.DefaultType)
	}
	if len(p.AllowedTypes) > 0 && !slices.Contains(p.AllowedTypes, r.GetRequestedTokenType()) {
		return oidc.ErrInvalidRequest().WithDescription("requested_token_type not permitted by policy")
	}
	var scopes []string
	for _, sc := range r.GetScopes() {
		if !slices.Contains(p.DropScopes, sc) {
			scopes = append(scopes, sc)
		}
	}
	r.SetCurrentScopes(scopes)
	if p.ImpersonateAs != "" {
		r.SetSubject(p.ImpersonateAs)
	}
	return nil
}

func (c capTE) CreateTokenExchangeRequest(ctx context.Context, r op.TokenExchangeRequest) error {
	s := c.s
	if f, _ := s.enter(ctx, "CreateTokenExchangeRequest", r.GetSubject(), r.GetRequestedTokenType(), r.GetScopes(), r.GetExchangeActor()); f != "" {
		return s.faultErr(ctx, f)
	}
	s.mu.Lock()
	defer s.mu.Unlock()
	if s.Policy.Veto && s.Policy.VetoAt == "create" {
		return s.vetoLocked("CreateTokenExchangeRequest")
	}
	return nil
}

// vetoLocked records in the journal that the policy refused the exchange at this callback and returns the refusal.
func (s *Store) vetoLocked(method string) error {
	for i := len(s.Journal) - 1; i >= 0; i-- {
		if s.Journal[i].Method == method {
			s.Journal[i].Err = "policy-veto"
			break
		}
	}
	switch s.Policy.VetoError {
	case "plain":
		return errors.New("simstore: exchange not permitted by policy")
	case "canceled":
		return fmt.Errorf("simstore: policy lookup aborted: %w", context.Canceled)
	}
	return oidc.ErrAccessDenied().WithDescription("exchange not permitted by policy")
}

func (c capTE) GetPrivateClaimsFromTokenExchangeRequest(ctx context.Context, r op.TokenExchangeRequest) (map[string]any, error) {
	s := c.s
	if f, _ := s.enter(ctx, "GetPrivateClaimsFromTokenExchangeRequest", r.GetSubject()); f != "" {
		return nil, s.faultErr(ctx, f)
	}
	s.mu.Lock()
	defer s.mu.Unlock()
	if s.Policy.Veto && s.Policy.VetoAt == "claims" {
		return nil, s.vetoLocked("GetPrivateClaimsFromTokenExchangeRequest")
	}
	out := map[string]any{}
	for k, v := range s.CustomClaims {
		out[k] = v
	}
	if s.Policy.ActChain && r.GetExchangeActor() != "" {
		out["act"] = ActChainOf(r.GetExchangeActor())
	}
	return out, nil
}

// ActChainOf is the act claim the ActChain policy decides for a delegation by actor: the actor, acting on behalf of an
// earlier actor (RFC 8693 section 4.1, nested delegation).
func ActChainOf(actor string) map[string]any {
	return map[string]any{"sub": actor, "act": map[string]any{"sub": "previous-actor"}}
}

func (c capTE) SetUserinfoFromTokenExchangeRequest(ctx context.Context, info *oidc.UserInfo, r op.TokenExchangeRequest) error {
	s := c.s
	if f, _ := s.enter(ctx, "SetUserinfoFromTokenExchangeRequest", r.GetSubject(), r.GetScopes()); f != "" {
		return s.faultErr(ctx, f)
	}
	s.mu.Lock()
	defer s.mu.Unlock()
	if s.Policy.Veto && s.Policy.VetoAt == "userinfo" {
		return s.vetoLocked("SetUserinfoFromTokenExchangeRequest")
	}
	if s.Policy.ActChain && r.GetExchangeActor() != "" {
		info.AppendClaims("act", ActChainOf(r.GetExchangeActor()))
	}
	if s.Users[r.GetSubject()] == nil {
		info.Subject = r.GetSubject()
		return nil
	}
	return s.fillUserinfo(info, r.GetSubject(), append([]string{oidc.ScopeOpenID}, r.GetScopes()...))
}

type capDev struct{ s *Store }

func (c capDev) StoreDeviceAuthorization(ctx context.Context, clientID, deviceCode, userCode string, expires time.Time, scopes []string) error {
	s := c.s
	if f, _ := s.enter(ctx, "StoreDeviceAuthorization", clientID, userCode); f != "" {
		return s.faultErr(ctx, f)
	}
	s.mu.Lock()
	defer s.mu.Unlock()
	if s.Clients[clientID] == nil {
		return notFound{"client"}
	}
	for _, d := range s.Devices {
		if d.UserCode == userCode {
			for i := len(s.Journal) - 1; i >= 0; i-- {
				if s.Journal[i].Method == "StoreDeviceAuthorization" {
					s.Journal[i].Err = op.ErrDuplicateUserCode.Error()
					break
				}
			}
			return op.ErrDuplicateUserCode
		}
	}
	s.Devices[deviceCode] = &Device{Code: deviceCode, UserCode: userCode,
		State: &op.DeviceAuthorizationState{ClientID: clientID, Scopes: append([]string(nil), scopes...), Expires: expires}}
	return nil
}

func (c capDev) GetDeviceAuthorizatonState(ctx context.Context, clientID, deviceCode string) (*op.DeviceAuthorizationState, error) {
	s := c.s
	if f, _ := s.enter(ctx, "GetDeviceAuthorizatonState", clientID, deviceCode); f != "" {
		return nil, s.faultErr(ctx, f)
	}
	s.mu.Lock()
	defer s.mu.Unlock()
	d := s.Devices[deviceCode]
	if d == nil || d.State.ClientID != clientID {
		return nil, errors.New("simstore: device code not found for client")
	}
	return d.State, nil // a pointer to the stored state, as the example storage does
}

type capFromReq struct{ s *Store }

func (c capFromReq) SetUserinfoFromRequest(ctx context.Context, info *oidc.UserInfo, r op.IDTokenRequest, scopes []string) error {
	s := c.s
	if f, _ := s.enter(ctx, "SetUserinfoFromRequest", r.GetSubject(), scopes); f != "" {
		return s.faultErr(ctx, f)
	}
	info.AppendClaims("from_request", r.GetClientID())
	return nil
}

func (c capFromReq) GetPrivateClaimsFromRequest(ctx context.Context, r op.TokenRequest, scopes []string) (map[string]any, error) {
	s := c.s
	if f, _ := s.enter(ctx, "GetPrivateClaimsFromRequest", r.GetSubject(), scopes); f != "" {
		return nil, s.faultErr(ctx, f)
	}
	s.mu.Lock()
	defer s.mu.Unlock()
	out := map[string]any{"from_request": true}
	for k, v := range s.CustomClaims {
		out[k] = v
	}
	return out, nil
}

// JWTProfileTokenType is always implemented; the flag selects the answer.
func (s *Store) JWTProfileTokenType(ctx context.Context, r op.TokenRequest) (op.AccessTokenType, error) {
	if f, _ := s.enter(ctx, "JWTProfileTokenType", r.GetSubject()); f != "" {
		return 0, s.faultErr(ctx, f)
	}
	if s.JWTProfileJWT {
		return op.AccessTokenTypeJWT, nil
	}
	return op.AccessTokenTypeBearer, nil
}

// ---- harness-side device operations ----

func (s *Store) DeviceByUserCode(userCode string) *Device {
	s.mu.Lock()
	defer s.mu.Unlock()
	for _, d := range s.Devices {
		if d.UserCode == userCode {
			return d
		}
	}
	return nil
}

func (s *Store) ApproveDevice(deviceCode, userID string) bool {
	s.mu.Lock()
	defer s.mu.Unlock()
	d := s.Devices[deviceCode]
	if d == nil {
		return false
	}
	d.State.Done = true
	d.State.Subject = userID
	d.State.AuthTime = time.Now()
	d.State.AMR = []string{"pwd"}
	return true
}

func (s *Store) DenyDevice(deviceCode string) bool {
	s.mu.Lock()
	defer s.mu.Unlock()
	d := s.Devices[deviceCode]
	if d == nil {
		return false
	}
	d.State.Denied = true
	return true
}
