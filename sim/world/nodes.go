package world

import (
	"context"
	"crypto/ecdsa"
	"crypto/ed25519"
	"crypto/rsa"
	"fmt"
	"io"
	"log/slog"
	"net/http"
	"strings"

	jose "github.com/go-jose/go-jose/v4"
	"github.com/zitadel/oidc/v3/pkg/oidc"
	"github.com/zitadel/oidc/v3/pkg/op"

	"verif/sim/fixtures"
)

var Discard = slog.New(slog.NewTextHandler(io.Discard, &slog.HandlerOptions{Level: slog.LevelError + 10}))

func init() { slog.SetDefault(Discard) }

// defaultEndpointsSnapshot is the value of op.DefaultEndpoints at process start. Until the
// library stops mutating the shared default (C20) the harness restores it between worlds so
// that one world cannot influence the next one in the same worker process.
var defaultEndpointsSnapshot = *op.DefaultEndpoints

func RestoreDefaultEndpoints() { *op.DefaultEndpoints = defaultEndpointsSnapshot }

// SignKeyFromFixture turns a fixture JWK into a provider signing key.
func SignKeyFromFixture(k jose.JSONWebKey, alg jose.SignatureAlgorithm, kid string) *SignKey {
	sk := &SignKey{KID: kid, Alg: alg, Priv: k.Key}
	switch p := k.Key.(type) {
	case *rsa.PrivateKey:
		sk.Pub = &p.PublicKey
	case *ecdsa.PrivateKey:
		sk.Pub = &p.PublicKey
	case ed25519.PrivateKey:
		sk.Pub = p.Public()
	}
	return sk
}

// AlgFamily is a signing algorithm together with the prefix of its fixture keys.
type AlgFamily struct {
	Alg    jose.SignatureAlgorithm
	Prefix string
}

// AlgFamilies lists the signing algorithms the worlds rotate through, with the fixture prefix that fits each.
var AlgFamilies = []AlgFamily{
	{jose.RS256, "rsa"}, {jose.RS384, "rsa"}, {jose.RS512, "rsa"}, {jose.PS256, "rsa"},
	{jose.ES256, "p256-"}, {jose.ES384, "p384-"}, {jose.ES512, "p521-"}, {jose.EdDSA, "ed"},
}

func FixtureKey(prefix string, i int) jose.JSONWebKey {
	ks := fixtures.Keys(prefix)
	return ks[i%len(ks)]
}

// UnusedFixtureKeys returns keys of the family other than fixtures i .. i+span-1 (the ones a world uses for its
// current, second, rotated and stranger keys); families with few fixtures return none.
func UnusedFixtureKeys(prefix string, i, span int) []jose.JSONWebKey {
	ks := fixtures.Keys(prefix)
	used := map[int]bool{}
	for d := 0; d < span; d++ {
		used[(i+d)%len(ks)] = true
	}
	var out []jose.JSONWebKey
	for j, k := range ks {
		if !used[j] {
			out = append(out, k)
		}
	}
	return out
}

// OPConfig describes one provider node.
type OPConfig struct {
	// Strategy, if set, is used instead of a freshly built issuer strategy; AllowInsecure adds op.WithAllowInsecure
	Strategy      func(bool) (op.IssuerFromRequest, error)
	AllowInsecure bool
	Router        string // "A" = op.Provider (chi router with legacy handlers), "B" = op.RegisterLegacyServer
	Issuer        string // e.g. https://op.sim
	IssuerMode    string // "static" (default), "host", "forwarded"
	IssuerPath    string
	Config        *op.Config
	Caps          Caps
	Options       []op.Option
	Endpoints     *op.Endpoints // router B: endpoints to register (nil: a copy of the defaults)
	// PublicCtors: build the provider with the constructors applications call (NewOpenIDProvider, NewDynamicOpenIDProvider,
	// NewForwardedOpenIDProvider) and take the login callback address from the library's helper (op.AuthCallbackURL,
	// LegacyServer.AuthCallbackURL) instead of NewProvider and the endpoint value
	PublicCtors bool
	// Wrapped (router B): the application registers its own op.Server, a type that embeds *op.LegacyServer and overrides
	// methods the way the interface allows: inputs are treated as read-only (VerifyAuthRequest works on and returns a copy
	// of the request), results are new values (Response literals without a header map)
	Wrapped bool
}

// appServer is an application's own op.Server built on the LegacyServer (what example/server does with its wrapper).
type appServer struct {
	*op.LegacyServer
}

func (s *appServer) VerifyAuthRequest(ctx context.Context, r *op.Request[oidc.AuthRequest]) (*op.ClientRequest[oidc.AuthRequest], error) {
	// the request handed in stays as it was received; verification (and the merge of a request object) happens on a copy
	data := *r.Data
	data.Scopes = append(oidc.SpaceDelimitedArray(nil), r.Data.Scopes...)
	cp := *r
	cp.Data = &data
	return s.LegacyServer.VerifyAuthRequest(ctx, &cp)
}

// plain returns the answer as a value of the application's own making: same data, no header map unless there are headers
func plain(resp *op.Response, err error) (*op.Response, error) {
	if err != nil || resp == nil {
		return resp, err
	}
	if len(resp.Header) == 0 {
		return &op.Response{Data: resp.Data}, nil
	}
	return &op.Response{Header: resp.Header.Clone(), Data: resp.Data}, nil
}

// plainRedirect does the same for redirects
func plainRedirect(red *op.Redirect, err error) (*op.Redirect, error) {
	if err != nil || red == nil {
		return red, err
	}
	if len(red.Header) == 0 {
		return &op.Redirect{URL: red.URL}, nil
	}
	return &op.Redirect{Header: red.Header.Clone(), URL: red.URL}, nil
}

func (s *appServer) Authorize(ctx context.Context, r *op.ClientRequest[oidc.AuthRequest]) (*op.Redirect, error) {
	return plainRedirect(s.LegacyServer.Authorize(ctx, r))
}
func (s *appServer) EndSession(ctx context.Context, r *op.Request[oidc.EndSessionRequest]) (*op.Redirect, error) {
	return plainRedirect(s.LegacyServer.EndSession(ctx, r))
}
func (s *appServer) VerifyClient(ctx context.Context, r *op.Request[op.ClientCredentials]) (op.Client, error) {
	// credentials are looked at on a copy as well
	cc := *r.Data
	cp := *r
	cp.Data = &cc
	return s.LegacyServer.VerifyClient(ctx, &cp)
}
func (s *appServer) Health(ctx context.Context, r *op.Request[struct{}]) (*op.Response, error) {
	return plain(s.LegacyServer.Health(ctx, r))
}
func (s *appServer) Ready(ctx context.Context, r *op.Request[struct{}]) (*op.Response, error) {
	return plain(s.LegacyServer.Ready(ctx, r))
}
func (s *appServer) Discovery(ctx context.Context, r *op.Request[struct{}]) (*op.Response, error) {
	return plain(s.LegacyServer.Discovery(ctx, r))
}
func (s *appServer) Keys(ctx context.Context, r *op.Request[struct{}]) (*op.Response, error) {
	return plain(s.LegacyServer.Keys(ctx, r))
}
func (s *appServer) DeviceAuthorization(ctx context.Context, r *op.ClientRequest[oidc.DeviceAuthorizationRequest]) (*op.Response, error) {
	return plain(s.LegacyServer.DeviceAuthorization(ctx, r))
}
func (s *appServer) CodeExchange(ctx context.Context, r *op.ClientRequest[oidc.AccessTokenRequest]) (*op.Response, error) {
	return plain(s.LegacyServer.CodeExchange(ctx, r))
}
func (s *appServer) RefreshToken(ctx context.Context, r *op.ClientRequest[oidc.RefreshTokenRequest]) (*op.Response, error) {
	return plain(s.LegacyServer.RefreshToken(ctx, r))
}
func (s *appServer) JWTProfile(ctx context.Context, r *op.Request[oidc.JWTProfileGrantRequest]) (*op.Response, error) {
	return plain(s.LegacyServer.JWTProfile(ctx, r))
}
func (s *appServer) TokenExchange(ctx context.Context, r *op.ClientRequest[oidc.TokenExchangeRequest]) (*op.Response, error) {
	return plain(s.LegacyServer.TokenExchange(ctx, r))
}
func (s *appServer) ClientCredentialsExchange(ctx context.Context, r *op.ClientRequest[oidc.ClientCredentialsRequest]) (*op.Response, error) {
	return plain(s.LegacyServer.ClientCredentialsExchange(ctx, r))
}
func (s *appServer) DeviceToken(ctx context.Context, r *op.ClientRequest[oidc.DeviceAccessTokenRequest]) (*op.Response, error) {
	return plain(s.LegacyServer.DeviceToken(ctx, r))
}
func (s *appServer) Introspect(ctx context.Context, r *op.Request[op.IntrospectionRequest]) (*op.Response, error) {
	return plain(s.LegacyServer.Introspect(ctx, r))
}
func (s *appServer) UserInfo(ctx context.Context, r *op.Request[oidc.UserInfoRequest]) (*op.Response, error) {
	return plain(s.LegacyServer.UserInfo(ctx, r))
}
func (s *appServer) Revocation(ctx context.Context, r *op.ClientRequest[oidc.RevocationRequest]) (*op.Response, error) {
	return plain(s.LegacyServer.Revocation(ctx, r))
}

type OPNode struct {
	Handler   http.Handler
	Provider  *op.Provider
	Store     *Store
	Storage   op.Storage
	Config    OPConfig
	LoginPath string
}

// BuildOP creates a real provider over the store and mounts the login stub next to it.
func BuildOP(store *Store, cfg OPConfig) (*OPNode, error) {
	storage := store.WithCaps(cfg.Caps)
	var issuerFn func(bool) (op.IssuerFromRequest, error)
	switch cfg.IssuerMode {
	case "host":
		issuerFn = op.IssuerFromHost(cfg.IssuerPath)
	case "forwarded":
		issuerFn = op.IssuerFromForwardedOrHost(cfg.IssuerPath)
	default:
		issuerFn = op.StaticIssuer(cfg.Issuer)
	}
	if cfg.Strategy != nil {
		issuerFn = cfg.Strategy // an issuer strategy value that the application built itself (and may reuse)
	}
	opts := append([]op.Option{op.WithLogger(Discard)}, cfg.Options...)
	if strings.HasPrefix(cfg.Issuer, "http://") || cfg.AllowInsecure {
		opts = append(opts, op.WithAllowInsecure())
	}
	var provider *op.Provider
	var err error
	switch {
	case !cfg.PublicCtors || cfg.Strategy != nil:
		provider, err = op.NewProvider(cfg.Config, storage, issuerFn, opts...)
	case cfg.IssuerMode == "host":
		provider, err = op.NewDynamicOpenIDProvider(cfg.IssuerPath, cfg.Config, storage, opts...)
	case cfg.IssuerMode == "forwarded":
		provider, err = op.NewForwardedOpenIDProvider(cfg.IssuerPath, cfg.Config, storage, opts...)
	default:
		provider, err = op.NewOpenIDProvider(cfg.Issuer, cfg.Config, storage, opts...)
	}
	if err != nil {
		return nil, err
	}
	var h http.Handler = provider
	callback := func(ctx context.Context, id string) string {
		return provider.AuthorizationEndpoint().Absolute(op.IssuerFromContext(ctx)) + "/callback?id=" + id
	}
	if cfg.PublicCtors {
		callback = op.AuthCallbackURL(provider)
	}
	if cfg.Router == "B" {
		eps := *op.DefaultEndpoints
		if cfg.Endpoints != nil {
			eps = *cfg.Endpoints
		}
		ls := op.NewLegacyServer(provider, eps)
		if cfg.PublicCtors {
			callback = ls.AuthCallbackURL()
		}
		var srv op.ExtendedLegacyServer = ls
		if cfg.Wrapped {
			srv = &appServer{LegacyServer: ls}
		}
		h = op.RegisterLegacyServer(srv, op.AuthorizeCallbackHandler(provider), op.WithFallbackLogger(Discard))
	}
	node := &OPNode{Provider: provider, Store: store, Storage: storage, Config: cfg, LoginPath: "/login"}
	node.Handler = http.HandlerFunc(func(w http.ResponseWriter, r *http.Request) {
		if r.URL.Path == node.LoginPath {
			node.login(w, r, callback)
			return
		}
		h.ServeHTTP(w, r)
	})
	return node, nil
}

// login is the stub login UI: GET shows nothing useful, POST with username/password marks the
// auth request as done (what example/server/exampleop/login.go does) and redirects to the callback.
func (n *OPNode) login(w http.ResponseWriter, r *http.Request, callback func(context.Context, string) string) {
	if err := r.ParseForm(); err != nil {
		http.Error(w, "bad form", 400)
		return
	}
	id := r.Form.Get("authRequestID")
	if r.Method != http.MethodPost {
		fmt.Fprintf(w, "<html><form method=post><input name=authRequestID value=%q></form></html>", id)
		return
	}
	user := r.Form.Get("username")
	pass := r.Form.Get("password")
	var uid string
	for _, k := range sortedUserIDs(n.Store) {
		u := n.Store.Users[k]
		if u.Username == user && u.Password == pass {
			uid = u.ID
		}
	}
	if uid == "" {
		http.Error(w, "invalid credentials", http.StatusUnauthorized)
		return
	}
	if err := n.Store.CompleteLogin(id, uid); err != nil {
		http.Error(w, err.Error(), http.StatusBadRequest)
		return
	}
	issuer := n.Config.Issuer
	if n.Config.IssuerMode == "host" || n.Config.IssuerMode == "forwarded" {
		host := r.Host
		if n.Config.IssuerMode == "forwarded" {
			for _, part := range strings.Split(r.Header.Get("Forwarded"), ";") {
				if v, ok := strings.CutPrefix(strings.TrimSpace(part), "host="); ok {
					host = v
				}
			}
		}
		issuer = "https://" + host + n.Config.IssuerPath
	}
	http.Redirect(w, r, n.Provider.AuthorizationEndpoint().Absolute(issuer)+"/callback?id="+id, http.StatusFound)
}

func sortedUserIDs(s *Store) []string {
	ids := make([]string, 0, len(s.Users))
	for id := range s.Users {
		ids = append(ids, id)
	}
	for i := 1; i < len(ids); i++ {
		for j := i; j > 0 && ids[j] < ids[j-1]; j-- {
			ids[j], ids[j-1] = ids[j-1], ids[j]
		}
	}
	return ids
}
