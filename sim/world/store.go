// Package world contains the simulated world around the real library code: the
// storage (SimStore), the in-process network (simnet), user agents and the
// builders for provider and relying-party nodes.
package world

import (
	"context"
	"errors"
	"fmt"
	"net/http"
	"runtime"
	"slices"
	"sort"
	"strings"
	"sync"
	"time"

	jose "github.com/go-jose/go-jose/v4"
	"github.com/zitadel/oidc/v3/pkg/oidc"
	"github.com/zitadel/oidc/v3/pkg/op"

	"verif/sim/kernel"
)

// ---- journal and fault injection ----

type JournalEntry struct {
	Seq    int
	ReqID  int // simnet request during which the call was made (0: none)
	Method string
	Args   string
	Err    string
	Fault  string // injected fault kind ("" none)
}

// Fault kinds a storage call may be answered with. SimStore never lies: every
// fault is reported to the library as an error.
const (
	FaultError   = "error"
	FaultTimeout = "timeout"
	FaultTorn    = "torn"
	// FaultSentinel: the storage answers with one reused error value of type *oidc.Error (storages commonly keep
	// such errors in package-level variables); the library must not let one request's data travel in it to the next
	FaultSentinel = "sentinel"
	// FaultWrapped: the storage answers with an OAuth error of its own (access_denied with a description), wrapped by a
	// layer above it: fmt.Errorf("...: %w", e), errors.Join, or op.NewStatusError(e, 403) - the documented way of
	// attaching a status code. A fresh value each time.
	FaultWrapped = "wrapped"
	// FaultSlow: the call takes a few seconds and then succeeds (a slow disk, a lock wait): no error, the clock moves
	// inside the request
	FaultSlow = "slow"
	// FaultBareSentinel: one reused *oidc.Error value WITHOUT description (as a package-level oidc.ErrServerError()
	// kept by the storage), returned wrapped with the context of the call
	FaultBareSentinel = "wrapped-bare-sentinel"
	// FaultDuplicate: StoreDeviceAuthorization answers with the documented op.ErrDuplicateUserCode (bare, or wrapped with
	// context when the store wraps its sentinels)
	FaultDuplicate = "duplicate-user-code"
	// FaultCtxDone is not injected: it is the storage's answer to a call whose context has already ended
	FaultCtxDone = "context-already-done"
	// FaultTimeoutFast: the storage gives up on its own (statement or RPC time-out shorter than the request's
	// deadline) and reports an error that wraps context.DeadlineExceeded while the request context is still live
	FaultTimeoutFast = "timeout-fast"
	// FaultCanceled: an operation inside the storage was cancelled (a shared lookup whose leader went away, a pool that
	// is shutting down): the error wraps context.Canceled although the request itself is alive
	FaultCanceled = "canceled"
)

type ctxKeyReq struct{}

// WithReqID marks a context with the simnet request id.
func WithReqID(ctx context.Context, id int) context.Context {
	return context.WithValue(ctx, ctxKeyReq{}, id)
}

func reqID(ctx context.Context) int {
	if ctx == nil {
		return 0
	}
	id, _ := ctx.Value(ctxKeyReq{}).(int)
	return id
}

// ErrInjected is the plain error of the "error" fault. Its text is what real error texts are like: it contains
// characters that are special somewhere on the way to the client (percent signs, an escaped DSN, quotes, ampersands).
// RunawayCalls is the number of storage calls after which one request counts as not terminating.
const RunawayCalls = 2000

// WrappedDescription is the description of the OAuth error of the "wrapped" fault.
const WrappedDescription = `simstore: refused by policy "p&1" (50% rule) <x>`

var ErrInjected = errors.New(`simstore: injected storage failure (disk 100% full; dsn=user:p%40ss@db/x?a=1&b=2; 5%% "quoted" <tag>)`)

// ---- domain objects ----

type User struct {
	ID, Username, Password string
	Email, Name, Phone     string
	EmailVerified          bool
}

type Client struct {
	ID              string
	Secret          string
	Redirects       []string
	RedirectGlobs   []string
	PostLogout      []string
	PostLogoutGlobs []string
	UseGlobs        bool
	AppType         op.ApplicationType
	Auth            oidc.AuthMethod
	RespTypes       []oidc.ResponseType
	Grants          []oidc.GrantType
	TokenType       op.AccessTokenType
	IDLifetime      time.Duration
	Dev             bool
	Skew            time.Duration
	UserinfoAssert  bool
	AllowedScopes   []string // custom scopes this client may request
	// scopes the client does not want asserted into its ID tokens / its JWT access tokens (the two
	// RestrictAdditional...Scopes hooks; empty: identity, as most clients have it)
	DropFromID, DropFromAT []string
	Key                    *jose.JSONWebKey // public key for private_key_jwt / jwt profile (nil: none)
	LoginBase              string
}

func (c *Client) GetID() string                        { return c.ID }
func (c *Client) RedirectURIs() []string               { return c.Redirects }
func (c *Client) PostLogoutRedirectURIs() []string     { return c.PostLogout }
func (c *Client) ApplicationType() op.ApplicationType  { return c.AppType }
func (c *Client) AuthMethod() oidc.AuthMethod          { return c.Auth }
func (c *Client) ResponseTypes() []oidc.ResponseType   { return c.RespTypes }
func (c *Client) GrantTypes() []oidc.GrantType         { return c.Grants }
func (c *Client) LoginURL(id string) string            { return c.LoginBase + "?authRequestID=" + id }
func (c *Client) AccessTokenType() op.AccessTokenType  { return c.TokenType }
func (c *Client) IDTokenLifetime() time.Duration       { return c.IDLifetime }
func (c *Client) DevMode() bool                        { return c.Dev }
func (c *Client) IDTokenUserinfoClaimsAssertion() bool { return c.UserinfoAssert }
func (c *Client) ClockSkew() time.Duration             { return c.Skew }
func (c *Client) IsScopeAllowed(scope string) bool     { return slices.Contains(c.AllowedScopes, scope) }
func (c *Client) RestrictAdditionalIdTokenScopes() func([]string) []string {
	return func(s []string) []string { return without(s, c.DropFromID) }
}
func (c *Client) RestrictAdditionalAccessTokenScopes() func([]string) []string {
	return func(s []string) []string { return without(s, c.DropFromAT) }
}

// without returns the scopes that the client did not exclude (a copy; the argument is left alone).
func without(scopes, drop []string) []string {
	if len(drop) == 0 {
		return scopes
	}
	var out []string
	for _, sc := range scopes {
		if !slices.Contains(drop, sc) {
			out = append(out, sc)
		}
	}
	return out
}

// GlobClient is the client as the library sees it when it opted into globs.
type GlobClient struct{ *Client }

func (c GlobClient) RedirectURIGlobs() []string           { return c.Client.RedirectGlobs }
func (c GlobClient) PostLogoutRedirectURIGlobs() []string { return c.Client.PostLogoutGlobs }

func (c *Client) HasGrant(g oidc.GrantType) bool { return slices.Contains(c.Grants, g) }
func (c *Client) Public() bool                   { return c.Auth == oidc.AuthMethodNone }

type AuthReq struct {
	ID           string
	ClientID     string
	Scopes       []string
	RedirectURI  string
	ResponseType oidc.ResponseType
	ResponseMode oidc.ResponseMode
	State        string
	Nonce        string
	Challenge    *oidc.CodeChallenge
	Subject      string
	AuthTime     time.Time
	IsDone       bool
	AMR          []string
	ACR          string
	HintSubject  string
	// emptyChallenge: see GetCodeChallenge (copied from Store.EmptyChallenge when the request is created)
	emptyChallenge bool
	Prompt         []string
	MaxAge         *uint
	SessionState   string
	CreatedAt      time.Time
	Code           string
}

func (a *AuthReq) GetID() string          { return a.ID }
func (a *AuthReq) GetACR() string         { return a.ACR }
func (a *AuthReq) GetAMR() []string       { return a.AMR }
func (a *AuthReq) GetAudience() []string  { return []string{a.ClientID} }
func (a *AuthReq) GetAuthTime() time.Time { return a.AuthTime }
func (a *AuthReq) GetClientID() string    { return a.ClientID }
func (a *AuthReq) GetCodeChallenge() *oidc.CodeChallenge {
	if a.Challenge == nil && a.emptyChallenge {
		// a storage that keeps challenge and method in two plain columns hands out an empty value, not nil, for
		// requests that carried no challenge
		return &oidc.CodeChallenge{}
	}
	return a.Challenge
}
func (a *AuthReq) GetNonce() string                   { return a.Nonce }
func (a *AuthReq) GetRedirectURI() string             { return a.RedirectURI }
func (a *AuthReq) GetResponseType() oidc.ResponseType { return a.ResponseType }
func (a *AuthReq) GetResponseMode() oidc.ResponseMode { return a.ResponseMode }
func (a *AuthReq) GetScopes() []string                { return a.Scopes }
func (a *AuthReq) GetState() string                   { return a.State }
func (a *AuthReq) GetSubject() string                 { return a.Subject }
func (a *AuthReq) Done() bool                         { return a.IsDone }

// AuthReqSS additionally exposes a session state (OIDC session management).
type AuthReqSS struct{ *AuthReq }

func (a AuthReqSS) GetSessionState() string { return a.AuthReq.SessionState }

type Token struct {
	ID        string
	Client    string
	Subject   string
	Audience  []string
	Scopes    []string
	Exp       time.Time
	RefreshID string
	Revoked   bool
	Origin    string // flow that created it
	Actor     string
	AuthTime  time.Time
}

type Refresh struct {
	Token    string
	Client   string
	Subject  string
	Audience []string
	Scopes   []string // the originally granted scopes
	AuthTime time.Time
	AMR      []string
	AccessID string
	Dead     bool // rotated, revoked or session terminated
	Exp      time.Time
	// Next is the token this one was rotated into. With Store.PersistScopes the grant is one record that is re-keyed on
	// rotation (as in the example storage): writing the scopes of the old key writes the record the new key names.
	Next *Refresh
}

// refreshReq is what TokenRequestByRefreshToken hands to the library. With Store.PersistScopes the request
// wraps the persisted record the way the example storage does: SetCurrentScopes narrows the stored grant itself
// (that is how narrowing persists along a refresh chain there), so the library must call it only after validation.
type refreshReq struct {
	s       *Store
	r       *Refresh
	current []string
}

func (r *refreshReq) GetAMR() []string       { return r.r.AMR }
func (r *refreshReq) GetAudience() []string  { return r.r.Audience }
func (r *refreshReq) GetAuthTime() time.Time { return r.r.AuthTime }
func (r *refreshReq) GetClientID() string    { return r.r.Client }
func (r *refreshReq) GetSubject() string     { return r.r.Subject }
func (r *refreshReq) SetCurrentScopes(sc []string) {
	if r.s != nil && r.s.PersistScopes {
		r.s.scopeMu.Lock()
		for x := r.r; x != nil; x = x.Next {
			x.Scopes = append([]string(nil), sc...)
		}
		r.s.scopeMu.Unlock()
		return
	}
	r.current = sc
}
func (r *refreshReq) GetScopes() []string {
	if r.current != nil {
		return r.current
	}
	if r.s != nil {
		r.s.scopeMu.Lock()
		defer r.s.scopeMu.Unlock()
	}
	return append([]string(nil), r.r.Scopes...)
}

type ccRequest struct {
	client string
	scopes []string
	// emptyAud: the request answers an empty (not nil) audience list, as one read from a JSON [] or an SQL array does:
	// "no audience of its own", for which the library's tokens name the client
	emptyAud bool
}

func (r *ccRequest) GetSubject() string { return r.client }
func (r *ccRequest) GetAudience() []string {
	if r.emptyAud {
		return []string{}
	}
	return []string{r.client}
}
func (r *ccRequest) GetScopes() []string { return r.scopes }

type Device struct {
	Code, UserCode string
	State          *op.DeviceAuthorizationState
}

type SignKey struct {
	KID  string
	Alg  jose.SignatureAlgorithm
	Priv any
	Pub  any
	Use  string // published "use"; "" means "sig" (UseEmpty publishes no use at all)
}

const UseEmpty = "-"

type signingKey struct{ k *SignKey }

func (s signingKey) SignatureAlgorithm() jose.SignatureAlgorithm { return s.k.Alg }
func (s signingKey) Key() any                                    { return s.k.Priv }
func (s signingKey) ID() string                                  { return s.k.KID }

type publicKey struct{ k *SignKey }

func (p publicKey) ID() string                         { return p.k.KID }
func (p publicKey) Algorithm() jose.SignatureAlgorithm { return p.k.Alg }
func (p publicKey) Use() string {
	switch p.k.Use {
	case "":
		return "sig"
	case UseEmpty:
		return ""
	}
	return p.k.Use
}
func (p publicKey) Key() any { return p.k.Pub }

// ExchangePolicy is the storage policy of the token-exchange grant.
type ExchangePolicy struct {
	DefaultType   oidc.TokenType // requested type when the request leaves it empty
	Veto          bool           // refuse every exchange
	ActChain      bool           // the policy records the delegation as a nested act claim {sub: actor, act: {sub: "previous-actor"}}
	VetoError     string         // how it says no: "" = an OAuth error, "plain" = some error, "canceled" = an error wrapping context.Canceled
	VetoAt        string         // which callback says no: "" = ValidateTokenExchangeRequest, "create", "claims", "userinfo"
	ImpersonateAs string         // non-empty: SetSubject to this user
	DropScopes    []string       // scopes the policy removes
	AllowedTypes  []oidc.TokenType
}

// Store is SimStore.
type Store struct {
	mu sync.Mutex

	Clients   map[string]*Client
	Users     map[string]*User
	AuthReqs  map[string]*AuthReq
	Codes     map[string]string // code -> auth request id
	Tokens    map[string]*Token
	Refreshes map[string]*Refresh
	Devices   map[string]*Device
	Keys      []*SignKey // published keys
	Current   int        // index of the signing key in Keys
	Journal   []JournalEntry

	AccessLifetime  time.Duration
	RefreshLifetime time.Duration
	Policy          ExchangePolicy
	TypedNil        bool // a failing call returns a nil pointer of its concrete type next to the error, not an untyped nil
	PresetSubject   bool // CreateAuthRequest stores the hinted user as subject before any login (as the example storage does)
	PersistScopes   bool // SetCurrentScopes of a refresh request writes through to the stored grant (as the example storage does)
	scopeMu         sync.Mutex
	SessionStates   bool           // auth requests expose a session_state
	JWTProfileJWT   bool           // JWTProfileTokenType answers JWT
	CustomClaims    map[string]any // private claims returned for every token (may collide with registered names)
	DeletedAuthReqs map[string]*AuthReq
	Terminated      []string // "user|client"

	// fault injection: Inject is asked for every call (1-based index within the current
	// request when CountPerReq is set, else global) and returns a fault kind or "".
	Inject      func(callNo int, method string, reqID int) string
	calls       int
	reqCalls    map[int]int
	FaultsFired map[string]int
	// OnCall is invoked before every call (scheduler yield point); may be nil. A non-empty result is a fault kind the
	// scheduler decided to inject into this call.
	OnCall func(ctx context.Context, method string) string

	idSeq int

	// Yields says how many times a call yields the processor before it proceeds (seeded: how long the "I/O" takes
	// relative to other goroutines of the process); nil = once.
	Yields func() int

	// Sentinel is the reused *oidc.Error of FaultSentinel (one value per store, handed out again and again).
	Sentinel *oidc.Error
	// BareSentinel is the reused *oidc.Error of FaultBareSentinel: no description, no parent
	BareSentinel *oidc.Error
	wrapSeq      int
	// Unpublished: the published key set is empty (every key withdrawn) although a signing key still exists
	Unpublished bool
	// WrapSentinels: documented sentinel errors (op.ErrInvalidRefreshToken, op.ErrDuplicateUserCode) are returned
	// wrapped with context instead of bare
	WrapSentinels bool
	// UnknownClientAs: how an unknown client id is reported: "" = a plain not-found error, "oauth" = the storage's own
	// OAuth error (invalid_client), "oauth-wrapped" = that error wrapped with context
	UnknownClientAs string
	// TrustJWTExpiry: see liveToken
	TrustJWTExpiry bool
	// EmptyAudience: client-credentials requests answer an empty, non-nil audience list
	EmptyAudience bool
	// LenientEmptySecret: see AuthorizeClientIDSecret
	LenientEmptySecret bool
	// EmptyChallenge: auth requests without PKCE answer GetCodeChallenge with an empty struct instead of nil
	EmptyChallenge bool
	// counters of the rarely used capabilities
	EndFromRequestCalls, ThirdPartyAccepted int
}

func NewStore() *Store {
	return &Store{
		Clients: map[string]*Client{}, Users: map[string]*User{}, AuthReqs: map[string]*AuthReq{}, Codes: map[string]string{},
		Tokens: map[string]*Token{}, Refreshes: map[string]*Refresh{}, Devices: map[string]*Device{}, DeletedAuthReqs: map[string]*AuthReq{},
		AccessLifetime: 5 * time.Minute, RefreshLifetime: 5 * time.Hour, reqCalls: map[int]int{}, FaultsFired: map[string]int{},
		Sentinel:     oidc.ErrServerError().WithDescription("simstore: storage unavailable"),
		BareSentinel: oidc.ErrServerError(),
	}
}

func (s *Store) nextID(prefix string) string {
	s.idSeq++
	return fmt.Sprintf("%s%d", prefix, s.idSeq)
}

// enter journals a call and applies fault injection. It returns the injected
// fault kind (the caller turns it into the error it reports).
func (s *Store) enter(ctx context.Context, method string, args ...any) (fault string, je *JournalEntry) {
	// a storage call is blocking I/O: whatever else is runnable in the process (a goroutine the code under test
	// started for this request) gets to run before the call returns
	kernel.Tick()
	ny := 1
	if s.Yields != nil {
		ny = s.Yields()
	}
	for i := 0; i < ny; i++ {
		runtime.Gosched()
	}
	forced := ""
	if s.OnCall != nil {
		forced = s.OnCall(ctx, method)
	}
	s.mu.Lock()
	s.calls++
	rid := reqID(ctx)
	s.reqCalls[rid]++
	n := s.reqCalls[rid]
	if rid != 0 && n > RunawayCalls {
		// no request of the library needs anywhere near this many storage calls: the handler is in a loop that the
		// storage's answers do not end. Counted in calls, not in time, so that it replays. The panic unwinds the
		// handler; the network layer records it with the exchange.
		s.mu.Unlock()
		panic(fmt.Sprintf("simstore: request does not terminate: %d storage calls in one request, the last one %s", n, method))
	}
	var parts []string
	for _, a := range args {
		parts = append(parts, fmt.Sprint(a))
	}
	s.Journal = append(s.Journal, JournalEntry{Seq: len(s.Journal) + 1, ReqID: rid, Method: method, Args: strings.Join(parts, ",")})
	je = &s.Journal[len(s.Journal)-1]
	idx := len(s.Journal) - 1
	inject := s.Inject
	s.mu.Unlock()
	if inject != nil {
		fault = inject(n, method, rid)
	}
	if forced != "" {
		fault = forced
	}
	if fault == "" && ctx.Err() != nil {
		// what a database driver does when it is called with a context that has already ended: it does not run the
		// statement, it reports that context's error
		fault = FaultCtxDone
	}
	if fault == FaultSlow {
		s.mu.Lock()
		s.Journal[idx].Fault = fault
		s.FaultsFired[fault]++
		s.mu.Unlock()
		t := time.NewTimer(time.Duration(2+n%3)*time.Second + 300*time.Millisecond)
		select {
		case <-ctx.Done():
		case <-t.C:
		}
		t.Stop()
		return "", nil
	}
	if fault != "" {
		s.mu.Lock()
		s.Journal[idx].Fault = fault
		s.Journal[idx].Err = fault
		s.FaultsFired[fault]++
		s.mu.Unlock()
	}
	return fault, nil
}

func (s *Store) faultErr(ctx context.Context, fault string) error {
	switch fault {
	case FaultTimeout:
		// stall until the request context is done or a simulated driver timeout passes
		t := time.NewTimer(30 * time.Second)
		defer t.Stop()
		select {
		case <-ctx.Done():
			// what a driver does when the caller's context ends: it reports that context's error
			return fmt.Errorf("simstore: %w", ctx.Err())
		case <-t.C:
		}
		return fmt.Errorf("simstore: %w", context.DeadlineExceeded)
	case FaultCtxDone:
		return fmt.Errorf("simstore: %w", ctx.Err())
	case FaultBareSentinel:
		s.mu.Lock()
		s.wrapSeq++
		n := s.wrapSeq
		s.mu.Unlock()
		return fmt.Errorf("simstore: call %d of this store: %w", n, s.BareSentinel)
	case FaultDuplicate:
		if s.WrapSentinels {
			return fmt.Errorf("simstore: unique constraint user_code: %w", op.ErrDuplicateUserCode)
		}
		return op.ErrDuplicateUserCode
	case FaultSentinel:
		return s.Sentinel
	case FaultWrapped:
		e := oidc.ErrAccessDenied().WithDescription("%s", WrappedDescription) // WithDescription is printf-like
		s.mu.Lock()
		s.wrapSeq++
		n := s.wrapSeq
		s.mu.Unlock()
		switch n % 3 {
		case 0:
			return fmt.Errorf("simstore: policy layer: %w", e)
		case 1:
			return op.NewStatusError(e, http.StatusForbidden)
		default:
			return errors.Join(errors.New("simstore: audit record written"), e)
		}
	case FaultTimeoutFast:
		return fmt.Errorf("simstore: statement timeout: %w", context.DeadlineExceeded)
	case FaultCanceled:
		return fmt.Errorf("simstore: operation aborted: %w", context.Canceled)
	default:
		return ErrInjected
	}
}

func (s *Store) fail(method string, err error) {
	s.mu.Lock()
	for i := len(s.Journal) - 1; i >= 0; i-- {
		if s.Journal[i].Method == method {
			if s.Journal[i].Err == "" {
				s.Journal[i].Err = err.Error()
			}
			break
		}
	}
	s.mu.Unlock()
}

// JournalFor returns the journal entries made during one request.
func (s *Store) JournalFor(req int) []JournalEntry {
	s.mu.Lock()
	defer s.mu.Unlock()
	var out []JournalEntry
	for _, j := range s.Journal {
		if j.ReqID == req {
			out = append(out, j)
		}
	}
	return out
}

func (s *Store) CallsIn(req int) int {
	s.mu.Lock()
	defer s.mu.Unlock()
	return s.reqCalls[req]
}

type notFound struct{ what string }

func (e notFound) Error() string { return e.what + " not found" }
func (e notFound) IsNotFound()   {}

// ---- AuthStorage ----

func (s *Store) CreateAuthRequest(ctx context.Context, r *oidc.AuthRequest, userID string) (op.AuthRequest, error) {
	if f, _ := s.enter(ctx, "CreateAuthRequest", r.ClientID, r.RedirectURI); f != "" {
		if s.TypedNil {
			return (*AuthReq)(nil), s.faultErr(ctx, f) // a nil pointer of the concrete type next to the error (var x *T; ...; return x, err)
		}
		return nil, s.faultErr(ctx, f)
	}
	s.mu.Lock()
	defer s.mu.Unlock()
	a := &AuthReq{ID: s.nextID("ar"), ClientID: r.ClientID, Scopes: append([]string(nil), r.Scopes...), RedirectURI: r.RedirectURI,
		ResponseType: r.ResponseType, ResponseMode: r.ResponseMode, State: r.State, Nonce: r.Nonce, HintSubject: userID,
		Prompt: append([]string(nil), r.Prompt...), MaxAge: r.MaxAge, CreatedAt: time.Now(), emptyChallenge: s.EmptyChallenge}
	if r.CodeChallenge != "" {
		a.Challenge = &oidc.CodeChallenge{Challenge: r.CodeChallenge, Method: r.CodeChallengeMethod}
	}
	if s.SessionStates {
		a.SessionState = "ss-" + a.ID
	}
	if s.PresetSubject {
		// as the example storage does: the user the request hints at is stored as its subject right away; the request
		// is still not done until the login UI says so
		a.Subject = userID
	}
	s.AuthReqs[a.ID] = a
	return s.wrapAR(a), nil
}

func (s *Store) wrapAR(a *AuthReq) op.AuthRequest {
	if s.SessionStates {
		return AuthReqSS{a}
	}
	return a
}

func (s *Store) AuthRequestByID(ctx context.Context, id string) (op.AuthRequest, error) {
	if f, _ := s.enter(ctx, "AuthRequestByID", id); f != "" {
		if s.TypedNil {
			return (*AuthReq)(nil), s.faultErr(ctx, f) // a nil pointer of the concrete type next to the error (var x *T; ...; return x, err)
		}
		return nil, s.faultErr(ctx, f)
	}
	s.mu.Lock()
	defer s.mu.Unlock()
	a := s.AuthReqs[id]
	if a == nil {
		return nil, notFound{"auth request"}
	}
	return s.wrapAR(a), nil
}

func (s *Store) AuthRequestByCode(ctx context.Context, code string) (op.AuthRequest, error) {
	if f, _ := s.enter(ctx, "AuthRequestByCode", code); f != "" {
		if s.TypedNil {
			return (*AuthReq)(nil), s.faultErr(ctx, f) // a nil pointer of the concrete type next to the error (var x *T; ...; return x, err)
		}
		return nil, s.faultErr(ctx, f)
	}
	s.mu.Lock()
	defer s.mu.Unlock()
	id, ok := s.Codes[code]
	if !ok {
		return nil, notFound{"code"}
	}
	a := s.AuthReqs[id]
	if a == nil {
		return nil, notFound{"auth request"}
	}
	return s.wrapAR(a), nil
}

func (s *Store) SaveAuthCode(ctx context.Context, id, code string) error {
	if f, _ := s.enter(ctx, "SaveAuthCode", id, code); f != "" {
		return s.faultErr(ctx, f)
	}
	s.mu.Lock()
	defer s.mu.Unlock()
	a := s.AuthReqs[id]
	if a == nil {
		return notFound{"auth request"}
	}
	a.Code = code
	s.Codes[code] = id
	return nil
}

func (s *Store) DeleteAuthRequest(ctx context.Context, id string) error {
	if f, _ := s.enter(ctx, "DeleteAuthRequest", id); f != "" {
		return s.faultErr(ctx, f)
	}
	s.mu.Lock()
	defer s.mu.Unlock()
	if a := s.AuthReqs[id]; a != nil {
		s.DeletedAuthReqs[id] = a
		delete(s.AuthReqs, id)
		for c, rid := range s.Codes {
			if rid == id {
				delete(s.Codes, c)
			}
		}
	}
	return nil
}

func originOf(req op.TokenRequest) (origin, client string, authTime time.Time, amr []string, actor string) {
	switch r := req.(type) {
	case AuthReqSS:
		return "auth", r.ClientID, r.AuthTime, r.AMR, ""
	case *AuthReq:
		return "auth", r.ClientID, r.AuthTime, r.AMR, ""
	case *refreshReq:
		return "refresh", r.r.Client, r.r.AuthTime, r.r.AMR, ""
	case *op.DeviceAuthorizationState:
		return "device", r.ClientID, r.AuthTime, r.AMR, ""
	case op.TokenExchangeRequest:
		return "exchange", r.GetClientID(), r.GetAuthTime(), nil, r.GetExchangeActor()
	case *ccRequest:
		return "client_credentials", r.client, time.Time{}, nil, ""
	case *oidc.JWTTokenRequest:
		return "jwt_profile", r.Issuer, time.Time{}, nil, ""
	}
	return "other", "", time.Time{}, nil, ""
}

func (s *Store) newAccess(req op.TokenRequest, refreshID string) *Token {
	origin, client, authTime, _, actor := originOf(req)
	t := &Token{ID: s.nextID("at"), Client: client, Subject: req.GetSubject(), Audience: append([]string(nil), req.GetAudience()...),
		Scopes: append([]string(nil), req.GetScopes()...), Exp: time.Now().Add(s.AccessLifetime), RefreshID: refreshID, Origin: origin, Actor: actor, AuthTime: authTime}
	s.Tokens[t.ID] = t
	return t
}

func (s *Store) CreateAccessToken(ctx context.Context, req op.TokenRequest) (string, time.Time, error) {
	if f, _ := s.enter(ctx, "CreateAccessToken", req.GetSubject()); f != "" {
		return "", time.Time{}, s.faultErr(ctx, f)
	}
	s.mu.Lock()
	defer s.mu.Unlock()
	t := s.newAccess(req, "")
	return t.ID, t.Exp, nil
}

func (s *Store) CreateAccessAndRefreshTokens(ctx context.Context, req op.TokenRequest, current string) (string, string, time.Time, error) {
	if f, _ := s.enter(ctx, "CreateAccessAndRefreshTokens", req.GetSubject(), current); f != "" {
		return "", "", time.Time{}, s.faultErr(ctx, f)
	}
	s.mu.Lock()
	defer s.mu.Unlock()
	_, client, authTime, amr, _ := originOf(req)
	var orig []string
	if current != "" {
		old := s.Refreshes[current]
		if old == nil || old.Dead || time.Now().After(old.Exp) {
			err := errors.New("simstore: refresh token unknown or already used")
			return "", "", time.Time{}, err
		}
		old.Dead = true
		if t := s.Tokens[old.AccessID]; t != nil {
			t.Revoked = true
		}
		s.scopeMu.Lock()
		orig = append([]string(nil), old.Scopes...) // the stored grant survives rotation; the issuance may be narrower
		s.scopeMu.Unlock()
		client, authTime, amr = old.Client, old.AuthTime, old.AMR
	} else {
		orig = append([]string(nil), req.GetScopes()...)
	}
	rt := &Refresh{Token: s.nextID("rt-") + "-" + s.nextID("x"), Client: client, Subject: req.GetSubject(), Audience: append([]string(nil), req.GetAudience()...),
		Scopes: orig, AuthTime: authTime, AMR: amr, Exp: time.Now().Add(s.RefreshLifetime)}
	t := s.newAccess(req, rt.Token)
	rt.AccessID = t.ID
	if current != "" {
		if old := s.Refreshes[current]; old != nil {
			old.Next = rt
		}
	}
	s.Refreshes[rt.Token] = rt
	return t.ID, rt.Token, t.Exp, nil
}

func (s *Store) liveRefresh(token string) *Refresh {
	r := s.Refreshes[token]
	if r == nil || r.Dead || time.Now().After(r.Exp) {
		return nil
	}
	return r
}

func (s *Store) TokenRequestByRefreshToken(ctx context.Context, token string) (op.RefreshTokenRequest, error) {
	if f, _ := s.enter(ctx, "TokenRequestByRefreshToken", token); f != "" {
		if s.TypedNil {
			return (*refreshReq)(nil), s.faultErr(ctx, f) // a nil pointer of the concrete type next to the error (var x *T; ...; return x, err)
		}
		return nil, s.faultErr(ctx, f)
	}
	s.mu.Lock()
	defer s.mu.Unlock()
	r := s.liveRefresh(token)
	if r == nil {
		return nil, errors.New("simstore: invalid refresh token")
	}
	return &refreshReq{s: s, r: r}, nil
}

func (s *Store) TerminateSession(ctx context.Context, userID, clientID string) error {
	if f, _ := s.enter(ctx, "TerminateSession", userID, clientID); f != "" {
		return s.faultErr(ctx, f)
	}
	s.mu.Lock()
	defer s.mu.Unlock()
	s.terminateLocked(userID, clientID)
	return nil
}

func (s *Store) terminateLocked(userID, clientID string) {
	s.Terminated = append(s.Terminated, userID+"|"+clientID)
	for _, t := range s.Tokens {
		if t.Client == clientID && t.Subject == userID {
			t.Revoked = true
		}
	}
	for _, r := range s.Refreshes {
		if r.Client == clientID && r.Subject == userID {
			r.Dead = true
		}
	}
}

func (s *Store) RevokeToken(ctx context.Context, tokenOrID, userID, clientID string) *oidc.Error {
	if f, _ := s.enter(ctx, "RevokeToken", tokenOrID, userID, clientID); f != "" {
		return oidc.ErrServerError().WithParent(s.faultErr(ctx, f))
	}
	s.mu.Lock()
	defer s.mu.Unlock()
	if t := s.Tokens[tokenOrID]; t != nil {
		if t.Client != clientID {
			return oidc.ErrInvalidClient().WithDescription("token was not issued for this client")
		}
		t.Revoked = true
		return nil
	}
	if r := s.Refreshes[tokenOrID]; r != nil {
		if r.Client != clientID {
			return oidc.ErrInvalidClient().WithDescription("token was not issued for this client")
		}
		r.Dead = true
		if t := s.Tokens[r.AccessID]; t != nil {
			t.Revoked = true
		}
		return nil
	}
	return nil // unknown tokens are ignored
}

func (s *Store) GetRefreshTokenInfo(ctx context.Context, clientID, token string) (string, string, error) {
	if f, _ := s.enter(ctx, "GetRefreshTokenInfo", clientID, token); f != "" {
		return "", "", s.faultErr(ctx, f)
	}
	s.mu.Lock()
	defer s.mu.Unlock()
	r := s.liveRefresh(token)
	if r == nil {
		if s.WrapSentinels {
			// with context, as storages written against errors.Is do
			return "", "", fmt.Errorf("simstore: token %.8s...: %w", token, op.ErrInvalidRefreshToken)
		}
		return "", "", op.ErrInvalidRefreshToken
	}
	return r.Subject, r.Token, nil
}

func (s *Store) SigningKey(ctx context.Context) (op.SigningKey, error) {
	if f, _ := s.enter(ctx, "SigningKey"); f != "" {
		return nil, s.faultErr(ctx, f)
	}
	s.mu.Lock()
	defer s.mu.Unlock()
	return signingKey{s.Keys[s.Current]}, nil
}

func (s *Store) SignatureAlgorithms(ctx context.Context) ([]jose.SignatureAlgorithm, error) {
	if f, _ := s.enter(ctx, "SignatureAlgorithms"); f != "" {
		return nil, s.faultErr(ctx, f)
	}
	s.mu.Lock()
	defer s.mu.Unlock()
	return []jose.SignatureAlgorithm{s.Keys[s.Current].Alg}, nil
}

func (s *Store) KeySet(ctx context.Context) ([]op.Key, error) {
	if f, _ := s.enter(ctx, "KeySet"); f != "" {
		return nil, s.faultErr(ctx, f)
	}
	s.mu.Lock()
	defer s.mu.Unlock()
	if s.Unpublished {
		// the operator has withdrawn every key: the key set document is {"keys":[]}
		return []op.Key{}, nil
	}
	out := make([]op.Key, len(s.Keys))
	for i, k := range s.Keys {
		out[i] = publicKey{k}
	}
	return out, nil
}

// ---- OPStorage ----

func (s *Store) clientFor(id string) op.Client {
	c := s.Clients[id]
	if c == nil {
		return nil
	}
	if c.UseGlobs {
		return GlobClient{c}
	}
	return c
}

func (s *Store) GetClientByClientID(ctx context.Context, id string) (op.Client, error) {
	if f, _ := s.enter(ctx, "GetClientByClientID", id); f != "" {
		if s.TypedNil {
			return (*Client)(nil), s.faultErr(ctx, f) // a nil pointer of the concrete type next to the error (var x *T; ...; return x, err)
		}
		return nil, s.faultErr(ctx, f)
	}
	s.mu.Lock()
	defer s.mu.Unlock()
	c := s.clientFor(id)
	if c == nil {
		switch s.UnknownClientAs {
		case "oauth":
			return nil, oidc.ErrInvalidClient().WithDescription("client %s not found", id) // the storage's own OAuth error
		case "oauth-wrapped":
			return nil, fmt.Errorf("simstore: lookup of %q: %w", id, oidc.ErrInvalidClient().WithDescription("no such client"))
		}
		return nil, notFound{"client"}
	}
	return c, nil
}

func (s *Store) AuthorizeClientIDSecret(ctx context.Context, id, secret string) error {
	if f, _ := s.enter(ctx, "AuthorizeClientIDSecret", id); f != "" {
		return s.faultErr(ctx, f)
	}
	s.mu.Lock()
	defer s.mu.Unlock()
	c := s.Clients[id]
	if c == nil {
		return notFound{"client"}
	}
	if s.LenientEmptySecret && c.Auth == oidc.AuthMethodNone && c.Secret == "" && secret == "" {
		// a storage that compares secrets plainly (as the example storage does): the empty secret of a public client
		// "matches" an empty presentation. That nobody acts for a client on such a match is the library's part.
		return nil
	}
	if c.Secret == "" || c.Secret != secret || c.Auth == oidc.AuthMethodNone || c.Auth == oidc.AuthMethodPrivateKeyJWT {
		return errors.New("simstore: invalid secret")
	}
	return nil
}

// fillUserinfo sets claims strictly from the scopes it is handed.
func (s *Store) fillUserinfo(info *oidc.UserInfo, userID string, scopes []string) error {
	u := s.Users[userID]
	if u == nil {
		return notFound{"user"}
	}
	for _, sc := range scopes {
		switch sc {
		case oidc.ScopeOpenID:
			info.Subject = u.ID
		case oidc.ScopeEmail:
			info.Email = u.Email
			info.EmailVerified = oidc.Bool(u.EmailVerified)
		case oidc.ScopeProfile:
			info.Name = u.Name
			info.PreferredUsername = u.Username
		case oidc.ScopePhone:
			info.PhoneNumber = u.Phone
		case oidc.ScopeAddress:
			info.Address = &oidc.UserInfoAddress{Locality: "Simcity"}
		}
	}
	for k, v := range s.CustomClaims {
		info.AppendClaims(k, v)
	}
	return nil
}

func (s *Store) SetUserinfoFromScopes(ctx context.Context, info *oidc.UserInfo, userID, clientID string, scopes []string) error {
	f, _ := s.enter(ctx, "SetUserinfoFromScopes", userID, clientID, scopes)
	s.mu.Lock()
	if f == FaultTorn {
		_ = s.fillUserinfo(info, userID, []string{oidc.ScopeOpenID, oidc.ScopeEmail})
	}
	s.mu.Unlock()
	if f != "" {
		return s.faultErr(ctx, f)
	}
	s.mu.Lock()
	defer s.mu.Unlock()
	return s.fillUserinfo(info, userID, scopes)
}

// liveToken is the storage's answer to "is this access token good": issued, not
// revoked, not expired, session not terminated.
func (s *Store) liveToken(id, subject string) *Token {
	t := s.Tokens[id]
	if t == nil || t.Revoked || t.Subject != subject {
		return nil
	}
	if time.Now().After(t.Exp) {
		// TrustJWTExpiry: for clients with JWT access tokens this storage leaves the expiry to the library, which has
		// verified the token's own exp claim before it asks (the example storage does the same)
		if c := s.Clients[t.Client]; !(s.TrustJWTExpiry && c != nil && c.TokenType == op.AccessTokenTypeJWT) {
			return nil
		}
	}
	return t
}

func (s *Store) SetUserinfoFromToken(ctx context.Context, info *oidc.UserInfo, tokenID, subject, origin string) error {
	f, _ := s.enter(ctx, "SetUserinfoFromToken", tokenID, subject)
	if f == FaultTorn {
		s.mu.Lock()
		if t := s.Tokens[tokenID]; t != nil {
			_ = s.fillUserinfo(info, t.Subject, []string{oidc.ScopeOpenID, oidc.ScopeEmail})
		}
		s.mu.Unlock()
	}
	if f != "" {
		return s.faultErr(ctx, f)
	}
	s.mu.Lock()
	defer s.mu.Unlock()
	t := s.liveToken(tokenID, subject)
	if t == nil {
		return errors.New("simstore: token invalid")
	}
	if s.Users[t.Subject] == nil {
		info.Subject = t.Subject // service users (client credentials, jwt profile)
		return nil
	}
	return s.fillUserinfo(info, t.Subject, t.Scopes)
}

func (s *Store) SetIntrospectionFromToken(ctx context.Context, resp *oidc.IntrospectionResponse, tokenID, subject, clientID string) error {
	f, _ := s.enter(ctx, "SetIntrospectionFromToken", tokenID, subject, clientID)
	if f == FaultTorn {
		s.mu.Lock()
		if t := s.Tokens[tokenID]; t != nil {
			resp.Subject = t.Subject
			resp.Scope = t.Scopes
			resp.ClientID = t.Client
			if u := s.Users[t.Subject]; u != nil {
				resp.Email = u.Email
			}
		}
		s.mu.Unlock()
	}
	if f != "" {
		return s.faultErr(ctx, f)
	}
	s.mu.Lock()
	defer s.mu.Unlock()
	t := s.liveToken(tokenID, subject)
	if t == nil {
		return errors.New("simstore: token invalid")
	}
	if !slices.Contains(t.Audience, clientID) {
		return errors.New("simstore: caller not in token audience")
	}
	info := new(oidc.UserInfo)
	if s.Users[t.Subject] != nil {
		if err := s.fillUserinfo(info, t.Subject, t.Scopes); err != nil {
			return err
		}
	}
	resp.SetUserInfo(info)
	resp.Subject = t.Subject
	resp.Scope = t.Scopes
	resp.ClientID = t.Client
	resp.Audience = t.Audience
	resp.Expiration = oidc.FromTime(t.Exp)
	return nil
}

func (s *Store) GetPrivateClaimsFromScopes(ctx context.Context, userID, clientID string, scopes []string) (map[string]any, error) {
	if f, _ := s.enter(ctx, "GetPrivateClaimsFromScopes", userID, clientID, scopes); f != "" {
		return nil, s.faultErr(ctx, f)
	}
	s.mu.Lock()
	defer s.mu.Unlock()
	out := map[string]any{}
	for k, v := range s.CustomClaims {
		out[k] = v
	}
	return out, nil
}

func (s *Store) GetKeyByIDAndClientID(ctx context.Context, keyID, clientID string) (*jose.JSONWebKey, error) {
	if f, _ := s.enter(ctx, "GetKeyByIDAndClientID", keyID, clientID); f != "" {
		return nil, s.faultErr(ctx, f)
	}
	s.mu.Lock()
	defer s.mu.Unlock()
	c := s.Clients[clientID]
	if c == nil || c.Key == nil {
		return nil, notFound{"client key"}
	}
	if c.Key.KeyID != keyID {
		return nil, notFound{"key id"}
	}
	k := *c.Key
	return &k, nil
}

func (s *Store) ValidateJWTProfileScopes(ctx context.Context, userID string, scopes []string) ([]string, error) {
	if f, _ := s.enter(ctx, "ValidateJWTProfileScopes", userID, scopes); f != "" {
		return nil, s.faultErr(ctx, f)
	}
	var out []string
	for _, sc := range scopes {
		if sc == oidc.ScopeOpenID || sc == "api" {
			out = append(out, sc)
		}
	}
	return out, nil
}

func (s *Store) Health(ctx context.Context) error {
	if f, _ := s.enter(ctx, "Health"); f != "" {
		return s.faultErr(ctx, f)
	}
	return nil
}

// ---- harness-side operations (not part of op.Storage) ----

// CompleteLogin is what the login UI does: mark the auth request as done for a user.
func (s *Store) CompleteLogin(id, userID string) error {
	s.mu.Lock()
	defer s.mu.Unlock()
	a := s.AuthReqs[id]
	if a == nil {
		return notFound{"auth request"}
	}
	if s.Users[userID] == nil {
		return notFound{"user"}
	}
	a.Subject = userID
	a.AuthTime = time.Now()
	a.IsDone = true
	a.AMR = []string{"pwd"}
	return nil
}

func (s *Store) AuthReqSnapshot(id string) *AuthReq {
	s.mu.Lock()
	defer s.mu.Unlock()
	a := s.AuthReqs[id]
	if a == nil {
		a = s.DeletedAuthReqs[id]
	}
	if a == nil {
		return nil
	}
	c := *a
	return &c
}

func (s *Store) TokenSnapshot(id string) *Token {
	s.mu.Lock()
	defer s.mu.Unlock()
	t := s.Tokens[id]
	if t == nil {
		return nil
	}
	c := *t
	return &c
}

func (s *Store) RefreshSnapshot(tok string) *Refresh {
	s.mu.Lock()
	defer s.mu.Unlock()
	r := s.Refreshes[tok]
	if r == nil {
		return nil
	}
	s.scopeMu.Lock()
	c := *r
	c.Scopes = append([]string(nil), r.Scopes...)
	s.scopeMu.Unlock()
	return &c
}

// TokenLive reports the reference liveness of an access token id at the current simulated time.
func (s *Store) TokenLive(id string) bool {
	s.mu.Lock()
	defer s.mu.Unlock()
	t := s.Tokens[id]
	return t != nil && !t.Revoked && !time.Now().After(t.Exp)
}

func (s *Store) RefreshLive(tok string) bool {
	s.mu.Lock()
	defer s.mu.Unlock()
	return s.liveRefresh(tok) != nil
}

func (s *Store) SortedClientIDs() []string {
	ids := make([]string, 0, len(s.Clients))
	for id := range s.Clients {
		ids = append(ids, id)
	}
	sort.Strings(ids)
	return ids
}

// RotateKey publishes a new signing key (and optionally retires old ones).
func (s *Store) RotateKey(k *SignKey, retireOld bool) {
	s.mu.Lock()
	defer s.mu.Unlock()
	if retireOld {
		s.Keys = []*SignKey{k}
		s.Current = 0
		return
	}
	s.Keys = append(s.Keys, k)
	s.Current = len(s.Keys) - 1
}

func (s *Store) CurrentKey() *SignKey {
	s.mu.Lock()
	defer s.mu.Unlock()
	return s.Keys[s.Current]
}
