package world

import (
	"context"
	"crypto/sha256"
	"encoding/base64"
	"encoding/json"
	"fmt"
	"net/http"
	"net/url"
	"strings"
	"sync"
	"time"

	jose "github.com/go-jose/go-jose/v4"
	"github.com/zitadel/oidc/v3/pkg/crypto"
	"github.com/zitadel/oidc/v3/pkg/oidc"
	"github.com/zitadel/oidc/v3/pkg/op"

	"verif/sim/kernel"
)

// World is one simulated deployment: a provider node over SimStore, the
// network, browsers, and a ledger of everything honest parties emitted.
type World struct {
	O      *kernel.Outcome
	Tape   *kernel.Tape
	Cfg    *kernel.Chooser
	Store  *Store
	Net    *Net
	OP     *OPNode
	Issuer string
	Router string
	// AssertTimes: how hand-made assertions write iat/exp ("" numbers, "z" RFC 3339 in UTC, "zoned"/"zoned-west" RFC 3339 with an offset)
	AssertTimes string
	Wrapped     bool // router B behind the application's own op.Server type (see OPConfig.Wrapped)
	// QueryKeys names form parameters that PostForm sends in the URL query instead of the body.
	QueryKeys []string
	CryptoKey [32]byte
	Conf      *op.Config
	Caps      Caps
	Raw       *http.Client // attacker / raw client without cookie jar
	Start     time.Time

	ClientKeys map[string]jose.JSONWebKey // private keys of private_key_jwt clients
	SigAlg     jose.SignatureAlgorithm
	AlgPrefix  string
	// DefaultAlgs: the provider's verifiers run with the library's default algorithm list
	DefaultAlgs bool
	KeyN        int

	Ledger *Ledger
	Step   int

	// Issuers lists every issuer this one provider serves (one entry unless the world is multi-tenant: issuer from
	// the request host or from the Forwarded header of a reverse proxy). Issuer is the tenant the next request goes to.
	Issuers    []string
	authzN     int
	IssuerMode string
}

// Ledger records artefacts honest parties emitted.
type Ledger struct {
	Codes   map[string]string       // code -> auth request id
	Access  map[string]*TokenRecord // access token string -> record
	Refresh map[string]*TokenRecord
	IDs     map[string]*TokenRecord
}

type TokenRecord struct {
	Kind    string // access, refresh, id
	StoreID string // token id in SimStore (access: id; refresh: the token itself)
	Client  string
	Subject string
	Scopes  []string
	Flow    string
	ReqID   int
	AuthReq string
}

type StdOptions struct {
	Router         string // "", "A", "B": empty = seeded choice
	ForceCaps      *Caps
	ForceConfig    func(*op.Config)
	Algs           []int // indices into AlgFamilies to choose from (nil: all)
	SessionStates  *bool
	NoCustomClaims bool
	AllGrants      bool // every client is registered for every grant type
	IssuerMode     string
	IssuerPath     string // e.g. "/oidc": the issuer carries a path and the provider is mounted below it
	Options        []op.Option
	Endpoints      *op.Endpoints
	// EndpointsFor, if set, supplies the endpoints once the router is known (it may depend on the seeded choice)
	EndpointsFor func(router string) *op.Endpoints
	// Tenants > 1: the provider derives its issuer from each request (IssuerMode "host" or "forwarded", seeded if
	// empty) and is reachable under that many host names
	Tenants int
	// DefaultVerifierAlgs: when the run's algorithm is one the library's verifiers accept by default (RS256, ES256,
	// PS256) the provider gets no explicit algorithm options for its access-token and hint verifiers
	DefaultVerifierAlgs bool
}

// NewStd builds the standard world from the "cfg" stream of the tape.
func NewStd(o *kernel.Outcome, tape *kernel.Tape, opt StdOptions) (*World, error) {
	RestoreDefaultEndpoints()
	cfg := tape.Sub("cfg")
	w := &World{O: o, Tape: tape, Cfg: cfg, Store: NewStore(), Issuer: "https://op.sim", ClientKeys: map[string]jose.JSONWebKey{},
		Ledger: &Ledger{Codes: map[string]string{}, Access: map[string]*TokenRecord{}, Refresh: map[string]*TokenRecord{}, IDs: map[string]*TokenRecord{}}}
	w.Start = time.Now()
	// how many times a storage call yields: its own little generator (seeded from the tape once), safe to use from the
	// free-running goroutines of the race mixes, which must not touch the tape
	var ymu sync.Mutex
	ystate := uint64(tape.Sub("store-yields").Int(1<<30)) + 1
	w.Store.Yields = func() int {
		ymu.Lock()
		defer ymu.Unlock()
		ystate = ystate*6364136223846793005 + 1442695040888963407
		return 1 + int((ystate>>33)%3)
	}
	w.Router = opt.Router
	if w.Router == "" {
		w.Router = cfg.Pick("A", "B")
	}
	// one LegacyServer world in three registers the application's own server type around it
	w.Wrapped = w.Router == "B" && tape.Sub("cfg-wrapped").Bool(1, 3)
	if w.Wrapped {
		o.Probe("providers-behind-the-application's-own-server-type")
	}
	for i := range w.CryptoKey {
		w.CryptoKey[i] = byte(cfg.Int(256))
	}
	// signing key
	algs := opt.Algs
	if algs == nil {
		for i := range AlgFamilies {
			algs = append(algs, i)
		}
	}
	fam := AlgFamilies[algs[cfg.Int(len(algs))]]
	w.SigAlg, w.AlgPrefix = fam.Alg, fam.Prefix
	w.KeyN = cfg.Int(4)
	w.Store.Keys = []*SignKey{SignKeyFromFixture(FixtureKey(fam.Prefix, w.KeyN), fam.Alg, fmt.Sprintf("sig-%d", w.KeyN))}
	w.AssertTimes = tape.Sub("cfg-assert-times").Pick("", "", "", "z", "zoned", "zoned-west")
	if w.AssertTimes != "" {
		o.Probe("assertions-with-rfc3339-time-claims")
	}
	if tape.Sub("cfg-key-use").Bool(1, 3) {
		// the "use" member of a published key is optional: storages whose key declares none
		w.Store.Keys[0].Use = UseEmpty
		o.Probe("signing-keys-published-without-a-use")
	}
	w.Store.AccessLifetime = time.Duration(cfg.Range(1, 10)) * time.Minute
	w.Store.RefreshLifetime = time.Duration(cfg.Range(1, 5)) * time.Hour
	if opt.SessionStates != nil {
		w.Store.SessionStates = *opt.SessionStates
	} else {
		w.Store.SessionStates = cfg.Bool(1, 3)
	}
	w.Store.JWTProfileJWT = cfg.Bool(1, 2)
	w.Store.PersistScopes = cfg.Bool(1, 2)
	w.Store.PresetSubject = tape.Sub("cfg-preset-subject").Bool(1, 2)
	w.Store.TypedNil = tape.Sub("cfg-typed-nil").Bool(1, 2)
	w.Store.WrapSentinels = tape.Sub("cfg-wrap-sentinels").Bool(1, 2)
	w.Store.UnknownClientAs = tape.Sub("cfg-unknown-client").Pick("", "", "oauth", "oauth-wrapped")
	w.Store.LenientEmptySecret = tape.Sub("cfg-empty-secret").Bool(1, 2)
	if w.Store.LenientEmptySecret {
		o.Probe("storages-that-compare-an-empty-secret-plainly")
	}
	w.Store.EmptyAudience = tape.Sub("cfg-empty-aud").Bool(1, 2)
	w.Store.TrustJWTExpiry = tape.Sub("cfg-jwt-expiry").Bool(1, 2)
	if w.Store.TrustJWTExpiry {
		o.Probe("storages-that-leave-jwt-expiry-to-the-library")
	}
	if !opt.NoCustomClaims && cfg.Bool(1, 2) {
		// deliberately colliding names: custom data must never replace registered claims
		w.Store.CustomClaims = map[string]any{"tenant": "t1", "iss": "https://evil.example", "sub": "mallory", "aud": []string{"evil"}, "exp": 1, "azp": "evil"}
	}
	w.Store.Policy = ExchangePolicy{DefaultType: oidc.AccessTokenType}
	// users
	w.Store.Users["u1"] = &User{ID: "u1", Username: "alice", Password: "pw-alice", Email: "alice@sim", EmailVerified: true, Name: "Alice A", Phone: "+41 1"}
	w.Store.Users["u2"] = &User{ID: "u2", Username: "bob", Password: "pw-bob", Email: "bob@sim", Name: "Bob B", Phone: "+41 2"}
	// a subject of the tenant-prefixed / URN kind: it contains the character that separates id and subject in opaque tokens
	// a subject as identity providers hand them out: an e-mail-like or "provider|id" string with characters that URL
	// escaping rewrites (no colon: that is carol's business)
	w.Store.Users["dave+x@sim.example/1 %7E|9"] = &User{ID: "dave+x@sim.example/1 %7E|9", Username: "dave", Password: "pw-dave", Email: "dave@sim", Name: "Dave D", Phone: "+41 4"}
	w.Store.Users["tenant1:carol"] = &User{ID: "tenant1:carol", Username: "carol", Password: "pw-carol", Email: "carol@sim", Name: "Carol C", Phone: "+41 3"}
	// provider configuration
	w.Conf = &op.Config{
		CryptoKey:                w.CryptoKey,
		DefaultLogoutRedirectURI: "https://op.sim/logged-out",
		CodeMethodS256:           cfg.Bool(4, 5),
		AuthMethodPost:           cfg.Bool(2, 3),
		AuthMethodPrivateKeyJWT:  cfg.Bool(3, 4),
		GrantTypeRefreshToken:    cfg.Bool(4, 5),
		RequestObjectSupported:   cfg.Bool(1, 2),
		DeviceAuthorization: op.DeviceAuthorizationConfig{
			Lifetime: time.Duration(cfg.Range(2, 10)) * time.Minute, PollInterval: time.Duration(cfg.Range(1, 10)) * time.Second,
			UserFormPath: "/device", UserCode: op.UserCodeBase20,
		},
	}
	if opt.ForceConfig != nil {
		opt.ForceConfig(w.Conf)
	}
	w.Caps = Caps{ClientCredentials: cfg.Bool(3, 4), TokenExchange: cfg.Bool(3, 4), Device: cfg.Bool(3, 4), FromRequest: cfg.Bool(1, 3)}
	capx := tape.Sub("cfg-caps-rare")
	w.Caps.EndFromRequest, w.Caps.ExchangeVerifier = capx.Bool(1, 3), capx.Bool(1, 3) && w.Caps.TokenExchange
	if opt.ForceCaps != nil {
		w.Caps = *opt.ForceCaps
	}
	w.makeClients()
	if opt.AllGrants {
		for _, id := range w.SortedClients() {
			w.Store.Clients[id].Grants = append([]oidc.GrantType(nil), allGrants...)
		}
	}
	w.Net = NewNet(w.Store)
	var opts []op.Option
	// the provider must accept the tokens it signs itself, whatever the run's algorithm is
	if opt.DefaultVerifierAlgs && (w.SigAlg == jose.RS256 || w.SigAlg == jose.ES256 || w.SigAlg == jose.PS256) {
		w.DefaultAlgs = true
	} else {
		opts = append(opts, op.WithAccessTokenVerifierOpts(op.WithSupportedAccessTokenSigningAlgorithms(string(w.SigAlg))),
			op.WithIDTokenHintVerifierOpts(op.WithSupportedIDTokenHintSigningAlgorithms(string(w.SigAlg))))
	}
	opts = append(opts, opt.Options...)
	w.Issuer += opt.IssuerPath
	for _, id := range w.SortedClients() {
		w.Store.Clients[id].LoginBase = w.Issuer + "/login"
	}
	w.IssuerMode = opt.IssuerMode
	if opt.Tenants > 1 && w.IssuerMode == "" {
		w.IssuerMode = tape.Sub("cfg-tenants").Pick("host", "forwarded")
	}
	if opt.EndpointsFor != nil {
		opt.Endpoints = opt.EndpointsFor(w.Router)
	}
	publicCtors := tape.Sub("cfg-ctors").Bool(1, 2)
	if publicCtors {
		o.Probe("providers-built-with-the-public-constructors")
	}
	node, err := BuildOP(w.Store, OPConfig{PublicCtors: publicCtors, Wrapped: w.Wrapped, Router: w.Router, Issuer: w.Issuer, IssuerPath: opt.IssuerPath, IssuerMode: w.IssuerMode, Config: w.Conf, Caps: w.Caps, Options: opts, Endpoints: opt.Endpoints})
	if err != nil {
		return nil, err
	}
	w.OP = node
	hosts := []string{"op.sim"}
	for i := 2; i <= opt.Tenants; i++ {
		hosts = append(hosts, fmt.Sprintf("t%d.sim", i))
	}
	var h http.Handler = node.Handler
	if opt.IssuerPath != "" {
		h = http.StripPrefix(opt.IssuerPath, node.Handler)
	}
	w.Issuers = nil
	for _, host := range hosts {
		w.Issuers = append(w.Issuers, "https://"+host+opt.IssuerPath)
		if w.IssuerMode == "forwarded" {
			w.Net.Hosts[host] = reverseProxy(host, h)
		} else {
			w.Net.Hosts[host] = h
		}
	}
	w.Raw = w.Net.Client("raw", nil, false)
	return w, nil
}

// reverseProxy plays the proxy in front of a provider that takes its issuer from the Forwarded header: every tenant
// reaches the provider under the same internal Host; only the header tells them apart.
func reverseProxy(publicHost string, h http.Handler) http.Handler {
	return http.HandlerFunc(func(rw http.ResponseWriter, r *http.Request) {
		r2 := r.Clone(r.Context())
		r2.Host = "op.internal"
		r2.Header.Set("Forwarded", "for=10.0.0.1;host="+publicHost+";proto=https")
		h.ServeHTTP(rw, r2)
	})
}

// UseIssuer directs the following requests to tenant i (login pages included).
func (w *World) UseIssuer(i int) {
	w.Issuer = w.Issuers[i%len(w.Issuers)]
	for _, id := range w.SortedClients() {
		w.Store.Clients[id].LoginBase = w.Issuer + "/login"
	}
}

// IsIssuer tells whether s is one of the issuers this provider serves.
func (w *World) IsIssuer(s string) bool {
	for _, i := range w.Issuers {
		if i == s {
			return true
		}
	}
	return false
}

var allGrants = []oidc.GrantType{oidc.GrantTypeCode, oidc.GrantTypeRefreshToken, oidc.GrantTypeClientCredentials, oidc.GrantTypeBearer,
	oidc.GrantTypeTokenExchange, oidc.GrantTypeDeviceCode, oidc.GrantTypeImplicit}

func (w *World) makeClients() {
	cfg := w.Cfg
	grants := func(always ...oidc.GrantType) []oidc.GrantType {
		out := append([]oidc.GrantType(nil), always...)
		for _, g := range allGrants {
			has := false
			for _, a := range always {
				if a == g {
					has = true
				}
			}
			if !has && cfg.Bool(3, 5) {
				out = append(out, g)
			}
		}
		return out
	}
	respAll := []oidc.ResponseType{oidc.ResponseTypeCode, oidc.ResponseTypeIDToken, oidc.ResponseTypeIDTokenOnly}
	mk := func(id string, app op.ApplicationType, auth oidc.AuthMethod, redirects []string) *Client {
		c := &Client{ID: id, Secret: "secret-" + id, Redirects: redirects, AppType: app, Auth: auth, RespTypes: respAll,
			Grants: grants(oidc.GrantTypeCode), TokenType: op.AccessTokenType(cfg.Int(2)), IDLifetime: time.Duration(cfg.Range(1, 60)) * time.Minute,
			Skew: time.Duration(cfg.Int(3)) * 5 * time.Second, UserinfoAssert: cfg.Bool(1, 2), AllowedScopes: []string{"api", "custom:x"},
			PostLogout: []string{"https://" + id + ".sim/bye"}, LoginBase: "https://op.sim/login"}
		if auth == oidc.AuthMethodNone || auth == oidc.AuthMethodPrivateKeyJWT {
			c.Secret = ""
		}
		w.Store.Clients[id] = c
		return c
	}
	rc := w.Tape.Sub("cfg-restrict")
	defer func() {
		// rarely used hooks: some clients exclude a scope from their ID tokens, some (another one) from their JWT access tokens
		for _, id := range w.Store.SortedClientIDs() {
			c := w.Store.Clients[id]
			if rc.Bool(1, 3) {
				c.DropFromID = []string{rc.Pick(oidc.ScopeEmail, oidc.ScopeProfile, oidc.ScopePhone)}
			}
			if rc.Bool(1, 3) {
				c.DropFromAT = []string{rc.Pick(oidc.ScopeEmail, "api", oidc.ScopeProfile)}
			}
		}
	}()
	mk("web", op.ApplicationTypeWeb, oidc.AuthMethodBasic, []string{"https://web.sim/callback", "https://web.sim/cb2?tenant=a", "https://web.sim/cb3?tenant=emea&tenant=apac&mode=sso", "https://web.sim/a-registered-last"})
	mk("post", op.ApplicationTypeWeb, oidc.AuthMethodPost, []string{"https://post.sim/callback"})
	mk("pub", op.ApplicationTypeUserAgent, oidc.AuthMethodNone, []string{"https://pub.sim/callback"})
	mk("native", op.ApplicationTypeNative, oidc.AuthMethodNone, []string{"http://localhost/callback", "com.example.app:/cb"})
	// a client that has a secret although its application type is not "web" (registrations like this exist: a
	// native or browser-based app that was given a secret); authentication follows the auth method, not the type
	mk("hyb", []op.ApplicationType{op.ApplicationTypeNative, op.ApplicationTypeUserAgent}[cfg.Int(2)], []oidc.AuthMethod{oidc.AuthMethodBasic, oidc.AuthMethodPost}[cfg.Int(2)], []string{"https://hyb.sim/callback"})
	// a confidential client whose registration names none of the four methods the library knows: the zero value
	// (OIDC: an omitted token_endpoint_auth_method means client_secret_basic) or a method of another specification.
	// It has a secret; whatever the method is called, nobody may act for it without that secret.
	mk("odd", op.ApplicationTypeWeb, []oidc.AuthMethod{"", "client_secret_jwt", "tls_client_auth"}[cfg.Int(3)], []string{"https://odd.sim/callback"})
	j := mk("jwt", op.ApplicationTypeWeb, oidc.AuthMethodPrivateKeyJWT, []string{"https://jwt.sim/callback"})
	k := FixtureKey("rsa", 6)
	k.KeyID = "jwt-key-1"
	w.ClientKeys["jwt"] = k
	pub := k.Public()
	j.Key = &pub
	// a client registered for a secret of which the storage also holds a public key (a registration on its way from one
	// method to the other, or a key kept for request objects): the key does not change how the client authenticates
	if w.Tape.Sub("cfg-secret-client-key").Bool(1, 2) {
		hk := FixtureKey("rsa", 4)
		hk.KeyID = "hyb-key-1"
		w.ClientKeys["hyb"] = hk
		hpub := hk.Public()
		w.Store.Clients["hyb"].Key = &hpub
		w.O.Probe("secret-clients-with-a-registered-key")
	}
	// a second client that authenticates by assertion, with a key of its own
	j2 := mk("jwt2", op.ApplicationTypeWeb, oidc.AuthMethodPrivateKeyJWT, []string{"https://jwt2.sim/callback"})
	k2 := FixtureKey("rsa", 3)
	k2.KeyID = "jwt2-key-1"
	w.ClientKeys["jwt2"] = k2
	pub2 := k2.Public()
	j2.Key = &pub2
}

// SortedClients returns client ids in a fixed order.
func (w *World) SortedClients() []string { return w.Store.SortedClientIDs() }

// ---- raw protocol operations ----

type Creds struct {
	Mode         string // "none", "basic", "post", "assertion", "id-only"
	ID           string
	Secret       string
	Assertion    string
	RawBasic     string // if set: the literal "user:pass" to base64 into the header (no escaping)
	BodyClientID string // additionally sent as client_id form value (may name another client than the credentials)
}

// PostForm sends a form to a provider endpoint with the given client credentials.
func (w *World) PostForm(path string, form url.Values, c Creds) *Resp {
	return w.PostFormCtx(context.Background(), path, form, c)
}

// PostFormCtx is PostForm with a caller context; its values reach the storage calls made for the request.
func (w *World) PostFormCtx(ctx context.Context, path string, form url.Values, c Creds) *Resp {
	f := url.Values{}
	for k, v := range form {
		f[k] = append([]string(nil), v...)
	}
	if c.BodyClientID != "" {
		f.Set("client_id", c.BodyClientID)
	}
	switch c.Mode {
	case "post":
		f.Set("client_id", c.ID)
		f.Set("client_secret", c.Secret)
	case "id-only":
		f.Set("client_id", c.ID)
	case "assertion-type-only":
		// names itself and announces an assertion that never comes (no assertion, no secret)
		f.Set("client_id", c.ID)
		f.Set("client_assertion_type", oidc.ClientAssertionTypeJWTAssertion)
	case "assertion":
		f.Set("client_assertion", c.Assertion)
		f.Set("client_assertion_type", oidc.ClientAssertionTypeJWTAssertion)
		if c.ID != "" && c.BodyClientID == "" {
			f.Set("client_id", c.ID)
		}
	}
	// parameters named in QueryKeys travel in the URL query instead of the body (net/http merges both into r.Form)
	target := w.Issuer + path
	q := url.Values{}
	for _, k := range w.QueryKeys {
		if v, ok := f[k]; ok {
			q[k] = v
			delete(f, k)
		}
	}
	if len(q) > 0 {
		target += "?" + q.Encode()
	}
	req, err := http.NewRequestWithContext(ctx, "POST", target, strings.NewReader(f.Encode()))
	if err != nil {
		return &Resp{Err: err}
	}
	req.Header.Set("Content-Type", "application/x-www-form-urlencoded")
	if c.Mode == "basic" {
		if c.RawBasic != "" {
			req.Header.Set("Authorization", "Basic "+base64.StdEncoding.EncodeToString([]byte(c.RawBasic)))
		} else {
			req.SetBasicAuth(url.QueryEscape(c.ID), url.QueryEscape(c.Secret))
		}
	}
	return w.DoRaw(req)
}

func (w *World) DoRaw(req *http.Request) *Resp {
	h := &ExHolder{}
	req = req.WithContext(context.WithValue(req.Context(), exHolderKey{}, h))
	resp, err := w.Raw.Do(req)
	ex := h.Ex
	if err != nil {
		return &Resp{Err: err, Ex: ex}
	}
	defer resp.Body.Close()
	var sb strings.Builder
	buf := make([]byte, 4096)
	for {
		n, e := resp.Body.Read(buf)
		sb.Write(buf[:n])
		if e != nil {
			break
		}
	}
	return &Resp{Status: resp.StatusCode, Header: resp.Header, Body: sb.String(), Location: resp.Header.Get("Location"), Ex: ex}
}

// RightCreds returns the credentials the client is registered for.
func (w *World) RightCreds(id string) Creds {
	c := w.Store.Clients[id]
	if c == nil {
		return Creds{Mode: "id-only", ID: id}
	}
	switch c.Auth {
	case oidc.AuthMethodBasic:
		return Creds{Mode: "basic", ID: id, Secret: c.Secret}
	case oidc.AuthMethodPost:
		return Creds{Mode: "post", ID: id, Secret: c.Secret}
	case oidc.AuthMethodPrivateKeyJWT:
		return Creds{Mode: "assertion", Assertion: w.Assertion(id, id, id, []string{w.Issuer}, time.Now(), time.Now().Add(time.Hour), w.ClientKeys[id])}
	case oidc.AuthMethodNone:
		return Creds{Mode: "id-only", ID: id}
	}
	if c.Secret != "" {
		return Creds{Mode: "basic", ID: id, Secret: c.Secret} // a method the library has no name for: the secret, the default way
	}
	return Creds{Mode: "id-only", ID: id}
}

// Assertion signs a JWT profile assertion with arbitrary claims (honest and hostile uses).
func (w *World) Assertion(iss, sub, kidClient string, aud []string, iat, exp time.Time, key jose.JSONWebKey) string {
	signer, err := jose.NewSigner(jose.SigningKey{Algorithm: jose.RS256, Key: key}, (&jose.SignerOptions{}).WithType("JWT"))
	if err != nil {
		panic(err)
	}
	// the library reads time claims as numbers or as RFC 3339 strings (some providers and clients write those); the instant
	// is the same whatever the zone it is written in
	tv := func(t time.Time) any {
		switch w.AssertTimes {
		case "z":
			return t.UTC().Format(time.RFC3339)
		case "zoned":
			return t.In(time.FixedZone("", 5*3600+1800)).Format(time.RFC3339)
		case "zoned-west":
			return t.In(time.FixedZone("", -7*3600)).Format(time.RFC3339)
		}
		return t.Unix()
	}
	claims := map[string]any{"iss": iss, "sub": sub, "aud": aud, "iat": tv(iat), "exp": tv(exp)}
	tok, err := crypto.Sign(claims, signer)
	if err != nil {
		panic(err)
	}
	return tok
}

// TokenResponse is the decoded JSON body of a token endpoint answer.
type TokenResponse struct {
	AccessToken     string `json:"access_token"`
	TokenType       string `json:"token_type"`
	RefreshToken    string `json:"refresh_token"`
	ExpiresIn       int64  `json:"expires_in"`
	IDToken         string `json:"id_token"`
	State           string `json:"state"`
	Scope           any    `json:"scope"`
	IssuedTokenType string `json:"issued_token_type"`
	Error           string `json:"error"`
	ErrorDesc       string `json:"error_description"`
	raw             map[string]any
}

func (t *TokenResponse) Raw() map[string]any { return t.raw }

// ScopeList returns the scope member as a list whatever its JSON form was.
func (t *TokenResponse) ScopeList() []string {
	switch s := t.Scope.(type) {
	case string:
		return strings.Fields(s)
	case []any:
		var out []string
		for _, x := range s {
			out = append(out, fmt.Sprint(x))
		}
		return out
	}
	return nil
}

func ParseTokenResponse(body string) (*TokenResponse, error) {
	t := &TokenResponse{}
	if err := json.Unmarshal([]byte(body), t); err != nil {
		return nil, err
	}
	_ = json.Unmarshal([]byte(body), &t.raw)
	return t, nil
}

// DecodeAccess returns the storage id and subject an access token string refers to, using the
// harness's copy of the provider key (opaque) or the JWT payload (unverified, ledger use only).
func (w *World) DecodeAccess(tok string) (id, subject string, jwt bool, ok bool) {
	if plain, err := crypto.DecryptAES(tok, string(w.CryptoKey[:])); err == nil {
		// the format is "<token id>:<subject>"; token ids have no colon, subjects may (URN or tenant-prefixed ids)
		parts := strings.SplitN(plain, ":", 2)
		if len(parts) == 2 {
			return parts[0], parts[1], false, true
		}
	}
	if p := JWTPayload(tok); p != nil {
		id, _ := p["jti"].(string)
		sub, _ := p["sub"].(string)
		if id != "" {
			return id, sub, true, true
		}
	}
	return "", "", false, false
}

// JWTPayload decodes the payload of a compact JWT without verifying it.
func JWTPayload(tok string) map[string]any {
	parts := strings.Split(tok, ".")
	if len(parts) != 3 {
		return nil
	}
	b, err := base64.RawURLEncoding.DecodeString(parts[1])
	if err != nil {
		return nil
	}
	var m map[string]any
	if json.Unmarshal(b, &m) != nil {
		return nil
	}
	return m
}

func JWTHeader(tok string) map[string]any {
	parts := strings.Split(tok, ".")
	if len(parts) != 3 {
		return nil
	}
	b, err := base64.RawURLEncoding.DecodeString(parts[0])
	if err != nil {
		return nil
	}
	var m map[string]any
	if json.Unmarshal(b, &m) != nil {
		return nil
	}
	return m
}

// Record stores the tokens of a successful token response in the ledger.
func (w *World) Record(tr *TokenResponse, flow, client string, reqID int, authReq string) {
	if tr.AccessToken != "" {
		id, sub, _, _ := w.DecodeAccess(tr.AccessToken)
		var scopes []string
		if t := w.Store.TokenSnapshot(id); t != nil {
			scopes = t.Scopes
		}
		w.Ledger.Access[tr.AccessToken] = &TokenRecord{Kind: "access", StoreID: id, Client: client, Subject: sub, Scopes: scopes, Flow: flow, ReqID: reqID, AuthReq: authReq}
	}
	if tr.RefreshToken != "" {
		r := w.Store.RefreshSnapshot(tr.RefreshToken)
		rec := &TokenRecord{Kind: "refresh", StoreID: tr.RefreshToken, Client: client, Flow: flow, ReqID: reqID, AuthReq: authReq}
		if r != nil {
			rec.Subject, rec.Scopes = r.Subject, r.Scopes
		}
		w.Ledger.Refresh[tr.RefreshToken] = rec
	}
	if tr.IDToken != "" {
		p := JWTPayload(tr.IDToken)
		sub, _ := p["sub"].(string)
		w.Ledger.IDs[tr.IDToken] = &TokenRecord{Kind: "id", Client: client, Subject: sub, Flow: flow, ReqID: reqID, AuthReq: authReq}
	}
}

// ---- honest building blocks used by many properties ----

type AuthParams struct {
	Client          string
	RedirectURI     string
	ResponseType    string
	ResponseMode    string
	Scope           string
	State           string
	Nonce           string
	Challenge       string
	ChallengeMethod string
	Extra           url.Values
}

func (p AuthParams) Values() url.Values {
	v := url.Values{}
	set := func(k, x string) {
		if x != "" {
			v.Set(k, x)
		}
	}
	set("client_id", p.Client)
	set("redirect_uri", p.RedirectURI)
	set("response_type", p.ResponseType)
	set("response_mode", p.ResponseMode)
	set("scope", p.Scope)
	set("state", p.State)
	set("nonce", p.Nonce)
	set("code_challenge", p.Challenge)
	set("code_challenge_method", p.ChallengeMethod)
	for k, xs := range p.Extra {
		for _, x := range xs {
			v.Add(k, x)
		}
	}
	return v
}

// Authorize sends the authorization request from a browser; on success the
// response is a redirect to the login UI carrying the auth request id.
func (w *World) Authorize(b *Browser, p AuthParams) (resp *Resp, authReqID string) {
	// every fourth authentication request travels as a POST form (OIDC Core 3.1.2.1: both methods must be supported)
	w.authzN++
	if w.authzN%4 == 0 {
		w.O.Probe("authentication-requests-by-post")
		resp = b.PostForm(w.Issuer+"/authorize", p.Values())
	} else {
		resp = b.Get(w.Issuer + "/authorize?" + p.Values().Encode())
	}
	if resp.Err == nil && resp.Status == http.StatusFound && strings.HasPrefix(resp.Location, w.Issuer+"/login?") {
		u, _ := url.Parse(resp.Location)
		authReqID = u.Query().Get("authRequestID")
	}
	return resp, authReqID
}

// LoginAndCallback posts the credentials to the login stub and follows to the callback endpoint;
// it returns the callback's response (the authorization response to the client).
func (w *World) LoginAndCallback(b *Browser, authReqID, username, password string) *Resp {
	r := b.PostForm(w.Issuer+"/login", url.Values{"authRequestID": {authReqID}, "username": {username}, "password": {password}})
	if r.Err != nil || r.Status != http.StatusFound {
		return r
	}
	return b.Get(r.Location)
}

// AuthzResponse is the decoded authorization response as the client's user agent sees it.
type AuthzResponse struct {
	Mode     string // query, fragment, form_post
	Target   string // redirect target without the response parameters (form action for form_post)
	Params   url.Values
	Inputs   int // form_post: number of input elements
	Forms    int
	RawQuery string
}

// DecodeAuthzResponse decodes a redirect (query or fragment) the way a user agent / JS app does.
func DecodeAuthzResponse(r *Resp) (*AuthzResponse, error) {
	if r.Status == http.StatusFound {
		u, err := url.Parse(r.Location)
		if err != nil {
			return nil, err
		}
		out := &AuthzResponse{}
		if u.Fragment != "" || u.RawFragment != "" {
			frag := u.EscapedFragment()
			// a browser app reads location.hash and decodes it as application/x-www-form-urlencoded
			v, err := url.ParseQuery(frag)
			if err != nil {
				return nil, err
			}
			out.Mode, out.Params = "fragment", v
			u.Fragment, u.RawFragment = "", ""
			out.Target = u.String()
			return out, nil
		}
		out.Mode, out.Params = "query", u.Query()
		out.RawQuery = u.RawQuery
		u.RawQuery = ""
		out.Target = u.String()
		return out, nil
	}
	if r.Status == http.StatusOK && strings.Contains(r.Body, "<form") {
		return decodeFormPost(r.Body)
	}
	return nil, fmt.Errorf("not an authorization response: status %d", r.Status)
}

// S256 computes the PKCE S256 challenge of a verifier.
func S256(verifier string) string {
	h := sha256.Sum256([]byte(verifier))
	return base64.RawURLEncoding.EncodeToString(h[:])
}

// Advance moves the simulated clock.
func (w *World) Advance(d time.Duration) {
	time.Sleep(d)
	w.O.SimSeconds += d.Seconds()
}
