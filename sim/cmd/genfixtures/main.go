// genfixtures writes the signing and client keys used by the simulated worlds.
// It was run once; the output is committed so that no key generation happens
// inside a simulated run.
package main

import (
	"crypto/ecdsa"
	"crypto/ed25519"
	"crypto/elliptic"
	"crypto/rand"
	"crypto/rsa"
	"encoding/json"
	"fmt"
	"os"

	jose "github.com/go-jose/go-jose/v4"
)

func main() {
	var keys []jose.JSONWebKey
	add := func(prefix string, i int, k any) {
		keys = append(keys, jose.JSONWebKey{Key: k, KeyID: fmt.Sprintf("%s%d", prefix, i)})
	}
	for i := 0; i < 8; i++ {
		k, err := rsa.GenerateKey(rand.Reader, 2048)
		if err != nil {
			panic(err)
		}
		add("rsa", i, k)
	}
	for i := 0; i < 6; i++ {
		k, _ := ecdsa.GenerateKey(elliptic.P256(), rand.Reader)
		add("p256-", i, k)
	}
	for i := 0; i < 2; i++ {
		k, _ := ecdsa.GenerateKey(elliptic.P384(), rand.Reader)
		add("p384-", i, k)
	}
	for i := 0; i < 2; i++ {
		k, _ := ecdsa.GenerateKey(elliptic.P521(), rand.Reader)
		add("p521-", i, k)
	}
	for i := 0; i < 4; i++ {
		_, k, _ := ed25519.GenerateKey(rand.Reader)
		add("ed", i, k)
	}
	b, err := json.MarshalIndent(jose.JSONWebKeySet{Keys: keys}, "", " ")
	if err != nil {
		panic(err)
	}
	if err := os.WriteFile(os.Args[1], b, 0o644); err != nil {
		panic(err)
	}
}
