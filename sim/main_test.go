package sim

import (
	"fmt"
	"os"
	"testing"

	"verif/sim/kernel"
	"verif/sim/keyset"
	"verif/sim/props"
)

// worlds maps a property id to the simulated world that decides it.
var worlds = map[string]kernel.WorldFunc{
	"C13": keyset.Run,
	"C04": props.RunC04,
	"C10": props.RunC10,
	"C05": props.RunC05,
	"C07": props.RunC07,
	"C08": props.RunC08,
	"C15": props.RunC15,
	"C09": props.RunC09,
	"C16": props.RunC16,
	"C03": props.RunC03,
	"C18": props.RunC18,
	"C17": props.RunC17,
	"C06": props.RunC06,
	"C14": props.RunC14,
	"C11": props.RunC11,
	"C19": props.RunC19,
	"C02": props.RunC02,
	"C01": props.RunC01,
	"C20": props.RunC20,
}

// TestSim is the single entry point of the test binary; the driver script
// starts one process per worker and tells it what to do through VERIF_* variables.
func TestSim(t *testing.T) {
	c := kernel.ConfigFromEnv()
	world := worlds[c.Prop]
	if world == nil {
		t.Skipf("no world for property %q", c.Prop)
	}
	if path := os.Getenv("VERIF_REPLAY"); path != "" {
		if out := os.Getenv("VERIF_OUT"); out != "" {
			kernel.StartWatchdog(out+".hang", func() string { return "replay of " + path })
		}
		ok, o, rf, err := kernel.ReplayMain(t, world, path)
		if err != nil {
			fmt.Printf("REPLAY-ERROR %v\n", err)
			os.Exit(2)
		}
		for _, l := range o.Log {
			fmt.Println("  | " + l)
		}
		for _, v := range o.Violations {
			fmt.Printf("  violation %s step=%d: %s\n", v.Signature(), v.Step, v.Detail)
		}
		if ok {
			fmt.Printf("REPRODUCED property=%s signature=%s trace_len=%d\n", rf.Property, rf.Signature, len(o.Trace))
			os.Exit(1)
		}
		fmt.Printf("NOT-REPRODUCED property=%s signature=%s\n", rf.Property, rf.Signature)
		return
	}
	if os.Getenv("VERIF_DUMP") != "" {
		// determinism self-test: print the full log of each run
		for i := 0; i < c.Runs; i++ {
			o := kernel.SafeRun(t, world, kernel.Spec{Prop: c.Prop, Seed: c.SeedFor(i)})
			fmt.Printf("RUN seed=%d infra=%q steps=%d trace=%v\n", o.Spec.Seed, o.Infra, o.Steps, o.Trace)
			for _, l := range o.Log {
				fmt.Println(" " + l)
			}
			for _, v := range o.Violations {
				fmt.Printf(" V %s %d %s\n", v.Signature(), v.Step, v.Detail)
			}
		}
		return
	}
	sum := kernel.RunBatch(t, world, c)
	if c.Out != "" {
		if err := kernel.WriteJSON(c.Out, sum); err != nil {
			fmt.Printf("cannot write summary: %v\n", err)
			os.Exit(2)
		}
	} else {
		fmt.Printf("runs=%d nontrivial=%d distinct=%d violations=%d infra=%v probes=%v faults=%v wall=%.1fs\n",
			sum.Runs, sum.Nontrivial, len(sum.Distinct), len(sum.Violations), sum.Infra, sum.Probes, sum.Faults, sum.WallSeconds)
		for _, v := range sum.Violations {
			fmt.Printf("VIOLATION %s x%d seed=%d replay=%s\n  %s\n", v.Signature, v.Count, v.Seed, v.Replay, v.Detail)
		}
	}
}

// TestC09Child is the child-process half of the C09 check (see props.C09KeysetChild).
func TestC09Child(t *testing.T) {
	v := os.Getenv("VERIF_C09_CHILD")
	if v == "" {
		t.Skip("only run as a child of the C09 check")
	}
	from := 0
	fmt.Sscan(v, &from)
	props.C09KeysetChild(from)
}
