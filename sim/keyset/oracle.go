package keyset

import "fmt"

// oracle evaluates the interval conditions S1-S6 of DESIGN.md Appendix A over
// the recorded history. All positions are scheduler step numbers.
func (w *world) oracle(skip bool) {
	o := w.o
	lastStep := len(w.servedAt) - 1
	// S3 single flight: network intervals [req, deliver] pairwise disjoint
	for i := 1; i < len(w.dls); i++ {
		prev, cur := w.dls[i-1], w.dls[i]
		if prev.Deliver < 0 || cur.Req <= prev.Deliver {
			o.Violate(Prop, "S3-single-flight", "jwks", cur.Req, "two JWKS requests in flight: %v and %v", prev, cur)
		}
	}
	if len(w.dls) >= 2 {
		o.Probe("two-successive-downloads")
	}
	totalMissed := 0
	for _, c := range w.calls {
		if c.Return < 0 {
			continue
		}
		if c.Missed {
			totalMissed++
		}
		// last successful download that had completely finished before the call began
		var last *download
		for _, d := range w.dls {
			if d.successful() && d.finish() >= 0 && d.finish() < c.Invoke {
				last = d
			}
		}
		during := func(d *download) bool { // not finished before the call was invoked, requested before it returned
			return d.Req <= c.Return && (d.finish() < 0 || d.finish() >= c.Invoke)
		}
		// S1 soundness
		if c.OK {
			o.Probe("call-accepted")
			if c.Missed {
				o.Probe("call-accepted-after-refresh")
			}
			allowed := last != nil && hasKey(last.Snapshot, c.TokKey)
			for _, d := range w.dls {
				if d.successful() && during(d) && d.Deliver <= c.Return && hasKey(d.Snapshot, c.TokKey) {
					allowed = true
				}
			}
			if !allowed {
				o.Violate(Prop, "S1-soundness", "verify", c.Return, "%v accepted but no admissible download contains its signing key", c)
			}
		}
		// S7 own cancellation is honoured: a caller whose context ends while it waits returns in that very step, with an error
		if c.CtxDead >= 0 {
			o.Probe("own-context-ended-while-waiting")
			if c.Return != c.CtxDead || c.OK {
				o.Violate(Prop, "S7-own-cancel", "verify", c.Return, "%v: its own context ended at step %d while it was waiting, but it returned at step %d with ok=%v", c, c.CtxDead, c.Return, c.OK)
			}
		}
		// S5 bounded refresh
		if c.Owned > 1 {
			o.Violate(Prop, "S5-bounded-refresh", "verify", c.Return, "%v started %d downloads", c, c.Owned)
		}
		// S4 failures keep the cache
		if last != nil && refAccept(last.Snapshot, c.TokKid, c.TokKey) {
			anySuccessDuring := false
			failedSince := false
			for _, d := range w.dls {
				if during(d) && (d.successful() || d.Deliver < 0) {
					anySuccessDuring = true
				}
				if !d.successful() && d.Deliver >= 0 && d.Req > last.Req {
					failedSince = true
				}
			}
			if !anySuccessDuring {
				if failedSince {
					o.Probe("failed-download-with-warm-cache")
				}
				if !c.OK {
					o.Violate(Prop, "S4-keep-cache", "verify", c.Return, "%v rejected although its key is in the last successful download %v", c, last)
				} else if c.Owned > 0 || c.Missed {
					o.Violate(Prop, "S4-keep-cache", "refetch", c.Return, "%v went to the remote although its key is cached (%v)", c, last)
				}
			}
		}
		// overlapping downloads in the sense of S2: published not before the call was invoked
		var overlapping []*download
		for _, d := range w.dls {
			if d.Req <= c.Return && (d.Publish < 0 || d.Publish >= c.Invoke) {
				overlapping = append(overlapping, d)
			}
		}
		if c.Missed && c.Owned == 0 && len(overlapping) > 0 {
			o.Probe("joined-inflight")
		}
		for _, d := range overlapping {
			if d.Handle >= 0 && d.Deliver >= 0 {
				for t := d.Handle; t < d.Deliver && t < lastStep; t++ {
					if fmt.Sprint(w.servedAt[t]) != fmt.Sprint(w.servedAt[t+1]) {
						o.Probe("rotation-between-handle-and-deliver")
						break
					}
				}
			}
		}
		if c.Deadline && c.CtxDead >= 0 && c.Missed {
			o.Probe("deadline-while-waiting")
		}
		for _, d := range w.dls {
			// the call began between the publication of a download's result and the cache commit (either order)
			lo, hi := min(d.Publish, d.Commit), max(d.Publish, d.Commit)
			if lo >= 0 && lo < c.Invoke && hi >= c.Invoke {
				o.Probe("window-hook-with-arrival")
			}
		}
		if c.TokKid == "" {
			n := 0
			for _, sk := range w.servedAt[min(c.Invoke, lastStep)] {
				if famOf(sk.Key) == famOf(c.TokKey) {
					n++
				}
			}
			if n >= 2 {
				o.Probe("kid-less-ambiguous")
			}
		}
		// S2 completeness / S6 isolation
		if c.OK || c.CtxDead >= 0 {
			continue
		}
		if c.TokKid == "" && skip {
			continue // documented behaviour of SkipRemoteCheck for kid-less tokens
		}
		t0 := c.Invoke
		injected, foreignCancel := false, false
		for _, d := range overlapping {
			if d.Handle >= 0 && d.Handle < t0 {
				t0 = d.Handle
			}
			// a download that was completely over before the call went from its cache miss to the remote path is not one
			// the call can have waited for: its failure is nobody's excuse but that of the calls that did wait
			if c.MissRelease >= 0 && d.finish() >= 0 && d.finish() < c.MissRelease {
				continue
			}
			switch d.Outcome {
			case "ok", "badkty":
			case "ctxseen":
				foreignCancel = true // c's own context is live, so somebody else's cancellation aborted the download
			default:
				injected = true // includes downloads that were never delivered
			}
		}
		if injected {
			continue
		}
		servedAll := true
		for t := t0; t <= c.Return && t <= lastStep; t++ {
			if !refAccept(w.servedAt[t], c.TokKid, c.TokKey) {
				servedAll = false
				break
			}
		}
		if !servedAll {
			continue
		}
		if foreignCancel {
			o.Probe("owner-cancelled-with-waiters")
			o.Violate(Prop, "S6-isolation", "owner-ctx", c.Return, "%v failed although its own context is live and its key is served: another caller's cancellation aborted the shared download", c)
			continue
		}
		site := "verify"
		for _, d := range w.dls {
			if d.Publish >= 0 && d.Publish < c.Invoke && (d.Commit < 0 || d.Commit >= c.Invoke) {
				site = "stale-join"
			}
		}
		o.Violate(Prop, "S2-completeness", site, c.Return, "%v rejected although its key was served under that kid from step %d to its return and no fault overlapped it", c, t0)
	}
	if len(w.dls) > totalMissed {
		o.Violate(Prop, "S5-bounded-refresh", "jwks", lastStep, "%d downloads for %d cache misses", len(w.dls), totalMissed)
	}
	for _, d := range w.dls {
		if d.Outcome == "ctxseen" {
			o.Probe("download-aborted-by-cancel")
		}
	}
}
