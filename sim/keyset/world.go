// Package keyset is the W-keyset engine: N caller tasks against one real
// rp.remoteKeySet whose JWKS endpoint, cancellations, deadlines, key rotations
// and goroutine interleaving are all decided by the seeded scheduler (C13).
package keyset

import (
	"context"
	"encoding/json"
	"errors"
	"fmt"
	"io"
	"net/http"
	"strings"
	"sync"
	"testing"
	"time"

	jose "github.com/go-jose/go-jose/v4"
	"github.com/zitadel/oidc/v3/pkg/client/rp"
	"github.com/zitadel/oidc/v3/pkg/oidc"

	"verif/sim/fixtures"
	"verif/sim/kernel"
)

const Prop = "C13"

type ctxKey struct{}

// ---- key universe and pre-signed tokens (built once per process, outside any bubble) ----

type uniKey struct {
	idx  int
	priv jose.JSONWebKey
	pub  jose.JSONWebKey
	alg  jose.SignatureAlgorithm
}

var (
	uniOnce  sync.Once
	universe []uniKey
	tokens   map[string]string // "<keyIdx>|<kid>" -> compact JWS
)

func kidOf(i int) string { return fmt.Sprintf("k%d", i) }

func loadUniverse() {
	uniOnce.Do(func() {
		rs := fixtures.Keys("rsa")
		es := fixtures.Keys("p256-")
		src := []jose.JSONWebKey{rs[0], rs[1], rs[2], es[0], es[1], es[2]}
		for i, k := range src {
			alg := jose.RS256
			if i >= 3 {
				alg = jose.ES256
			}
			universe = append(universe, uniKey{idx: i, priv: k, pub: k.Public(), alg: alg})
		}
		tokens = map[string]string{}
		payload := []byte(`{"iss":"https://op.sim","sub":"u1"}`)
		for i, k := range universe {
			kids := []string{""}
			for j := range universe {
				kids = append(kids, kidOf(j))
			}
			for _, kid := range kids {
				opts := &jose.SignerOptions{}
				if kid != "" {
					opts.WithHeader("kid", kid)
				}
				s, err := jose.NewSigner(jose.SigningKey{Algorithm: k.alg, Key: k.priv.Key}, opts)
				if err != nil {
					panic(err)
				}
				o, err := s.Sign(payload)
				if err != nil {
					panic(err)
				}
				c, err := o.CompactSerialize()
				if err != nil {
					panic(err)
				}
				tokens[fmt.Sprintf("%d|%s", i, kid)] = c
			}
		}
	})
}

// ---- recorded history ----

type servedKey struct {
	Kid string // "" = published without kid
	Key int
}

type download struct {
	ID               int
	Owner            string
	Req              int
	Handle           int
	Deliver          int
	Publish          int
	Commit           int
	Outcome          string
	Snapshot         []servedKey
	CtxDeadAtDeliver bool
}

func (d *download) successful() bool { return d.Outcome == "ok" || d.Outcome == "badkty" }
func (d *download) finish() int {
	if d.Publish < 0 || d.Commit < 0 {
		return -1
	}
	if d.Publish > d.Commit {
		return d.Publish
	}
	return d.Commit
}

type call struct {
	Caller   int
	N        int
	Invoke   int
	Return   int
	TokKey   int
	TokKid   string
	OK       bool
	Err      string
	CtxDead  int // step at which its own ctx was cancelled or expired (-1: never)
	Deadline bool
	Missed   bool // reached the remote path
	// MissRelease: the step at which the call left the point right after its cache miss (-1: never got there). A
	// download that had completely finished before that step cannot be one the call waited for.
	MissRelease int
	Owned       int // downloads it started
	ctxErr      func() error
}

type result struct {
	done bool
	ok   bool
	err  string
}

type world struct {
	o          *kernel.Outcome
	s          *kernel.Sched
	ks         oidc.KeySet
	cfg        *kernel.Chooser
	served     []servedKey
	servedAt   [][]servedKey // servedAt[t] = served set after step t was applied
	nextKey    int
	rotations  int
	nokidKey   int // universe index published without kid (-1 none)
	nextKeyIdx int // universe index of the key the next rotation publishes (-1 none)

	mu      sync.Mutex
	results map[string]*result // "c<i>.<n>"

	nCallers      int
	nCalls        []int
	cur           []int // index of the current/next call per caller
	active        []*call
	ctxs          []context.Context
	cancels       []context.CancelFunc
	calls         []*call
	dls           []*download
	netOpen       map[string]*download // task name -> download
	updOpen       map[string]*download // updater task -> download
	windowParking bool
	// sharedKid: the provider names keys of different types alike (RFC 7517 4.5 allows one kid for equivalent keys of
	// different kty); encDecoys: every named signing key is preceded in the document by an encryption key (use=enc)
	// of the same type under the same kid. Neither changes which tokens the document vouches for.
	sharedKid     bool
	encDecoys     bool
	allowFaults   bool
	allowCancel   bool
	allowDeadline bool
	allowRotate   bool
	allowClear    bool
}

type transport struct{ w *world }

func (tr *transport) RoundTrip(req *http.Request) (*http.Response, error) {
	owner, _ := req.Context().Value(ctxKey{}).(string)
	name := "net:" + owner
	out := tr.w.s.Park(name, "net.req", req.Context())
	switch out {
	case "handle":
	case "ctxseen":
		return nil, req.Context().Err()
	default:
		return nil, errors.New("simnet: aborted")
	}
	out = tr.w.s.Park(name, "net.resp", req.Context())
	tr.w.mu.Lock()
	d := tr.w.netOpen[name]
	var snap []servedKey
	if d != nil {
		snap = d.Snapshot
	}
	tr.w.mu.Unlock()
	mk := func(status int, body string) (*http.Response, error) {
		return &http.Response{StatusCode: status, Status: fmt.Sprintf("%d %s", status, http.StatusText(status)),
			Header: http.Header{"Content-Type": {"application/json"}}, Body: io.NopCloser(strings.NewReader(body)), Request: req}, nil
	}
	body := jwksBody(snap, out == "badkty", tr.w.encDecoys)
	switch out {
	case "ok", "badkty":
		return mk(200, body)
	case "5xx":
		return mk(500, `{"message":"internal"}`)
	case "trunc":
		return mk(200, body[:len(body)/2])
	case "badjson":
		return mk(200, `{"keys": 5}`)
	case "ctxseen":
		return nil, req.Context().Err()
	case "drop":
		return nil, errors.New("simnet: connection reset by peer")
	}
	return nil, errors.New("simnet: aborted")
}

func jwksBody(snap []servedKey, withUnknownKty, encDecoys bool) string {
	var raws []json.RawMessage
	if withUnknownKty {
		raws = append(raws, json.RawMessage(`{"kty":"XYZ","kid":"weird","x":"AAAA"}`))
	}
	for _, sk := range snap {
		if encDecoys && sk.Kid != "" {
			d := universe[(sk.Key+1)%3+3*famOf(sk.Key)].pub
			d.KeyID = sk.Kid
			d.Use = "enc"
			b, err := d.MarshalJSON()
			if err != nil {
				panic(err)
			}
			raws = append(raws, b)
		}
		k := universe[sk.Key].pub
		k.KeyID = sk.Kid
		k.Use = "sig"
		b, err := k.MarshalJSON()
		if err != nil {
			panic(err)
		}
		raws = append(raws, b)
	}
	if raws == nil {
		raws = []json.RawMessage{}
	}
	b, _ := json.Marshal(map[string]any{"keys": raws})
	return string(b)
}

func copyServed(s []servedKey) []servedKey { return append([]servedKey(nil), s...) }

func servedHas(s []servedKey, kid string, key int) bool {
	for _, sk := range s {
		if sk.Kid == kid && sk.Key == key {
			return true
		}
	}
	return false
}

func hasKey(s []servedKey, key int) bool {
	for _, sk := range s {
		if sk.Key == key {
			return true
		}
	}
	return false
}

func famOf(key int) int {
	if key >= 3 {
		return 1
	}
	return 0
}

// refAccept is the reference reading of "the token is signed by a key this
// JWKS document serves": a header kid selects the key published under that kid;
// without kid (on either side) the key must be the only candidate of a fitting type.
func refAccept(s []servedKey, kid string, key int) bool {
	var loose []servedKey
	for _, sk := range s {
		if famOf(sk.Key) != famOf(key) {
			continue
		}
		if kid != "" && sk.Kid == kid {
			return sk.Key == key
		}
		if kid == "" || sk.Kid == "" {
			loose = append(loose, sk)
		}
	}
	return len(loose) == 1 && loose[0].Key == key
}

// Run executes one W-keyset world.
func Run(t *testing.T, spec kernel.Spec) *kernel.Outcome {
	loadUniverse()
	o := kernel.NewOutcome(spec)
	infra := kernel.Bubble(t, spec.Seed, func(t *testing.T) { runInBubble(o, spec) })
	if infra != "" {
		o.Infra = infra
	}
	return o
}

func runInBubble(o *kernel.Outcome, spec kernel.Spec) {
	tape := kernel.NewTape(spec.Seed, spec.Over)
	cfg := tape.Sub("cfg")
	maxSteps := spec.MaxSteps
	if maxSteps == 0 {
		maxSteps = 120
	}
	w := &world{o: o, cfg: cfg, results: map[string]*result{}, netOpen: map[string]*download{}, updOpen: map[string]*download{}}
	w.s = kernel.NewSched(tape, "sched", maxSteps)
	w.s.Replay, w.s.Script = spec.Replay, spec.Script

	// swarm configuration
	w.nCallers = cfg.Range(2, 6)
	skip := cfg.Bool(1, 5)
	w.windowParking = cfg.Bool(3, 4)
	w.allowFaults = cfg.Bool(1, 2)
	w.allowCancel = cfg.Bool(2, 3)
	w.allowDeadline = cfg.Bool(1, 3)
	w.allowRotate = cfg.Bool(3, 4)
	w.nokidKey = -1
	nServed := cfg.Range(1, 3)
	perm := []int{0, 1, 2, 3, 4, 5}
	for i := len(perm) - 1; i > 0; i-- {
		j := cfg.Int(i + 1)
		perm[i], perm[j] = perm[j], perm[i]
	}
	// the universe is used in the permuted order; served keys come first
	order := perm
	if cfg.Bool(1, 5) {
		w.nokidKey = order[0]
	}
	shape := tape.Sub("cfg-kids")
	w.sharedKid = shape.Bool(1, 4)
	w.encDecoys = shape.Bool(1, 4)
	if w.sharedKid {
		o.Probe("worlds-with-one-kid-for-keys-of-different-types")
	}
	if w.encDecoys {
		o.Probe("worlds-with-encryption-keys-under-the-signing-kids")
	}
	for i := 0; i < nServed; i++ {
		kid := w.kid(order[i])
		if order[i] == w.nokidKey {
			kid = ""
		}
		w.served = append(w.served, servedKey{Kid: kid, Key: order[i]})
	}
	w.nextKey = nServed
	w.nextKeyIdx = -1
	if w.nextKey < len(order) {
		w.nextKeyIdx = order[w.nextKey]
	}
	w.allowClear = w.allowRotate && tape.Sub("cfg-clear").Bool(1, 3)
	client := &http.Client{Transport: &transport{w: w}}
	if skip {
		w.ks = rp.NewRemoteKeySet(client, "https://op.sim/keys", rp.SkipRemoteCheck())
	} else {
		w.ks = rp.NewRemoteKeySet(client, "https://op.sim/keys")
	}
	w.nCalls = make([]int, w.nCallers)
	w.cur = make([]int, w.nCallers)
	w.active = make([]*call, w.nCallers)
	w.ctxs = make([]context.Context, w.nCallers)
	w.cancels = make([]context.CancelFunc, w.nCallers)
	for i := 0; i < w.nCallers; i++ {
		w.nCalls[i] = cfg.Range(1, 3)
	}
	o.Sample = nil

	rp.SimYield = func(ctx context.Context, point string) {
		owner, _ := ctx.Value(ctxKey{}).(string)
		if owner == "" {
			return
		}
		switch point {
		case "remote.enter", "remote.wait":
			return // nothing shared happens between these points and the next one
		case "update.precommit", "update.predone":
			if !w.windowParking {
				return
			}
		}
		name := owner[:strings.IndexByte(owner, '.')] // the caller task
		if strings.HasPrefix(point, "update.") {
			name = "u:" + owner // the goroutine started on behalf of that call
		}
		w.s.Park(name, point, nil)
	}
	defer func() { rp.SimYield = nil }()

	for i := 0; i < w.nCallers; i++ {
		go w.callerTask(i)
	}
	w.servedAt = nil
	err := w.s.Run(func(draining bool) []kernel.Event { return w.enabled(order, draining) }, w.after)
	if err != nil {
		o.Infra = err.Error()
	}
	o.Trace = w.s.Trace
	o.Steps = w.s.Step
	if w.s.Strategy != "" {
		o.Probe("schedule-strategy:" + w.s.Strategy)
	}
	w.oracle(skip)
	w.finish(skip, order)
}

func (w *world) callerTask(i int) {
	name := fmt.Sprintf("c%d", i)
	for n := 0; n < w.nCalls[i]; n++ {
		out := w.s.Park(name, "start", nil)
		if out != "go" {
			return
		}
		w.mu.Lock()
		c := w.active[i]
		ctx := w.ctxs[i]
		w.mu.Unlock()
		tok := tokens[fmt.Sprintf("%d|%s", c.TokKey, c.TokKid)]
		jws, err := jose.ParseSigned(tok, []jose.SignatureAlgorithm{jose.RS256, jose.ES256})
		if err != nil {
			panic(err)
		}
		payload, err := w.ks.VerifySignature(ctx, jws)
		r := &result{done: true, ok: err == nil && payload != nil}
		if err != nil {
			r.err = err.Error()
		}
		w.mu.Lock()
		w.results[fmt.Sprintf("c%d.%d", i, n)] = r
		w.mu.Unlock()
	}
}

func (w *world) inSelect(i int) bool {
	// an invoked call that is not parked at any hook is blocked in the select of
	// keysFromRemote (or about to return, which the quiescence wait excludes)
	if w.active[i] == nil {
		return false
	}
	return w.s.IsParked(fmt.Sprintf("c%d", i)) == ""
}

func (w *world) enabled(order []int, draining bool) []kernel.Event {
	var evs []kernel.Event
	parked := w.s.ParkedTasks()
	for _, p := range parked {
		p := p
		switch {
		case p.Point == "start":
			i := int(p.Task[1] - '0')
			if draining {
				evs = append(evs, kernel.Event{Name: "abort:" + p.Task, Drain: true, Apply: func() { w.s.Release(p.Task, "abort") }})
				continue
			}
			evs = append(evs, kernel.Event{Name: "invoke:" + p.Task, Task: p.Task, Weight: 3, Apply: func() { w.invoke(i) }})
		case strings.HasPrefix(p.Task, "net:"):
			ctxDead := false
			if rc, ok := p.Detail.(context.Context); ok && rc.Err() != nil {
				ctxDead = true
			}
			if p.Point == "net.req" {
				evs = append(evs, kernel.Event{Name: "handle:" + p.Task, Weight: 3, Drain: true, Apply: func() {
					d := w.netOpen[p.Task]
					d.Handle = w.s.Step
					w.mu.Lock()
					d.Snapshot = copyServed(w.served)
					w.mu.Unlock()
					w.s.Release(p.Task, "handle")
				}})
				if ctxDead {
					evs = append(evs, kernel.Event{Name: "ctxseen:" + p.Task, Weight: 3, Apply: func() { w.deliver(p.Task, "ctxseen") }})
				}
			} else {
				outs := []string{"ok"}
				if w.allowFaults && !draining {
					outs = append(outs, "5xx", "trunc", "badjson", "badkty", "drop")
				}
				for _, out := range outs {
					out := out
					wgt := 1
					if out == "ok" {
						wgt = 4
					}
					evs = append(evs, kernel.Event{Name: "deliver:" + out + ":" + p.Task, Weight: wgt, Drain: out == "ok", Apply: func() { w.deliver(p.Task, out) }})
				}
				if ctxDead {
					evs = append(evs, kernel.Event{Name: "ctxseen:" + p.Task, Weight: 4, Apply: func() { w.deliver(p.Task, "ctxseen") }})
				}
			}
		default:
			evs = append(evs, kernel.Event{Name: "wake:" + p.Task + "@" + p.Point, Task: p.Task, Weight: 3, Drain: true, Apply: func() {
				if p.Point == "verify.miss" && len(p.Task) == 2 && p.Task[0] == 'c' {
					if c := w.active[int(p.Task[1]-'0')]; c != nil {
						c.MissRelease = w.s.Step
					}
				}
				if strings.HasPrefix(p.Task, "u:") {
					d := w.updOpen[p.Task]
					if d != nil {
						switch p.Point {
						case "update.predone":
							d.Publish = w.s.Step
						case "update.precommit":
							d.Commit = w.s.Step
						}
					}
				}
				w.s.Release(p.Task, "go")
			}})
		}
	}
	if draining {
		return evs
	}
	// cancellation of a live caller that is blocked in the select
	if w.allowCancel {
		for i := 0; i < w.nCallers; i++ {
			i := i
			c := w.active[i]
			if c != nil && c.CtxDead < 0 && w.inSelect(i) {
				evs = append(evs, kernel.Event{Name: fmt.Sprintf("cancel:c%d", i), Weight: 1, Apply: func() {
					w.cancels[i]()
					c.CtxDead = w.s.Step
				}})
			}
		}
	}
	// clock advance to the next deadline (only when no deadline-carrying call is parked before its select)
	if w.allowDeadline {
		var next time.Time
		ok := true
		for i := 0; i < w.nCallers; i++ {
			c := w.active[i]
			if c == nil || !c.Deadline || c.CtxDead >= 0 {
				continue
			}
			if !w.inSelect(i) {
				ok = false
				break
			}
			dl, _ := w.ctxs[i].Deadline()
			if next.IsZero() || dl.Before(next) {
				next = dl
			}
		}
		if ok && !next.IsZero() {
			evs = append(evs, kernel.Event{Name: "advance", Weight: 1, Apply: func() {
				d := time.Until(next)
				if d > 0 {
					time.Sleep(d)
					w.o.SimSeconds += d.Seconds()
				}
			}})
		}
	}
	if w.allowRotate && w.rotations < 3 {
		if w.nextKey < len(order) {
			evs = append(evs, kernel.Event{Name: "rotate:add", Weight: 1, Apply: func() {
				k := order[w.nextKey]
				w.bumpNext(order)
				w.rotations++
				w.mu.Lock()
				w.served = append(w.served, servedKey{Kid: w.kid(k), Key: k})
				w.mu.Unlock()
			}})
			evs = append(evs, kernel.Event{Name: "rotate:replace", Weight: 1, Apply: func() {
				k := order[w.nextKey]
				w.bumpNext(order)
				w.rotations++
				w.mu.Lock()
				w.served = []servedKey{{Kid: w.kid(k), Key: k}}
				w.mu.Unlock()
			}})
		}
		if len(w.served) > 0 && w.allowClear {
			// the provider withdraws every key (a legal, successful JWKS answer with no usable key: "keys":[] or, with
			// the badkty answer, only keys of an unknown type): everything cached before is retired by it
			evs = append(evs, kernel.Event{Name: "rotate:clear", Weight: 1, Apply: func() {
				w.rotations++
				w.o.Probe("every-key-withdrawn")
				w.mu.Lock()
				w.served = nil
				w.mu.Unlock()
			}})
		}
		if len(w.served) > 1 {
			evs = append(evs, kernel.Event{Name: "rotate:retire", Weight: 1, Apply: func() {
				w.rotations++
				w.mu.Lock()
				w.served = copyServed(w.served[1:])
				w.mu.Unlock()
			}})
		}
	}
	return evs
}

// kid is the name the provider of this world gives a key of the universe.
func (w *world) kid(key int) string {
	if w.sharedKid {
		return kidOf(key % 3)
	}
	return kidOf(key)
}

func (w *world) bumpNext(order []int) {
	w.nextKey++
	w.nextKeyIdx = -1
	if w.nextKey < len(order) {
		w.nextKeyIdx = order[w.nextKey]
	}
}

func (w *world) invoke(i int) {
	n := w.cur[i]
	w.cur[i]++
	ch := w.s.Tape.Sub(fmt.Sprintf("call:c%d.%d", i, n))
	c := &call{Caller: i, N: n, Invoke: w.s.Step, Return: -1, CtxDead: -1, MissRelease: -1}
	// bias towards keys that are served now or will be rotated in next
	switch x := ch.Int(10); {
	case x < 5 && len(w.served) > 0:
		c.TokKey = w.served[ch.Int(len(w.served))].Key
	case x < 7 && w.nextKeyIdx >= 0:
		c.TokKey = w.nextKeyIdx
	default:
		c.TokKey = ch.Int(len(universe))
	}
	switch x := ch.Int(20); {
	case x < 14:
		c.TokKid = w.kid(c.TokKey)
		if c.TokKey == w.nokidKey && ch.Bool(1, 2) {
			c.TokKid = ""
		}
	case x < 17:
		c.TokKid = ""
	default:
		c.TokKid = kidOf(ch.Int(len(universe)))
	}
	// bias towards keys that are or will be served
	base := context.WithValue(context.Background(), ctxKey{}, fmt.Sprintf("c%d.%d", i, n))
	var ctx context.Context
	var cancel context.CancelFunc
	if w.allowDeadline && ch.Bool(1, 3) {
		c.Deadline = true
		ctx, cancel = context.WithTimeout(base, time.Duration(ch.Range(1, 9))*time.Second+time.Duration(i+1)*time.Millisecond+time.Duration(n)*time.Microsecond)
	} else {
		ctx, cancel = context.WithCancel(base)
	}
	c.ctxErr = ctx.Err
	w.mu.Lock()
	w.active[i] = c
	w.ctxs[i] = ctx
	w.cancels[i] = cancel
	w.mu.Unlock()
	w.calls = append(w.calls, c)
	w.s.Release(fmt.Sprintf("c%d", i), "go")
}

func (w *world) deliver(task, outcome string) {
	d := w.netOpen[task]
	d.Deliver = w.s.Step
	d.Outcome = outcome
	if d.Handle < 0 {
		d.Handle = w.s.Step
	}
	if outcome != "ok" && outcome != "badkty" && outcome != "ctxseen" {
		w.o.Fault(outcome)
	}
	if outcome == "badkty" {
		w.o.Fault("badkty")
	}
	w.s.Release(task, outcome)
}

// after runs in the scheduler goroutine once the world is quiescent again: all
// history stamping happens here, never in task goroutines.
func (w *world) after(step int, ev string) error {
	w.mu.Lock()
	w.servedAt = append(w.servedAt, copyServed(w.served))
	w.mu.Unlock()
	for _, p := range w.s.ParkedTasks() {
		if strings.HasPrefix(p.Task, "net:") && p.Point == "net.req" {
			if d := w.netOpen[p.Task]; d == nil || d.Deliver >= 0 {
				owner := strings.TrimPrefix(p.Task, "net:")
				nd := &download{ID: len(w.dls), Owner: owner, Req: step, Handle: -1, Deliver: -1, Publish: -1, Commit: -1}
				if !w.windowParking {
					// without window parking publish and commit happen in the step of the delivery
				}
				w.dls = append(w.dls, nd)
				w.netOpen[p.Task] = nd
				w.updOpen["u:"+owner] = nd
				for _, c := range w.calls {
					if fmt.Sprintf("c%d.%d", c.Caller, c.N) == owner {
						c.Owned++
					}
				}
			}
		}
		if !strings.HasPrefix(p.Task, "u:") && !strings.HasPrefix(p.Task, "net:") && p.Point == "verify.miss" {
			i := int(p.Task[1] - '0')
			if c := w.active[i]; c != nil {
				c.Missed = true
			}
		}
	}
	// deadline expiry
	for i := 0; i < w.nCallers; i++ {
		if c := w.active[i]; c != nil && c.CtxDead < 0 && w.ctxs[i].Err() != nil {
			c.CtxDead = step
		}
	}
	// downloads without window parking publish and commit in the delivery step
	for _, d := range w.dls {
		if d.Deliver >= 0 && !w.windowParking {
			if d.Publish < 0 {
				d.Publish = d.Deliver
			}
			if d.Commit < 0 {
				d.Commit = d.Deliver
			}
		}
	}
	// completed calls
	w.mu.Lock()
	for i := 0; i < w.nCallers; i++ {
		c := w.active[i]
		if c == nil {
			continue
		}
		r := w.results[fmt.Sprintf("c%d.%d", c.Caller, c.N)]
		if r != nil && r.done {
			c.Return = step
			c.OK = r.ok
			c.Err = r.err
			w.active[i] = nil
			w.cancels[i]()
		}
	}
	w.mu.Unlock()
	return nil
}

func (c *call) String() string {
	return fmt.Sprintf("c%d.%d[key=%d kid=%q invoke=%d return=%d ok=%v ctxdead=%d err=%q]", c.Caller, c.N, c.TokKey, c.TokKid, c.Invoke, c.Return, c.OK, c.CtxDead, c.Err)
}

func (d *download) String() string {
	return fmt.Sprintf("D%d[owner=%s req=%d handle=%d deliver=%d publish=%d commit=%d outcome=%s keys=%v]", d.ID, d.Owner, d.Req, d.Handle, d.Deliver, d.Publish, d.Commit, d.Outcome, d.Snapshot)
}

func (w *world) finish(skip bool, order []int) {
	o := w.o
	var callStrs, dlStrs []string
	for _, c := range w.calls {
		callStrs = append(callStrs, c.String())
	}
	for _, d := range w.dls {
		dlStrs = append(dlStrs, d.String())
	}
	o.Log = append(o.Log, "config: "+fmt.Sprintf("callers=%d skipRemoteCheck=%v window=%v faults=%v cancel=%v deadline=%v rotate=%v nokid=%d", w.nCallers, skip, w.windowParking, w.allowFaults, w.allowCancel, w.allowDeadline, w.allowRotate, w.nokidKey))
	o.Log = append(o.Log, callStrs...)
	o.Log = append(o.Log, dlStrs...)
	o.Nontrivial = len(w.dls) > 0 && len(w.calls) >= 2
	if o.Sample == nil {
		o.Sample = map[string]any{"seed": o.Spec.Seed, "schedule": w.s.Trace, "calls": callStrs, "downloads": dlStrs}
	}
	// abstract schedule for the distinct-interleavings measure: event kinds with task roles
	var abs []string
	for _, e := range w.s.Trace {
		abs = append(abs, e)
	}
	if o.Nontrivial {
		o.Distinct(strings.Join(abs, ","))
	}
}
