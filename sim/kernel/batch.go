package kernel

import (
	"encoding/json"
	"fmt"
	"os"
	"path/filepath"
	"sort"
	"strconv"
	"strings"
	"sync/atomic"
	"testing"
	"testing/cryptotest"
	"testing/synctest"
	"time"
)

// WorldFunc runs one simulated world. It must be a pure function of spec and
// the code under test.
type WorldFunc func(t *testing.T, spec Spec) *Outcome

// Bubble runs f inside a synctest bubble with crypto/rand pinned to the seed and
// converts harness-level trouble (deadlocked bubble, harness panic) into an
// infrastructure message instead of a test failure.
func Bubble(t *testing.T, seed uint64, f func(t *testing.T)) (infra string) {
	defer func() {
		if r := recover(); r != nil {
			infra = fmt.Sprintf("bubble panic: %v", r)
		}
	}()
	cryptotest.SetGlobalRandom(t, seed)
	synctest.Test(t, func(t *testing.T) {
		f(t)
	})
	return ""
}

// BatchConfig is read from the environment by the test binary.
type BatchConfig struct {
	Prop       string
	Tier       string
	BaseSeed   uint64
	Worker     int
	Workers    int
	Runs       int // per worker
	WallLimit  time.Duration
	ReplayDir  string
	Out        string
	MaxSamples int
}

func envInt(name string, def int) int {
	if v := os.Getenv(name); v != "" {
		if n, err := strconv.Atoi(v); err == nil {
			return n
		}
	}
	return def
}

func ConfigFromEnv() BatchConfig {
	c := BatchConfig{
		Prop:       os.Getenv("VERIF_PROP"),
		Tier:       os.Getenv("VERIF_TIER"),
		Worker:     envInt("VERIF_WORKER", 0),
		Workers:    envInt("VERIF_WORKERS", 1),
		Runs:       envInt("VERIF_RUNS", 100),
		WallLimit:  time.Duration(envInt("VERIF_WALL_S", 60)) * time.Second,
		ReplayDir:  os.Getenv("VERIF_REPLAY_DIR"),
		Out:        os.Getenv("VERIF_OUT"),
		MaxSamples: 3,
	}
	if c.Tier == "" {
		c.Tier = "quick"
	}
	if c.ReplayDir == "" {
		c.ReplayDir = "/verif/replays"
	}
	seed := os.Getenv("VERIF_SEED")
	if seed == "" {
		seed = "1"
	}
	s, err := strconv.ParseUint(seed, 10, 64)
	if err != nil {
		s = hash64(seed)
	}
	c.BaseSeed = s
	return c
}

// SeedFor derives the world seed of run i of a worker.
func (c BatchConfig) SeedFor(i int) uint64 {
	idx := uint64(i*c.Workers + c.Worker)
	return (c.BaseSeed%1000003)*1_000_000_000 + idx
}

// RunBatch runs many seeded worlds and reports a summary. Violations are
// minimised and written as replay files.
func RunBatch(t *testing.T, world WorldFunc, c BatchConfig) *Summary {
	start := time.Now()
	sum := &Summary{Prop: c.Prop, Tier: c.Tier, BaseSeed: c.BaseSeed, Worker: c.Worker,
		Probes: map[string]int{}, Faults: map[string]int{}, Extra: map[string]any{}}
	distinct := map[string]bool{}
	hashes := map[string]bool{}
	seen := map[string]*ReportedViolation{}
	var curSeed atomic.Uint64
	if c.Out != "" {
		StartWatchdog(c.Out+".hang", func() string { return fmt.Sprint(curSeed.Load()) })
	}
	for i := 0; i < c.Runs; i++ {
		if time.Since(start) > c.WallLimit {
			break
		}
		seed := c.SeedFor(i)
		curSeed.Store(seed)
		Tick()
		spec := Spec{Prop: c.Prop, Seed: seed}
		if c.Out != "" {
			// lets the driver attribute a process crash (a panic in a goroutine the library started) to a seed
			os.WriteFile(c.Out+".cur", []byte(fmt.Sprint(seed)), 0o644)
		}
		o := SafeRun(t, world, spec)
		if o.Infra != "" && strings.Contains(o.Infra, "blocked goroutines remain") {
			// a run is a pure function of its seed: a task that the machine's load made look stuck does not look stuck
			// again, a wait that the code under test really never ends does. One repeat tells them apart.
			o = SafeRun(t, world, spec)
			if n, _ := sum.Extra["runs_repeated_after_a_stuck_task"].(int); true {
				sum.Extra["runs_repeated_after_a_stuck_task"] = n + 1
			}
		}
		sum.Runs++
		if len(sum.Seeds) == 0 {
			sum.Seeds = []uint64{seed, seed}
		}
		sum.Seeds[1] = seed
		if o.Infra != "" {
			if len(sum.Infra) < 5 {
				sum.Infra = append(sum.Infra, fmt.Sprintf("seed %d: %s", seed, o.Infra))
			}
			continue
		}
		sum.Steps += o.Steps
		sum.SimSeconds += o.SimSeconds
		nf := 0
		for k, v := range o.Faults {
			sum.Faults[k] += v
			nf += v
		}
		if nf > 0 {
			sum.Faulting++
		} else {
			sum.FaultFree++
		}
		for k, v := range o.Probes {
			sum.Probes[k] += v
		}
		if o.Nontrivial {
			sum.Nontrivial++
			hashes[o.TraceHash()] = true
			if len(o.DistinctKeys) == 0 {
				distinct[o.TraceHash()] = true
			}
		}
		for _, k := range o.DistinctKeys {
			distinct[HashKey(k)] = true
		}
		if o.Sample != nil && len(sum.Samples) < c.MaxSamples {
			sum.Samples = append(sum.Samples, o.Sample)
		}
		// group violations by signature; minimise the first of each
		bySig := map[string]Violation{}
		var order []string
		for _, v := range o.Violations {
			if _, ok := bySig[v.Signature()]; !ok {
				bySig[v.Signature()] = v
				order = append(order, v.Signature())
			}
		}
		for _, sig := range order {
			v := bySig[sig]
			if rv := seen[sig]; rv != nil {
				rv.Count++
				continue
			}
			path := filepath.Join(c.ReplayDir, fmt.Sprintf("%s-%s-%d.json", v.Prop, HashKey(sig), seed))
			rf := Minimise(t, world, o, v, 150)
			os.MkdirAll(c.ReplayDir, 0o755)
			if err := WriteJSON(path, rf); err != nil {
				sum.Infra = append(sum.Infra, "cannot write replay: "+err.Error())
			}
			rv := &ReportedViolation{Signature: sig, Prop: v.Prop, Detail: v.Detail, Seed: seed, Replay: path, Count: 1}
			seen[sig] = rv
		}
	}
	for _, sig := range SortedKeys(seen) {
		sum.Violations = append(sum.Violations, *seen[sig])
	}
	sum.Distinct = SortedSet(distinct)
	sum.Hashes = SortedSet(hashes)
	sum.WallSeconds = time.Since(start).Seconds()
	return sum
}

// SafeRun runs a world and turns a harness panic into infrastructure trouble.
func SafeRun(t *testing.T, world WorldFunc, spec Spec) (o *Outcome) {
	defer func() {
		if r := recover(); r != nil {
			o = NewOutcome(spec)
			o.Infra = fmt.Sprintf("harness panic: %v", r)
		}
	}()
	o = world(t, spec)
	if o == nil {
		o = NewOutcome(spec)
		o.Infra = "world returned nil"
	}
	return o
}

func hasSig(o *Outcome, sig string) (Violation, bool) {
	for _, v := range o.Violations {
		if v.Signature() == sig {
			return v, true
		}
	}
	return Violation{}, false
}

// Minimise shrinks the failing run (delta debugging over the scheduler script or
// over the kept actor steps) while the same violation signature persists, then
// returns the replay record.
func Minimise(t *testing.T, world WorldFunc, o *Outcome, v Violation, budget int) *ReplayFile {
	sig := v.Signature()
	rf := &ReplayFile{Property: v.Prop, Signature: sig, Detail: v.Detail}
	orig := o.Spec
	rf.Original = &orig
	try := func(s Spec) (*Outcome, bool) {
		if budget <= 0 {
			return nil, false
		}
		budget--
		r := SafeRun(t, world, s)
		if r.Infra != "" {
			return nil, false
		}
		_, ok := hasSig(r, sig)
		return r, ok
	}
	best := o
	bestSpec := o.Spec
	switch {
	case o.StepIDs != nil:
		ids := append([]int(nil), o.StepIDs...)
		// truncate after the violating step
		cut := ids
		for i, id := range ids {
			if id == v.Step {
				cut = ids[:i+1]
				break
			}
		}
		rf.OrigLen = len(ids)
		s := o.Spec
		// catalogue-style worlds: the violating step alone usually reproduces
		s.Keep, s.KeepSet = []int{v.Step}, true
		if r, ok := try(s); ok {
			best, bestSpec = r, s
			rf.MinLen = 1
			break
		}
		s.Keep, s.KeepSet = cut, true
		if r, ok := try(s); ok {
			best, bestSpec, ids = r, s, cut
		} else {
			s.Keep = ids
			if r, ok := try(s); ok {
				best, bestSpec = r, s
			} else {
				break // not reproducible through Keep: report unminimised
			}
		}
		ids = ddmin(ids, func(c []int) bool {
			s := o.Spec
			s.Keep, s.KeepSet = c, true
			if r, ok := try(s); ok {
				best, bestSpec = r, s
				return true
			}
			return false
		})
		rf.MinLen = len(ids)
		// does the violation need an interleaving at all? Try the same steps with every scheduled group run
		// sequentially (first enabled event each time)
		if !bestSpec.SequentialGroups {
			s := bestSpec
			s.SequentialGroups = true
			if r, ok := try(s); ok {
				best, bestSpec = r, s
				rf.Note = "no particular interleaving is needed: the violation also shows when the requests of every scheduled group run one after the other"
			} else if strings.Contains(strings.Join(best.Trace, " "), "schedule") {
				rf.Note = "the interleaving matters: with the requests of the scheduled group run one after the other the violation does not show"
			}
		}
	case len(o.Trace) > 0:
		script := append([]string(nil), o.Trace...)
		rf.OrigLen = len(script)
		if v.Step >= 0 && v.Step+1 < len(script) {
			script = script[:v.Step+1]
		}
		s := o.Spec
		s.Replay, s.Script = true, script
		if r, ok := try(s); ok {
			best, bestSpec = r, s
		} else {
			script = append([]string(nil), o.Trace...)
			s.Script = script
			if r, ok := try(s); ok {
				best, bestSpec = r, s
			} else {
				break
			}
		}
		script = ddmin(script, func(c []string) bool {
			s := o.Spec
			s.Replay, s.Script = true, c
			if r, ok := try(s); ok {
				best, bestSpec = r, s
				return true
			}
			return false
		})
		rf.MinLen = len(script)
	}
	rf.Spec = bestSpec
	rf.Trace = best.Trace
	if bv, ok := hasSig(best, sig); ok {
		rf.Detail = bv.Detail
	}
	n := len(best.Log)
	if n > 60 {
		rf.LogTail = best.Log[n-60:]
	} else {
		rf.LogTail = best.Log
	}
	return rf
}

// ddmin is classic delta debugging: it returns a 1-minimal subsequence for
// which test still holds (test(xs) is assumed true on entry).
func ddmin[T any](xs []T, test func([]T) bool) []T {
	n := 2
	for len(xs) >= 2 {
		chunk := (len(xs) + n - 1) / n
		reduced := false
		for start := 0; start < len(xs); start += chunk {
			end := start + chunk
			if end > len(xs) {
				end = len(xs)
			}
			cand := append(append([]T(nil), xs[:start]...), xs[end:]...)
			if len(cand) > 0 && test(cand) {
				xs = cand
				if n > 2 {
					n--
				}
				reduced = true
				break
			}
		}
		if !reduced {
			if n >= len(xs) {
				break
			}
			n *= 2
			if n > len(xs) {
				n = len(xs)
			}
		}
	}
	return xs
}

// ReplayMain re-executes a replay file and reports whether the recorded
// signature was reproduced.
func ReplayMain(t *testing.T, world WorldFunc, path string) (reproduced bool, o *Outcome, rf *ReplayFile, err error) {
	b, err := os.ReadFile(path)
	if err != nil {
		return false, nil, nil, err
	}
	rf = &ReplayFile{}
	if err := json.Unmarshal(b, rf); err != nil {
		return false, nil, nil, err
	}
	o = SafeRun(t, world, rf.Spec)
	if o.Infra != "" {
		return false, o, rf, fmt.Errorf("infrastructure: %s", o.Infra)
	}
	_, ok := hasSig(o, rf.Signature)
	return ok, o, rf, nil
}

func sortedCopy(xs []string) []string {
	out := append([]string(nil), xs...)
	sort.Strings(out)
	return out
}
