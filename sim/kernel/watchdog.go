package kernel

import (
	"fmt"
	"os"
	"runtime"
	"runtime/debug"
	"sync/atomic"
	"syscall"
	"time"
)

// Liveness of the code under test inside one run. A handler that spins without ever reaching a seam of the simulator
// (no storage call, no network write, no timer) never lets the bubble's clock move and never returns: the run would
// hang until the driver's wall-clock limit and nothing could be said about it. The watchdog lives outside every
// bubble: the simulator ticks a counter at each of its seams; when the process has burnt HangCPUSeconds of processor
// time without a single tick, some goroutine is spinning. The watchdog then writes every goroutine's stack next to the
// worker's output (the driver decides from the stacks whether the spinning code is the library or the harness) and
// ends the process with status 3. Measured in processor time of this process, not wall time: a machine under load
// cannot trigger it. One seed is one run, so the seed named in the file hangs again when replayed.

var progress atomic.Uint64

// Tick is called at every seam of the simulator (storage call, network exchange, step of a world, start of a run).
func Tick() { progress.Add(1) }

// HangCPUSeconds is the processor time without progress after which a run counts as hanging.
const HangCPUSeconds = 20

func cpuSeconds() float64 {
	var ru syscall.Rusage
	if err := syscall.Getrusage(syscall.RUSAGE_SELF, &ru); err != nil {
		return 0
	}
	return float64(ru.Utime.Sec+ru.Stime.Sec) + float64(ru.Utime.Usec+ru.Stime.Usec)/1e6
}

var watchdogOn atomic.Bool

// StartWatchdog starts the watchdog once per process; hangFile is where the stacks go ("" = standard error only).
func StartWatchdog(hangFile string, currentSeed func() string) {
	if watchdogOn.Swap(true) {
		return
	}
	// a stack that overflows (unbounded recursion in the code under test) is fatal to the process either way; keep
	// the memory it may take until then small
	debug.SetMaxStack(64 << 20)
	go func() {
		last, lastCPU := progress.Load(), cpuSeconds()
		for {
			time.Sleep(500 * time.Millisecond)
			now := progress.Load()
			if now != last {
				last, lastCPU = now, cpuSeconds()
				continue
			}
			if cpuSeconds()-lastCPU < HangCPUSeconds {
				continue
			}
			buf := make([]byte, 8<<20)
			buf = buf[:runtime.Stack(buf, true)]
			msg := fmt.Sprintf("HANG seed=%s: %d s of processor time without reaching any seam of the simulator\n\n%s", currentSeed(), HangCPUSeconds, buf)
			if hangFile != "" {
				os.WriteFile(hangFile, []byte(msg), 0o644)
			}
			os.Stderr.WriteString(msg[:min(len(msg), 20000)])
			os.Exit(3)
		}
	}()
}
