package kernel

import (
	"fmt"
	"runtime"
	"sort"
	"sync"
	"syscall"
	"testing/synctest"
)

// Event is one thing the scheduler may do next. Exactly one event is applied
// between two quiescence points, so one seed (or one recorded script) is one
// exactly repeatable execution.
type Event struct {
	Name   string // stable descriptor, e.g. "wake:c2@remote.enter", "deliver:ok", "cancel:c1"
	Task   string // the task this event lets run ("" = an event of the environment: transport, clock, rotation, cancellation)
	Weight int    // relative probability in search mode (0 is treated as 1)
	Drain  bool   // may be used to finish the run once the step budget or script is exhausted
	Apply  func()
}

// Parked is a task blocked at a yield point.
type Parked struct {
	Task   string
	Point  string
	Detail any
	ch     chan string
}

// Sched is the seeded park/release scheduler. Tasks are real goroutines created
// inside a synctest bubble; a task runs only between two yield points.
type Sched struct {
	Tape     *Tape
	Stream   string
	Script   []string // replay: follow these event names (skipping ones not enabled)
	Replay   bool
	MaxSteps int

	// Strategy of the search (chosen from the tape at the first step unless set): "uniform" = weighted random choice
	// among all enabled events; "pct" = random task priorities, the enabled task of highest priority always runs, and
	// at PCTDepth seeded steps the running task drops below all others (Burckhardt et al., ASPLOS 2010: a bug of
	// depth d is found with probability >= 1/(n*k^(d-1))); "starve" = one seeded task runs only when nothing else
	// can. Environment events keep a share of one step in four under "pct" and "starve". Replay follows the recorded
	// event names and ignores the strategy.
	Strategy string
	PCTDepth int
	prio     map[string]int
	changeAt map[int]bool
	victim   string
	lowest   int

	Trace []string // names of the applied events, in order
	Step  int      // number of events applied so far == sequence number of the next one

	mu     sync.Mutex
	parked map[string]*Parked
	pos    int

	// Current is the task released last. Exactly one task runs between two quiescence points, so code that has
	// no context to carry its identity (a callback without arguments) can ask who is running.
	Current string

	// Tracked mode (tasks started with Go): the scheduler keeps the state of every task itself instead of asking
	// synctest for quiescence. That lets it notice a task that was released but neither parks again nor finishes
	// because the code under test made it wait for another task (a lock, a once, a pool): after StuckAfterMS of this
	// process's processor time without progress the task is set aside as stuck and the others are scheduled on; it rejoins when it parks
	// or finishes. Code that never makes one request wait for another behaves exactly as in the synctest mode.
	tracked      bool
	running      int
	changes      int
	stuck        map[string]bool
	state        map[string]string // running | parked | done
	StuckAfterMS int64
	StuckSeen    []string // tasks that were ever set aside as stuck, in order
}

func NewSched(tape *Tape, stream string, maxSteps int) *Sched {
	return &Sched{Tape: tape, Stream: stream, MaxSteps: maxSteps, parked: map[string]*Parked{}}
}

// Park blocks the calling task until the scheduler releases it; the release
// carries an outcome string chosen by the scheduler. Never call it while
// holding a lock shared with other tasks.
func (s *Sched) Park(task, point string, detail any) string {
	p := &Parked{Task: task, Point: point, Detail: detail, ch: make(chan string, 1)}
	s.mu.Lock()
	if _, dup := s.parked[task]; dup {
		s.mu.Unlock()
		panic(fmt.Sprintf("sched: task %q parked twice (at %s)", task, point))
	}
	s.parked[task] = p
	if s.tracked {
		s.setState(task, "parked")
	}
	s.mu.Unlock()
	return <-p.ch
}

// setState records a task's state (tracked mode; s.mu held).
func (s *Sched) setState(task, st string) {
	old := s.state[task]
	if old == "running" && !s.stuck[task] {
		s.running--
	}
	delete(s.stuck, task)
	s.state[task] = st
	if st == "running" {
		s.running++
	}
	s.changes++
}

// Go starts a task in tracked mode. The task must call Park("start") (or any Park) or return.
func (s *Sched) Go(task string, f func()) {
	s.mu.Lock()
	if !s.tracked {
		s.tracked, s.stuck, s.state = true, map[string]bool{}, map[string]string{}
		if s.StuckAfterMS == 0 {
			s.StuckAfterMS = 250
		}
	}
	s.setState(task, "running")
	s.mu.Unlock()
	go func() {
		defer func() {
			s.mu.Lock()
			s.setState(task, "done")
			s.mu.Unlock()
		}()
		f()
	}()
}

// realMillis measures the processor time this process has used (user + system), in milliseconds. Processor time,
// not wall-clock time: on a loaded machine the whole process may be off the processor for long stretches, and a task
// that is merely waiting for its turn must not be taken for one that waits for another task. While the scheduler spins
// in quiesce a runnable task gets the processor; only a task that stays put while the process burns its threshold of
// processor time is set aside. (The bubble fakes package time only; getrusage is real.)
func realMillis() int64 {
	var ru syscall.Rusage
	if err := syscall.Getrusage(syscall.RUSAGE_SELF, &ru); err != nil {
		var tv syscall.Timeval
		syscall.Gettimeofday(&tv)
		return tv.Sec*1000 + int64(tv.Usec)/1000
	}
	return (ru.Utime.Sec+ru.Stime.Sec)*1000 + int64(ru.Utime.Usec+ru.Stime.Usec)/1000
}

// quiesce waits until no task is running: all are parked, done or stuck.
func (s *Sched) quiesce() {
	if !s.tracked {
		synctest.Wait()
		return
	}
	start, last := realMillis(), -1
	for {
		s.mu.Lock()
		running, changes, nstuck := s.running, s.changes, len(s.stuck)
		if running == 0 && (nstuck == 0 || (changes == last && realMillis()-start > 30)) {
			// (a task that had been set aside may have been let go by what just ran: give it a moment to park or finish)
			s.mu.Unlock()
			return
		}
		if running == 0 {
			if changes != last {
				last, start = changes, realMillis()
			}
			s.mu.Unlock()
			runtime.Gosched()
			continue
		}
		if changes != last {
			last, start = changes, realMillis()
		} else if realMillis()-start > s.StuckAfterMS {
			for _, t := range SortedKeys(s.state) {
				if s.state[t] == "running" && !s.stuck[t] {
					s.stuck[t] = true
					s.running--
					s.StuckSeen = append(s.StuckSeen, t)
				}
			}
			s.mu.Unlock()
			return
		}
		s.mu.Unlock()
		runtime.Gosched()
	}
}

// settle waits until every task is parked or done, or nothing has changed for the stuck threshold.
func (s *Sched) settle() {
	start, last := realMillis(), -1
	for {
		s.mu.Lock()
		open := 0
		for _, st := range s.state {
			if st == "running" {
				open++
			}
		}
		changes := s.changes
		s.mu.Unlock()
		if open == 0 {
			return
		}
		if changes != last {
			last, start = changes, realMillis()
		} else if realMillis()-start > s.StuckAfterMS {
			return
		}
		runtime.Gosched()
	}
}

// StuckNow lists the tasks that are waiting on something other than the scheduler right now.
func (s *Sched) StuckNow() []string {
	s.mu.Lock()
	defer s.mu.Unlock()
	var out []string
	for _, t := range SortedKeys(s.stuck) {
		out = append(out, t)
	}
	return out
}

// ParkedTasks returns the parked tasks sorted by task name.
func (s *Sched) ParkedTasks() []*Parked {
	s.mu.Lock()
	defer s.mu.Unlock()
	out := make([]*Parked, 0, len(s.parked))
	for _, p := range s.parked {
		out = append(out, p)
	}
	sort.Slice(out, func(i, j int) bool { return out[i].Task < out[j].Task })
	return out
}

// IsParked reports the point a task is parked at ("" if it is not parked).
func (s *Sched) IsParked(task string) string {
	s.mu.Lock()
	defer s.mu.Unlock()
	if p := s.parked[task]; p != nil {
		return p.Point
	}
	return ""
}

// Release wakes a parked task with an outcome.
func (s *Sched) Release(task, outcome string) {
	s.mu.Lock()
	p := s.parked[task]
	delete(s.parked, task)
	s.mu.Unlock()
	if p == nil {
		panic(fmt.Sprintf("sched: release of task %q which is not parked", task))
	}
	s.Current = task
	if s.tracked {
		s.mu.Lock()
		s.setState(task, "running")
		s.mu.Unlock()
	}
	p.ch <- outcome
}

// weighted picks one of the candidate events (indices into evs) by weight.
func weighted(ch *Chooser, evs []Event, idx []int) *Event {
	total := 0
	for _, i := range idx {
		w := evs[i].Weight
		if w <= 0 {
			w = 1
		}
		total += w
	}
	x := ch.Int(total)
	for _, i := range idx {
		w := evs[i].Weight
		if w <= 0 {
			w = 1
		}
		if x < w {
			return &evs[i]
		}
		x -= w
	}
	return &evs[idx[len(idx)-1]]
}

// choose applies the search strategy of this run to the enabled events.
func (s *Sched) choose(ch *Chooser, evs []Event) *Event {
	st := s.Tape.Sub(s.Stream + "/strategy")
	if s.Strategy == "" {
		switch x := st.Int(10); {
		case x < 5:
			s.Strategy = "uniform"
		case x < 8:
			s.Strategy = "pct"
		default:
			s.Strategy = "starve"
		}
	}
	all := make([]int, len(evs))
	var env, tasked []int
	for i := range evs {
		all[i] = i
		if evs[i].Task == "" {
			env = append(env, i)
		} else {
			tasked = append(tasked, i)
		}
	}
	if s.Strategy == "uniform" || len(tasked) == 0 {
		return weighted(ch, evs, all)
	}
	if s.prio == nil {
		s.prio, s.changeAt = map[string]int{}, map[int]bool{}
		if s.PCTDepth == 0 {
			s.PCTDepth = 1 + st.Int(3)
		}
		if s.Strategy == "pct" {
			for i := 1; i < s.PCTDepth; i++ {
				s.changeAt[1+st.Int(40)] = true
			}
		}
	}
	// priorities are handed out in the order tasks are first seen enabled (deterministic: evs is ordered)
	for _, i := range tasked {
		t := evs[i].Task
		if _, ok := s.prio[t]; !ok {
			if s.Strategy == "starve" {
				// the k-th task seen becomes the victim with probability 1/2 each until one is chosen
				if s.victim == "" && st.Bool(1, 2) {
					s.victim = t
					s.prio[t] = -1
				} else {
					s.prio[t] = 1
				}
			} else {
				s.prio[t] = 1 + st.Int(1000000)
			}
		}
	}
	if len(env) > 0 && ch.Int(4) == 0 {
		return weighted(ch, evs, env)
	}
	best := ""
	for _, i := range tasked {
		t := evs[i].Task
		if best == "" || s.prio[t] > s.prio[best] {
			best = t
		}
	}
	if s.Strategy == "pct" && s.changeAt[s.Step] {
		s.lowest--
		s.prio[best] = s.lowest
		best = ""
		for _, i := range tasked {
			t := evs[i].Task
			if best == "" || s.prio[t] > s.prio[best] {
				best = t
			}
		}
	}
	var cand []int
	for _, i := range tasked {
		if s.Strategy == "starve" {
			if s.prio[evs[i].Task] == s.prio[best] {
				cand = append(cand, i)
			}
		} else if evs[i].Task == best {
			cand = append(cand, i)
		}
	}
	return weighted(ch, evs, cand)
}

// Run drives the world until no event is enabled. enabled is called at every
// quiescence point and must return the events in a deterministic order. after
// is called after each applied event (and the quiescence that follows it) and
// may return an error to stop the run (an invariant violation).
func (s *Sched) Run(enabled func(draining bool) []Event, after func(step int, ev string) error) error {
	ch := s.Tape.Sub(s.Stream)
	for {
		s.quiesce()
		draining := s.Step >= s.MaxSteps || (s.Replay && s.pos >= len(s.Script))
		evs := enabled(draining)
		if len(evs) == 0 {
			if s.tracked {
				// tasks that are still set aside get one more chance to finish; what remains is a deadlock
				s.mu.Lock()
				n := len(s.stuck)
				s.mu.Unlock()
				if n > 0 {
					s.settle()
				}
			}
			return nil
		}
		var pick *Event
		if s.Replay && !draining {
			for pick == nil && s.pos < len(s.Script) {
				want := s.Script[s.pos]
				s.pos++
				for i := range evs {
					if evs[i].Name == want {
						pick = &evs[i]
						break
					}
				}
			}
			if pick == nil {
				continue // script exhausted: next round drains
			}
		} else if draining {
			for i := range evs {
				if evs[i].Drain {
					pick = &evs[i]
					break
				}
			}
			if pick == nil {
				return nil
			}
		} else {
			pick = s.choose(ch, evs)
		}
		name := pick.Name
		s.Trace = append(s.Trace, name)
		pick.Apply()
		s.Step++
		s.quiesce()
		if after != nil {
			if err := after(s.Step-1, name); err != nil {
				return err
			}
		}
		if s.Step > s.MaxSteps+10000 {
			return fmt.Errorf("sched: drain did not terminate")
		}
	}
}
