package kernel

import (
	"fmt"
	"sort"
	"sync"
	"testing/synctest"
)

// Event is one thing the scheduler may do next. Exactly one event is applied
// between two quiescence points, so one seed (or one recorded script) is one
// exactly repeatable execution.
type Event struct {
	Name   string // stable descriptor, e.g. "wake:c2@remote.enter", "deliver:ok", "cancel:c1"
	Weight int    // relative probability in search mode (0 is treated as 1)
	Drain  bool   // may be used to finish the run once the step budget or script is exhausted
	Apply  func()
}

// Parked is a task blocked at a yield point.
type Parked struct {
	Task   string
	Point  string
	Detail any
	ch     chan string
}

// Sched is the seeded park/release scheduler. Tasks are real goroutines created
// inside a synctest bubble; a task runs only between two yield points.
type Sched struct {
	Tape     *Tape
	Stream   string
	Script   []string // replay: follow these event names (skipping ones not enabled)
	Replay   bool
	MaxSteps int

	Trace []string // names of the applied events, in order
	Step  int      // number of events applied so far == sequence number of the next one

	mu     sync.Mutex
	parked map[string]*Parked
	pos    int

	// Current is the task released last. Exactly one task runs between two quiescence points, so code that has
	// no context to carry its identity (a callback without arguments) can ask who is running.
	Current string
}

func NewSched(tape *Tape, stream string, maxSteps int) *Sched {
	return &Sched{Tape: tape, Stream: stream, MaxSteps: maxSteps, parked: map[string]*Parked{}}
}

// Park blocks the calling task until the scheduler releases it; the release
// carries an outcome string chosen by the scheduler. Never call it while
// holding a lock shared with other tasks.
func (s *Sched) Park(task, point string, detail any) string {
	p := &Parked{Task: task, Point: point, Detail: detail, ch: make(chan string, 1)}
	s.mu.Lock()
	if _, dup := s.parked[task]; dup {
		s.mu.Unlock()
		panic(fmt.Sprintf("sched: task %q parked twice (at %s)", task, point))
	}
	s.parked[task] = p
	s.mu.Unlock()
	return <-p.ch
}

// ParkedTasks returns the parked tasks sorted by task name.
func (s *Sched) ParkedTasks() []*Parked {
	s.mu.Lock()
	defer s.mu.Unlock()
	out := make([]*Parked, 0, len(s.parked))
	for _, p := range s.parked {
		out = append(out, p)
	}
	sort.Slice(out, func(i, j int) bool { return out[i].Task < out[j].Task })
	return out
}

// IsParked reports the point a task is parked at ("" if it is not parked).
func (s *Sched) IsParked(task string) string {
	s.mu.Lock()
	defer s.mu.Unlock()
	if p := s.parked[task]; p != nil {
		return p.Point
	}
	return ""
}

// Release wakes a parked task with an outcome.
func (s *Sched) Release(task, outcome string) {
	s.mu.Lock()
	p := s.parked[task]
	delete(s.parked, task)
	s.mu.Unlock()
	if p == nil {
		panic(fmt.Sprintf("sched: release of task %q which is not parked", task))
	}
	s.Current = task
	p.ch <- outcome
}

// Run drives the world until no event is enabled. enabled is called at every
// quiescence point and must return the events in a deterministic order. after
// is called after each applied event (and the quiescence that follows it) and
// may return an error to stop the run (an invariant violation).
func (s *Sched) Run(enabled func(draining bool) []Event, after func(step int, ev string) error) error {
	ch := s.Tape.Sub(s.Stream)
	for {
		synctest.Wait()
		draining := s.Step >= s.MaxSteps || (s.Replay && s.pos >= len(s.Script))
		evs := enabled(draining)
		if len(evs) == 0 {
			return nil
		}
		var pick *Event
		if s.Replay && !draining {
			for pick == nil && s.pos < len(s.Script) {
				want := s.Script[s.pos]
				s.pos++
				for i := range evs {
					if evs[i].Name == want {
						pick = &evs[i]
						break
					}
				}
			}
			if pick == nil {
				continue // script exhausted: next round drains
			}
		} else if draining {
			for i := range evs {
				if evs[i].Drain {
					pick = &evs[i]
					break
				}
			}
			if pick == nil {
				return nil
			}
		} else {
			total := 0
			for i := range evs {
				w := evs[i].Weight
				if w <= 0 {
					w = 1
				}
				total += w
			}
			x := ch.Int(total)
			for i := range evs {
				w := evs[i].Weight
				if w <= 0 {
					w = 1
				}
				if x < w {
					pick = &evs[i]
					break
				}
				x -= w
			}
		}
		name := pick.Name
		s.Trace = append(s.Trace, name)
		pick.Apply()
		s.Step++
		synctest.Wait()
		if after != nil {
			if err := after(s.Step-1, name); err != nil {
				return err
			}
		}
		if s.Step > s.MaxSteps+10000 {
			return fmt.Errorf("sched: drain did not terminate")
		}
	}
}
