package kernel

import (
	"crypto/sha256"
	"encoding/hex"
	"encoding/json"
	"fmt"
	"os"
	"sort"
	"strings"
)

// Spec fully determines one simulated run (together with the code).
type Spec struct {
	Prop    string            `json:"prop"`
	Seed    uint64            `json:"seed"`
	Params  map[string]string `json:"params,omitempty"` // world parameters that override the seeded swarm choice
	Replay  bool              `json:"replay,omitempty"`
	Script  []string          `json:"script,omitempty"` // scheduler events to follow (replay of scheduled worlds)
	Keep    []int             `json:"keep,omitempty"`   // actor steps to keep (replay of step worlds); nil = all
	KeepSet bool              `json:"keep_set,omitempty"`
	Over    map[string]int    `json:"over,omitempty"` // tape overrides
	// SequentialGroups: every scheduled group of the run takes its first enabled event each time, i.e. its requests
	// run one after the other in task order (used by the minimiser to tell whether an interleaving is needed)
	SequentialGroups bool `json:"sequential_groups,omitempty"`
	MaxSteps         int  `json:"max_steps,omitempty"`
}

// Violation is one failed oracle rule. Its signature names the property, the
// oracle rule and the observable site; it never contains line numbers or
// error strings so that known findings stay stable.
type Violation struct {
	Prop   string `json:"prop"`
	Rule   string `json:"rule"`
	Site   string `json:"site"`
	Step   int    `json:"step"`
	Detail string `json:"detail"`
}

func (v Violation) Signature() string { return v.Prop + "/" + v.Rule + "/" + v.Site }

// Outcome is what one simulated run reports.
type Outcome struct {
	Spec         Spec
	Violations   []Violation
	Probes       map[string]int
	Faults       map[string]int
	Steps        int
	SimSeconds   float64
	Trace        []string // scheduler trace or actor-step log (used for distinctness and replay)
	StepIDs      []int    // for step worlds: ids of the steps that ran
	Nontrivial   bool     // the run exercised the property's own probe at least once
	Sample       any
	Infra        string // non-empty: infrastructure trouble (never reported as a violation)
	Log          []string
	DistinctKeys []string // keys of the distinct non-trivial cases this run covered (hashed by the batch)
}

func NewOutcome(spec Spec) *Outcome {
	return &Outcome{Spec: spec, Probes: map[string]int{}, Faults: map[string]int{}}
}

func (o *Outcome) Probe(name string)         { o.Probes[name]++ }
func (o *Outcome) ProbeN(name string, n int) { o.Probes[name] += n }
func (o *Outcome) Fault(name string)         { o.Faults[name]++ }
func (o *Outcome) Logf(format string, a ...any) {
	o.Log = append(o.Log, fmt.Sprintf(format, a...))
}
func (o *Outcome) Violate(prop, rule, site string, step int, format string, a ...any) {
	o.Violations = append(o.Violations, Violation{Prop: prop, Rule: rule, Site: site, Step: step, Detail: fmt.Sprintf(format, a...)})
}
func (o *Outcome) Distinct(key string) { o.DistinctKeys = append(o.DistinctKeys, key) }

// TraceHash identifies the schedule / history of a run.
func (o *Outcome) TraceHash() string {
	h := sha256.Sum256([]byte(strings.Join(o.Trace, "\n")))
	return hex.EncodeToString(h[:8])
}

func HashKey(s string) string {
	h := sha256.Sum256([]byte(s))
	return hex.EncodeToString(h[:8])
}

// ReplayFile is written for every reported violation.
type ReplayFile struct {
	Property  string   `json:"property"`
	Signature string   `json:"signature"`
	Detail    string   `json:"detail"`
	Spec      Spec     `json:"spec"`
	Original  *Spec    `json:"original_spec,omitempty"`
	OrigLen   int      `json:"original_length"`
	MinLen    int      `json:"minimised_length"`
	Trace     []string `json:"trace"`
	LogTail   []string `json:"log_tail,omitempty"`
	Known     bool     `json:"known_finding,omitempty"`
	Note      string   `json:"note,omitempty"` // what the minimiser learnt (e.g. whether an interleaving is needed)
}

func WriteJSON(path string, v any) error {
	b, err := json.MarshalIndent(v, "", " ")
	if err != nil {
		return err
	}
	tmp := path + ".tmp"
	if err := os.WriteFile(tmp, append(b, '\n'), 0o644); err != nil {
		return err
	}
	return os.Rename(tmp, path)
}

// Summary is what one worker process reports to the driver.
type Summary struct {
	Prop        string              `json:"prop"`
	Tier        string              `json:"tier"`
	BaseSeed    uint64              `json:"base_seed"`
	Worker      int                 `json:"worker"`
	Runs        int                 `json:"runs"`
	FaultFree   int                 `json:"fault_free_runs"`
	Faulting    int                 `json:"faulting_runs"`
	Nontrivial  int                 `json:"nontrivial_runs"`
	Steps       int                 `json:"steps"`
	SimSeconds  float64             `json:"sim_seconds"`
	WallSeconds float64             `json:"wall_seconds"`
	Probes      map[string]int      `json:"probes"`
	Faults      map[string]int      `json:"faults"`
	Distinct    []string            `json:"distinct"` // hashes of distinct non-trivial cases
	Hashes      []string            `json:"trace_hashes"`
	Samples     []any               `json:"samples"`
	Violations  []ReportedViolation `json:"violations"`
	Infra       []string            `json:"infra"`
	Exhaustive  bool                `json:"exhaustive"`
	Seeds       []uint64            `json:"seeds_first_last"`
	Extra       map[string]any      `json:"extra,omitempty"`
}

type ReportedViolation struct {
	Signature string `json:"signature"`
	Prop      string `json:"prop"`
	Detail    string `json:"detail"`
	Seed      uint64 `json:"seed"`
	Replay    string `json:"replay"`
	Count     int    `json:"count"`
}

func SortedSet(m map[string]bool) []string {
	out := make([]string, 0, len(m))
	for k := range m {
		out = append(out, k)
	}
	sort.Strings(out)
	return out
}
