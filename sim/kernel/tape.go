// Package kernel holds the parts of the simulator that are independent of the
// system under test: the keyed decision tape, the park/release scheduler, the
// result and replay records and the minimiser.
package kernel

import (
	"fmt"
	"hash/fnv"
	"math/rand/v2"
	"sort"
)

// Tape is the single source of every choice made in a simulated run. It is
// keyed: every named stream has its own generator derived from (seed, stream),
// so removing the decisions of one stream (an actor step that was dropped
// during minimisation) does not shift the decisions of any other stream.
type Tape struct {
	Seed    uint64
	Over    map[string]int // explicit overrides: "stream#index" -> value
	streams map[string]*stream
	Draws   int
	// ZeroPrefixes: streams whose name starts with one of these always answer 0 (the first choice)
	ZeroPrefixes []string
}

type stream struct {
	rng *rand.Rand
	idx int
}

// GroupStreams are the tape streams that schedule groups of concurrent requests.
var GroupStreams = []string{"race:", "pair:", "devrace:", "reads:", "callbacks:", "sibling"}

func NewTape(seed uint64, over map[string]int) *Tape {
	return &Tape{Seed: seed, Over: over, streams: map[string]*stream{}}
}

func hash64(s string) uint64 {
	h := fnv.New64a()
	h.Write([]byte(s))
	return h.Sum64()
}

func (t *Tape) stream(name string) *stream {
	s := t.streams[name]
	if s == nil {
		s = &stream{rng: rand.New(rand.NewPCG(t.Seed, hash64(name)))}
		t.streams[name] = s
	}
	return s
}

// Choose returns a value in [0,n) from the named stream.
func (t *Tape) Choose(streamName string, n int) int {
	if n <= 0 {
		panic(fmt.Sprintf("tape: Choose(%q, %d)", streamName, n))
	}
	s := t.stream(streamName)
	key := fmt.Sprintf("%s#%d", streamName, s.idx)
	s.idx++
	t.Draws++
	v := s.rng.IntN(n) // always draw so that overrides do not shift the stream
	for _, p := range t.ZeroPrefixes {
		if len(streamName) >= len(p) && streamName[:len(p)] == p {
			return 0
		}
	}
	if t.Over != nil {
		if o, ok := t.Over[key]; ok {
			if o < 0 {
				o = -o
			}
			return o % n
		}
	}
	return v
}

// Sub returns a chooser bound to one stream.
func (t *Tape) Sub(streamName string) *Chooser { return &Chooser{t: t, s: streamName} }

// Chooser is a convenience view of one stream of the tape.
type Chooser struct {
	t *Tape
	s string
}

func (c *Chooser) Int(n int) int { return c.t.Choose(c.s, n) }

// Bool is true with probability num/den.
func (c *Chooser) Bool(num, den int) bool { return c.t.Choose(c.s, den) < num }

// Range returns a value in [lo,hi].
func (c *Chooser) Range(lo, hi int) int { return lo + c.t.Choose(c.s, hi-lo+1) }

// Pick returns one of the strings.
func (c *Chooser) Pick(xs ...string) string { return xs[c.Int(len(xs))] }

// Subset returns a random subset (each element with probability 1/2), in order.
func (c *Chooser) Subset(xs []string) []string {
	var out []string
	for _, x := range xs {
		if c.Bool(1, 2) {
			out = append(out, x)
		}
	}
	return out
}

// Name returns the stream name.
func (c *Chooser) Name() string { return c.s }

// Tape returns the underlying tape.
func (c *Chooser) Tape() *Tape { return c.t }

// SortedKeys returns the keys of a map in sorted order; the harness never
// ranges over a map where order could reach a decision or the log.
func SortedKeys[V any](m map[string]V) []string {
	ks := make([]string, 0, len(m))
	for k := range m {
		ks = append(ks, k)
	}
	sort.Strings(ks)
	return ks
}
