// Package fixtures holds the committed key material of the simulated worlds.
package fixtures

import (
	_ "embed"
	"encoding/json"
	"strings"

	jose "github.com/go-jose/go-jose/v4"
)

//go:embed keys.json
var keysJSON []byte

var all []jose.JSONWebKey

func init() {
	var set jose.JSONWebKeySet
	if err := json.Unmarshal(keysJSON, &set); err != nil {
		panic(err)
	}
	all = set.Keys
}

// Keys returns the private fixture keys whose id starts with prefix
// ("rsa", "p256-", "p384-", "p521-", "ed").
func Keys(prefix string) []jose.JSONWebKey {
	var out []jose.JSONWebKey
	for _, k := range all {
		if strings.HasPrefix(k.KeyID, prefix) {
			out = append(out, k)
		}
	}
	return out
}

// All returns every fixture key.
func All() []jose.JSONWebKey { return append([]jose.JSONWebKey(nil), all...) }
