package props

import (
	"context"
	"encoding/json"
	"errors"
	"fmt"
	"net/url"
	"path"
	"slices"
	"strings"
	"testing"
	"time"

	"github.com/bmatcuk/doublestar/v4"
	jose "github.com/go-jose/go-jose/v4"
	"github.com/zitadel/oidc/v3/pkg/oidc"
	"github.com/zitadel/oidc/v3/pkg/op"

	"verif/sim/kernel"
	"verif/sim/world"
)

// C18: logout redirects only to post-logout URIs registered for the proven client.

type hintInfo struct {
	token   string
	kind    string
	valid   bool // signature by a published key of this provider, issuer right (expiry aside)
	azp     string
	sub     string
	expired bool
}

type c18 struct {
	w    *world.World
	o    *kernel.Outcome
	step int
	b    *world.Browser
	ids  []*grantedToken
	tw   *tokenWorld
	// key-set options of the provider (rarely used): xKey belongs to the access-token key set only, zKey to the
	// hint key set only
	atKeySet, hintKeySet *extraKeySet
	xKey, zKey           jose.JSONWebKey // zero in families with too few fixture keys
	rotations            int
}

// extraKeySet is what an operator passes to op.WithAccessTokenKeySet / op.WithIDTokenHintKeySet: the provider's own
// published keys plus one key of another token service.
type extraKeySet struct {
	store *world.Store
	extra jose.JSONWebKey
}

func (k *extraKeySet) VerifySignature(ctx context.Context, jws *jose.JSONWebSignature) ([]byte, error) {
	if k.store == nil || len(jws.Signatures) != 1 {
		return nil, errors.New("extraKeySet: not usable")
	}
	if kid := jws.Signatures[0].Header.KeyID; k.extra.Key != nil && kid == k.extra.KeyID {
		return jws.Verify(k.extra.Public())
	}
	// everything else exactly as the provider's default key set does it
	return (&op.OpenIDKeySet{Storage: k.store}).VerifySignature(ctx, jws)
}

func postLogoutAllowed(c *world.Client, uri string) bool {
	if slices.Contains(c.PostLogout, uri) {
		return true
	}
	if c.UseGlobs {
		for _, g := range c.PostLogoutGlobs {
			if m, err := path.Match(g, uri); err == nil && m {
				return true
			}
			if m, err := doublestar.Match(g, uri); err == nil && m {
				return true
			}
		}
	}
	return false
}

func (c *c18) mkHint(ch *kernel.Chooser) hintInfo {
	w := c.w
	if len(c.ids) == 0 || ch.Bool(1, 6) {
		return hintInfo{kind: "absent"}
	}
	g := c.ids[ch.Int(len(c.ids))]
	p := world.JWTPayload(g.idToken)
	exp, _ := p["exp"].(float64)
	expired := !time.Now().Before(time.Unix(int64(exp), 0))
	h := hintInfo{token: g.idToken, kind: "genuine", valid: true, azp: g.client, sub: g.subject, expired: expired}
	key := w.Store.CurrentKey()
	resign := func(mod func(m map[string]any), alg any, priv any, kid string) string {
		m := map[string]any{}
		for k, v := range p {
			m[k] = v
		}
		mod(m)
		b, _ := json.Marshal(m)
		if a, ok := alg.(jose.SignatureAlgorithm); ok {
			return signRaw(b, a, priv, kid)
		}
		return signRaw(b, key.Alg, priv, kid)
	}
	// the family of the key the storage signs with now (after a rotation it may differ from the run's first one)
	curPrefix := w.AlgPrefix
	for _, f := range world.AlgFamilies {
		if f.Alg == key.Alg {
			curPrefix = f.Prefix
		}
	}
	switch ch.Int(12) {
	case 0: // signed with a key the provider does not publish, same kid
		other := world.FixtureKey(curPrefix, (w.KeyN+1)%4)
		if curPrefix != w.AlgPrefix {
			other = world.FixtureKey(curPrefix, 0) // rotated keys of another family are fixtures 2.. of that family
		}
		h.token, h.kind, h.valid = resign(func(map[string]any) {}, nil, other.Key, key.KID), "wrong-key", false
	case 1: // right key, foreign issuer
		h.token, h.kind, h.valid = resign(func(m map[string]any) { m["iss"] = "https://other.sim" }, nil, key.Priv, key.KID), "wrong-issuer", false
	case 2: // right key, no azp: the proven client is unknown
		h.token, h.kind, h.azp = resign(func(m map[string]any) { delete(m, "azp") }, nil, key.Priv, key.KID), "no-azp", ""
	case 3: // tampered payload, old signature
		parts := strings.Split(g.idToken, ".")
		h.token, h.kind, h.valid = parts[0]+"."+b64(`{"iss":"`+w.Issuer+`","sub":"u1","aud":["web"],"azp":"web","exp":9999999999,"iat":1}`)+"."+parts[2], "tampered", false
	case 4:
		h.token, h.kind, h.valid = "garbage", "garbage", false
	case 5: // signed by the key that only the access-token key set knows: never a valid hint
		x := c.xKey
		if x.Key == nil {
			break
		}
		h.token, h.kind, h.valid = resign(func(map[string]any) {}, w.SigAlg, x.Key, "x-1"), "access-token-keyset-key", false
	case 6: // signed by the key that only the hint key set knows: valid exactly when that option is in force
		z := c.zKey
		if z.Key == nil {
			break
		}
		h.token, h.kind, h.valid = resign(func(map[string]any) {}, w.SigAlg, z.Key, "z-1"), "hint-keyset-key", c.hintKeySet != nil
		if h.valid {
			c.o.Probe("hints-signed-by-the-hint-keyset-key")
		}
	}
	if g.issuer != "" && g.issuer != w.Issuer {
		// issued by another tenant of this provider: for the tenant addressed now it is a hint of a foreign issuer
		h.valid = false
		if h.kind == "genuine" || h.kind == "no-azp" {
			h.kind = "other-tenant"
		}
		c.o.Probe("hints-of-other-tenant")
	}
	return h
}

// rotateKey: the storage starts signing with another key and keeps publishing the old one. Where the provider's
// verifiers run with the library's default algorithm list the new key may be of another default algorithm (an RSA key
// replaced by an EC key, RS256 by PS256). Hints issued before stay what they were: validly signed by a published key.
func (c *c18) rotateKey(ch *kernel.Chooser) string {
	w := c.w
	c.rotations++
	alg, prefix := w.SigAlg, w.AlgPrefix
	if w.DefaultAlgs && ch.Bool(2, 3) {
		f := []world.AlgFamily{{Alg: jose.RS256, Prefix: "rsa"}, {Alg: jose.ES256, Prefix: "p256-"}, {Alg: jose.PS256, Prefix: "rsa"}}[ch.Int(3)]
		alg, prefix = f.Alg, f.Prefix
	}
	free := world.UnusedFixtureKeys(prefix, w.KeyN, 2)
	if len(free) < 3 {
		return "rotate: no spare key of family " + prefix
	}
	k := world.SignKeyFromFixture(free[2+c.rotations%(len(free)-2)], alg, fmt.Sprintf("sig-rot-%d", c.rotations))
	w.Store.RotateKey(k, false)
	c.o.Probe("signing-key-rotated")
	if alg != w.SigAlg {
		c.o.Probe("signing-key-rotated-to-another-algorithm")
	}
	return fmt.Sprintf("storage now signs with %s (%s); the earlier keys stay published", k.KID, alg)
}

func (c *c18) logout(ch *kernel.Chooser) string {
	w := c.w
	h := c.mkHint(ch)
	clients := w.SortedClients()
	q := url.Values{}
	if h.kind != "absent" {
		q.Set("id_token_hint", h.token)
	}
	clientParam := ""
	switch ch.Int(6) {
	case 0, 1:
		if h.azp != "" {
			clientParam = h.azp
		} else {
			clientParam = clients[ch.Int(len(clients))]
		}
	case 2:
		clientParam = clients[ch.Int(len(clients))]
	case 3:
		clientParam = "nobody"
	}
	if clientParam != "" {
		q.Set("client_id", clientParam)
	}
	// the client whose registration is consulted in the reference model
	proven := ""
	if h.kind != "absent" && h.valid {
		proven = h.azp
	} else if h.kind == "absent" {
		proven = clientParam
	}
	uriOwner := proven
	if uriOwner == "" || w.Store.Clients[uriOwner] == nil || ch.Bool(1, 4) {
		uriOwner = clients[ch.Int(len(clients))]
	}
	oc := w.Store.Clients[uriOwner]
	requested, uriKind := "", "absent"
	switch ch.Int(10) {
	case 9:
		// a registered loopback address with another port, another spelling of the loopback host or another scheme:
		// what RFC 8252 allows for redirect URIs of the authorization endpoint is no rule for post-logout URIs
		for _, reg := range oc.PostLogout {
			if strings.HasPrefix(reg, "http://127.0.0.1:7777/") {
				requested = strings.Replace(reg, "http://127.0.0.1:7777/", ch.Pick("http://127.0.0.1:51234/", "http://localhost:7777/", "http://[::1]:7777/", "https://127.0.0.1:7777/", "http://127.0.0.1/"), 1)
				uriKind = "loopback-variation"
				c.o.Probe("post-logout-loopback-variations")
			}
		}
	case 0, 1, 2:
		requested, uriKind = oc.PostLogout[ch.Int(len(oc.PostLogout))], "registered-of-"+uriOwner
	case 8:
		// an exactly registered URI read as a pattern (? * classes) matches this one; as a string it does not
		reg := oc.PostLogout[ch.Int(len(oc.PostLogout))]
		requested, uriKind = strings.NewReplacer("?", "X", "*", "zz", "[ab]", "a").Replace(reg), "exact-read-as-pattern"
		if requested == reg {
			requested += "x"
		}
	case 3:
		requested, uriKind = oc.PostLogout[0]+"/x", "near-miss"
	case 4:
		requested, uriKind = strings.Replace(oc.PostLogout[0], ".sim", ".sim.evil.example", 1), "suffix-domain"
	case 5:
		if len(oc.PostLogoutGlobs) > 0 {
			requested, uriKind = strings.NewReplacer("**", "a/b", "*", "zz").Replace(oc.PostLogoutGlobs[0]), "glob-instance-of-"+uriOwner
		}
	case 6:
		requested, uriKind = "https://evil.example/bye", "foreign"
	}
	if requested != "" {
		q.Set("post_logout_redirect_uri", requested)
	}
	state := ""
	if ch.Bool(2, 3) {
		state = []string{"s1", "a b+c/d=e&f", "üñí", "x#y?z", `"quote"<>`}[ch.Int(5)]
		q.Set("state", state)
	}
	method := "GET"
	var r *world.Resp
	if ch.Bool(1, 4) {
		method = "POST"
		r = w.PostForm("/end_session", q, world.Creds{Mode: "none"})
	} else {
		r = rawGet(w, "/end_session?"+q.Encode())
	}
	desc := fmt.Sprintf("%s end_session hint=%s(azp=%q expired=%v) client_id=%q uri=%q(%s) state=%q -> %d", method, h.kind, h.azp, h.expired, clientParam, requested, uriKind, state, statusOf(r))
	if panicProbe(c.o, r) || r.Err != nil || r.Ex == nil {
		return desc
	}
	site := "router" + w.Router
	viol := func(rule, s, format string, a ...any) {
		c.o.Violate("C18", rule, site+"/"+s, c.step, "%s: %s", desc, fmt.Sprintf(format, a...))
	}
	loc := r.Ex.RespHeader.Get("Location")
	if r.Ex.Status != 302 {
		c.o.Probe("logout-rejected")
		// completeness: an expired but otherwise valid hint is still accepted for logout
		if h.kind == "genuine" && (clientParam == "" || clientParam == h.azp) && (requested == "" || postLogoutAllowed(w.Store.Clients[h.azp], requested)) {
			viol("valid-hint-rejected", "end_session", "a validly signed hint (expired=%v) with consistent parameters was rejected: %s", h.expired, firstLine(r.Ex.RespBody))
		}
		return desc
	}
	c.o.Probe("logout-redirect")
	if w.Caps.EndFromRequest {
		c.o.Probe("logout-through-the-storage's-request-capability")
	}
	if h.expired && h.kind == "genuine" {
		c.o.Probe("expired-hint-accepted")
	}
	// a hint with a bad signature or foreign issuer is rejected
	if h.kind != "absent" && !h.valid {
		viol("invalid-hint-accepted", "hint-"+h.kind, "a hint that is not validly signed by this issuer was accepted")
	}
	// a client_id contradicting the hint is rejected
	if h.kind != "absent" && h.valid && clientParam != "" && clientParam != h.azp {
		viol("contradiction-accepted", "end_session", "client_id %q contradicts the hint's authorized party %q", clientParam, h.azp)
	}
	u, err := url.Parse(loc)
	if err != nil {
		viol("unparsable-location", "end_session", "Location %q", loc)
		return desc
	}
	gotState := u.Query().Get("state")
	qq := u.Query()
	qq.Del("state")
	u.RawQuery = qq.Encode()
	target := u.String()
	if state != "" && gotState != state {
		viol("state", "end_session", "state %q arrived as %q", state, gotState)
	}
	def := w.Conf.DefaultLogoutRedirectURI
	if normalizeURI(target) != normalizeURI(def) {
		if requested == "" || normalizeURI(target) != normalizeURI(requested) {
			viol("redirect-elsewhere", "end_session", "redirected to %q which is neither the default nor the requested URI", target)
		} else {
			pc := w.Store.Clients[proven]
			if pc == nil {
				viol("unproven-client", "end_session", "redirected to the requested URI %q although no client is proven (hint %s, client_id %q)", requested, h.kind, clientParam)
			} else if !postLogoutAllowed(pc, requested) {
				viol("unregistered-post-logout-uri", "end_session", "redirected to %q which is not registered for the proven client %q (registered %v, globs opt-in=%v %v)", requested, proven, pc.PostLogout, pc.UseGlobs, pc.PostLogoutGlobs)
			} else {
				c.o.Probe("redirect-to-registered")
			}
		}
	}
	// the session terminated is that of the hint's subject and client
	var term string
	for _, j := range w.Store.JournalFor(r.Ex.ID) {
		if j.Method == "TerminateSession" {
			term = j.Args
		}
	}
	if h.kind != "absent" && h.valid {
		if term != h.sub+","+h.azp {
			viol("wrong-session", "end_session", "TerminateSession(%s), expected (%s,%s)", term, h.sub, h.azp)
		}
	} else if term != "" && !strings.HasPrefix(term, ",") {
		viol("wrong-session", "end_session-nohint", "TerminateSession(%s) without a hint proving a user", term)
	}
	return desc
}

func RunC18(t *testing.T, spec kernel.Spec) *kernel.Outcome {
	o := inBubble(t, spec, func(o *kernel.Outcome, tape *kernel.Tape) {
		tenants := 1
		if tc := tape.Sub("cfg-tenants"); tc.Bool(1, 2) {
			tenants = 2 + tc.Int(2) // one provider, several issuers (by Host or by Forwarded header behind a proxy)
		}
		// a rarely used setting: the hint verifier may be given a maximum age of its own (issued-at). A hint that is
		// too old by that rule is an expired hint like one past its exp: still good for logout.
		var opts []op.Option
		maxAge := time.Duration(0)
		if mc := tape.Sub("cfg-hint-max-age"); mc.Bool(1, 2) {
			maxAge = time.Duration(mc.Range(2, 8)) * time.Minute
			var all []string
			for _, f := range world.AlgFamilies {
				all = append(all, string(f.Alg))
			}
			opts = append(opts, op.WithIDTokenHintVerifierOpts(op.WithSupportedIDTokenHintSigningAlgorithms(all...), func(v *op.IDTokenHintVerifier) { v.MaxAgeIAT = maxAge }))
		}
		// rarely used options: a separate key set for access tokens (the provider's keys plus key x of another token
		// service), and possibly one for hints (the provider's keys plus key z). Unset, hints are checked with the
		// provider's own published keys - whatever the access-token key set is.
		var atKS, hintKS *extraKeySet
		if kc := tape.Sub("cfg-keysets"); kc.Bool(1, 2) {
			atKS = &extraKeySet{}
			opts = append(opts, op.WithAccessTokenKeySet(atKS))
			if kc.Bool(1, 2) {
				hintKS = &extraKeySet{}
				opts = append(opts, op.WithIDTokenHintKeySet(hintKS))
			}
		}
		w, err := world.NewStd(o, tape, world.StdOptions{Router: spec.Params["router"], ForceConfig: nil, Tenants: tenants, Options: opts, DefaultVerifierAlgs: maxAge == 0 && tape.Sub("cfg-default-algs").Bool(2, 3)})
		if err != nil {
			o.Infra = "world: " + err.Error()
			return
		}
		// x and z: keys of the family that the world uses for nothing else (wrong-key hints use fixture KeyN+1)
		var xKey, zKey jose.JSONWebKey
		if free := world.UnusedFixtureKeys(w.AlgPrefix, w.KeyN, 2); len(free) >= 2 {
			xKey, zKey = free[0], free[1]
			xKey.KeyID, zKey.KeyID = "x-1", "z-1"
		}
		if atKS != nil {
			atKS.store, atKS.extra = w.Store, xKey
			if xKey.Key != nil {
				o.Probe("separate-access-token-keyset")
			}
		}
		if hintKS != nil {
			hintKS.store, hintKS.extra = w.Store, zKey
			if zKey.Key != nil {
				o.Probe("separate-hint-keyset")
			}
		}
		cfg := tape.Sub("cfg2")
		for _, id := range w.SortedClients() {
			cl := w.Store.Clients[id]
			cl.PostLogoutGlobs = []string{"https://" + id + ".sim/out/*"}
			cl.UseGlobs = cfg.Bool(1, 2)
			if cfg.Bool(1, 3) {
				cl.PostLogout = append(cl.PostLogout, "https://shared.sim/bye")
			}
			// exact registrations that contain glob metacharacters are strings, not patterns
			for _, lit := range []string{"https://" + id + ".sim/bye?done=1", "https://*." + id + ".sim/bye", "https://" + id + ".sim/[ab]/bye"} {
				if cfg.Bool(1, 3) {
					cl.PostLogout = append(cl.PostLogout, lit)
				}
			}
			if cl.AppType == op.ApplicationTypeNative && cfg.Bool(2, 3) {
				cl.PostLogout = append(cl.PostLogout, "http://127.0.0.1:7777/signed-out") // a native app's loopback listener
			}
			cl.IDLifetime = time.Duration(cfg.Range(1, 20)) * time.Minute
		}
		c := &c18{w: w, o: o, b: w.Net.NewBrowser("b1"), atKeySet: atKS, hintKeySet: hintKS, xKey: xKey, zKey: zKey}
		c.tw = &tokenWorld{w: w, o: o, prop: "C18", b: c.b}
		n := 40 + tape.Sub("cfg").Int(40)
		steps(o, tape, n, func(i int, ch *kernel.Chooser) string {
			c.step, c.tw.step = i, i
			if len(w.Issuers) > 1 {
				w.UseIssuer(ch.Int(len(w.Issuers)))
			}
			if i > 3 && ch.Bool(1, 12) {
				return c.rotateKey(ch)
			}
			switch x := ch.Int(10); {
			case x < 2 || i < 2:
				d := c.tw.obtain(ch)
				c.ids = nil
				for _, g := range append(append([]*grantedToken(nil), c.tw.pool...), c.tw.dead...) {
					if g.idToken != "" {
						c.ids = append(c.ids, g)
					}
				}
				return d
			case x < 3:
				d := time.Duration(ch.Range(1, 15)) * time.Minute
				w.Advance(d)
				return fmt.Sprintf("advance %v", d)
			default:
				return c.logout(ch)
			}
		})
		o.Log = append([]string{fmt.Sprintf("config: router=%s alg=%s default=%s issuers=%v (%s) hint-max-age=%v", w.Router, w.SigAlg, w.Conf.DefaultLogoutRedirectURI, w.Issuers, w.IssuerMode, maxAge)}, o.Log...)
		o.Sample = map[string]any{"seed": spec.Seed, "router": w.Router, "steps": o.Trace}
	})
	o.Nontrivial = o.Probes["logout-redirect"] > 0 && o.Probes["logout-rejected"] > 0
	_ = oidc.ScopeOpenID
	return o
}
