package props

import (
	"context"
	"encoding/base64"
	"encoding/json"
	"fmt"
	"net/http"
	"net/http/httptest"
	"net/url"
	"os"
	"os/exec"
	"strings"
	"testing"
	"time"

	jose "github.com/go-jose/go-jose/v4"
	"golang.org/x/oauth2"

	"github.com/zitadel/oidc/v3/pkg/client"
	"github.com/zitadel/oidc/v3/pkg/client/profile"
	"github.com/zitadel/oidc/v3/pkg/client/rp"
	"github.com/zitadel/oidc/v3/pkg/client/rs"
	"github.com/zitadel/oidc/v3/pkg/client/tokenexchange"
	"github.com/zitadel/oidc/v3/pkg/oidc"
	"github.com/zitadel/oidc/v3/pkg/op"

	"verif/sim/kernel"
	"verif/sim/world"
)

// C09: malformed requests and tokens yield an error response, never a panic. The catalogue below is
// enumerated completely in every world; seeds vary the world (router, algorithm, flags, token types).

// payloadCatalogue: JSON documents used as token payloads and as peer responses.
var payloadCatalogue = []struct{ name, doc string }{
	{"null", `null`}, {"array", `[]`}, {"string", `"x"`}, {"number", `123`}, {"bool", `true`}, {"empty-object", `{}`},
	{"aud-number-array", `{"aud":[1]}`}, {"aud-number", `{"aud":1}`}, {"aud-object", `{"aud":{"a":1}}`}, {"aud-null", `{"aud":null}`},
	{"exp-string", `{"exp":"soon"}`}, {"exp-huge", `{"exp":99999999999999999999999999}`}, {"exp-fraction", `{"exp":1.5e3}`}, {"exp-negative", `{"exp":-1}`},
	{"exp-rfc3339", `{"exp":"2999-01-01T00:00:00Z"}`}, {"exp-object", `{"exp":{}}`}, {"iat-bool", `{"iat":true}`}, {"auth_time-array", `{"auth_time":[1]}`},
	{"nested-actor", `{"act":{"sub":"a","act":{"sub":"b","act":{"sub":"c","act":{}}}}}`}, {"act-string", `{"act":"me"}`},
	{"iss-null", `{"iss":null,"sub":null}`}, {"sub-number", `{"sub":7}`}, {"amr-string", `{"amr":"pwd"}`}, {"scope-number", `{"scope":5}`},
	{"locale-number", `{"locale":5}`}, {"email_verified-string", `{"email_verified":"maybe"}`}, {"address-string", `{"address":"x"}`},
	{"nonce-object", `{"nonce":{}}`}, {"azp-array", `{"azp":["a"]}`}, {"client_id-number", `{"client_id":1}`}, {"jti-array", `{"jti":[]}`},
	{"invalid-utf8", "{\"sub\":\"\xff\xfe\"}"}, {"truncated", `{"sub":"u1","aud":["we`}, {"dup-keys", `{"sub":"a","sub":"b"}`},
	{"deep", `{"a":` + strings.Repeat(`{"a":`, 50) + `1` + strings.Repeat(`}`, 51)},
	{"active-string", `{"active":"yes"}`}, {"keys-number", `{"keys":5}`}, {"keys-null-entry", `{"keys":[null]}`}, {"expires_in-string", `{"access_token":"a","expires_in":"x"}`},
	{"error-number", `{"error":5}`}, {"device-nulls", `{"device_code":null,"interval":"x"}`}, {"issuer-array", `{"issuer":["x"]}`},
}

type c09 struct {
	w     *world.World
	o     *kernel.Outcome
	step  int
	cases int
}

func (c *c09) site(s string) string { return "router" + c.w.Router + "/" + s }

// checkServer applies the oracle to one server-side exchange.
func (c *c09) checkServer(name string, r *world.Resp) {
	c.cases++
	if r == nil || r.Ex == nil {
		return
	}
	ex := r.Ex
	// the site names endpoint and case family, not the individual value
	fam := name
	if i := strings.Index(fam, "="); i >= 0 {
		fam = fam[:i]
	}
	site := c.site(ex.Path + "/" + fam)
	if strings.HasPrefix(ex.Panic, "simstore: request does not terminate") {
		c.o.Violate("C09", "non-termination", site, c.step, "%s: %s %s -> %s", name, ex.Method, ex.URL, ex.Panic)
		return
	}
	if ex.Panic != "" {
		c.o.Violate("C09", "panic", site, c.step, "%s: %s %s -> handler panicked: %s", name, ex.Method, ex.URL, ex.Panic)
		return
	}
	if ex.WriteHeaderCalls > 1 {
		c.o.Violate("C09", "double-response", site, c.step, "%s: %s %s wrote %d response headers", name, ex.Method, ex.URL, ex.WriteHeaderCalls)
	}
	if ex.CallsAtError >= 0 && ex.CallsAtEnd > ex.CallsAtError {
		c.o.Violate("C09", "continues-after-error", site, c.step, "%s: %s %s answered %d and then made %d more storage calls", name, ex.Method, ex.URL, ex.Status, ex.CallsAtEnd-ex.CallsAtError)
	}
	if ex.Status >= 400 {
		c.o.Probe("server-error-answers")
	}
}

func b64(s string) string { return base64.RawURLEncoding.EncodeToString([]byte(s)) }

// signRaw signs arbitrary payload bytes with a key (compact JWS).
func signRaw(payload []byte, alg jose.SignatureAlgorithm, key any, kid string) string {
	s, err := jose.NewSigner(jose.SigningKey{Algorithm: alg, Key: jose.JSONWebKey{Key: key, KeyID: kid}}, (&jose.SignerOptions{}).WithType("JWT"))
	if err != nil {
		panic(err)
	}
	o, err := s.Sign(payload)
	if err != nil {
		panic(err)
	}
	t, err := o.CompactSerialize()
	if err != nil {
		panic(err)
	}
	return t
}

// overlay merges a catalogue document over otherwise valid claims (when it is an object).
func overlay(valid map[string]any, doc string) []byte {
	var m map[string]any
	if json.Unmarshal([]byte(doc), &m) != nil || m == nil {
		return nil
	}
	out := map[string]any{}
	for k, v := range valid {
		out[k] = v
	}
	for k, v := range m {
		out[k] = v
	}
	b, _ := json.Marshal(out)
	return b
}

func (c *c09) run(tape *kernel.Tape) {
	w := c.w
	b := w.Net.NewBrowser("b1")
	// material from honest flows
	s, err := codeFlow(w, b, flowOpts{client: "web", scopes: []string{oidc.ScopeOpenID, oidc.ScopeEmail, oidc.ScopeOfflineAccess}})
	if err != nil {
		c.o.Logf("setup: %v", err)
		c.o.Probe("setup-failed")
		return
	}
	key := w.Store.CurrentKey()
	now := time.Now()
	validAccess := map[string]any{"iss": w.Issuer, "sub": "u1", "aud": []string{"web"}, "exp": now.Add(time.Hour).Unix(), "iat": now.Unix(), "jti": "at1", "client_id": "web", "azp": "web"}
	validAssert := map[string]any{"iss": "jwt", "sub": "jwt", "aud": []string{w.Issuer}, "exp": now.Add(time.Hour).Unix(), "iat": now.Unix()}
	ck := w.ClientKeys["jwt"]
	webBasic := world.Creds{Mode: "basic", ID: "web", Secret: "secret-web"}

	type reqCase struct {
		name string
		do   func() *world.Resp
	}
	var cases []reqCase
	add := func(name string, do func() *world.Resp) { cases = append(cases, reqCase{name, do}) }

	// ---- 1. crafted tokens at every endpoint that takes a token ----
	for _, pc := range payloadCatalogue {
		var variants [][]byte
		variants = append(variants, []byte(pc.doc))
		if ov := overlay(validAccess, pc.doc); ov != nil {
			variants = append(variants, ov)
		}
		for vi, payload := range variants {
			tok := signRaw(payload, key.Alg, key.Priv, key.KID)
			n := fmt.Sprintf("token-payload=%s/%d", pc.name, vi)
			add(n+"@userinfo", func() *world.Resp { return bearerGet(w, "/userinfo", tok) })
			add(n+"@introspect", func() *world.Resp { return w.PostForm("/oauth/introspect", url.Values{"token": {tok}}, webBasic) })
			add(n+"@revoke", func() *world.Resp { return w.PostForm("/revoke", url.Values{"token": {tok}}, webBasic) })
			add(n+"@end_session", func() *world.Resp { return rawGet(w, "/end_session?id_token_hint="+url.QueryEscape(tok)) })
			add(n+"@authorize-hint", func() *world.Resp {
				return rawGet(w, "/authorize?"+url.Values{"client_id": {"web"}, "redirect_uri": {"https://web.sim/callback"}, "response_type": {"code"}, "scope": {"openid"}, "id_token_hint": {tok}}.Encode())
			})
			for _, tt := range []oidc.TokenType{oidc.AccessTokenType, oidc.IDTokenType} {
				tt := tt
				add(n+"@exchange-subject-"+string(tt)[strings.LastIndex(string(tt), ":")+1:], func() *world.Resp {
					return w.PostForm("/oauth/token", url.Values{"grant_type": {string(oidc.GrantTypeTokenExchange)}, "subject_token": {tok}, "subject_token_type": {string(tt)}}, webBasic)
				})
			}
		}
		// as client assertion / jwt-bearer assertion / request object (signed with the client's key)
		var avariants [][]byte
		avariants = append(avariants, []byte(pc.doc))
		if ov := overlay(validAssert, pc.doc); ov != nil {
			avariants = append(avariants, ov)
		}
		for vi, payload := range avariants {
			tok := signRaw(payload, jose.RS256, ck.Key, ck.KeyID)
			n := fmt.Sprintf("assertion-payload=%s/%d", pc.name, vi)
			add(n+"@jwt-bearer", func() *world.Resp {
				return w.PostForm("/oauth/token", url.Values{"grant_type": {string(oidc.GrantTypeBearer)}, "assertion": {tok}}, world.Creds{Mode: "none"})
			})
			add(n+"@client-assertion-introspect", func() *world.Resp {
				return w.PostForm("/oauth/introspect", url.Values{"token": {s.tokens.AccessToken}}, world.Creds{Mode: "assertion", Assertion: tok})
			})
			add(n+"@client-assertion-refresh", func() *world.Resp {
				return w.PostForm("/oauth/token", url.Values{"grant_type": {"refresh_token"}, "refresh_token": {"rt-unknown"}}, world.Creds{Mode: "assertion", Assertion: tok})
			})
			add(n+"@client-assertion-revoke", func() *world.Resp {
				return w.PostForm("/revoke", url.Values{"token": {"x"}}, world.Creds{Mode: "assertion", Assertion: tok})
			})
			add(n+"@request-object", func() *world.Resp {
				return rawGet(w, "/authorize?"+url.Values{"client_id": {"jwt"}, "redirect_uri": {"https://jwt.sim/callback"}, "response_type": {"code"}, "scope": {"openid"}, "request": {tok}}.Encode())
			})
		}
	}
	// structurally broken tokens
	for _, tok := range []string{"", ".", "..", "a.b.c", "a.b", "a.b.c.d.e", b64(`{"alg":"none"}`) + "." + b64(`{}`) + ".", b64(`{"alg":"RS256"}`) + "." + b64(`null`) + "." + b64("sig"),
		b64(`null`) + "." + b64(`{}`) + "." + b64("x"), strings.Repeat("A", 70000), "\x00\xff", s.tokens.AccessToken + ".x", s.tokens.IDToken[:len(s.tokens.IDToken)/2]} {
		tok := tok
		n := "token-shape=" + short(tok)
		add(n+"@userinfo", func() *world.Resp { return bearerGet(w, "/userinfo", tok) })
		add(n+"@introspect", func() *world.Resp { return w.PostForm("/oauth/introspect", url.Values{"token": {tok}}, webBasic) })
		add(n+"@revoke", func() *world.Resp { return w.PostForm("/revoke", url.Values{"token": {tok}}, webBasic) })
		add(n+"@end_session", func() *world.Resp { return rawGet(w, "/end_session?id_token_hint="+url.QueryEscape(tok)) })
		add(n+"@exchange", func() *world.Resp {
			return w.PostForm("/oauth/token", url.Values{"grant_type": {string(oidc.GrantTypeTokenExchange)}, "subject_token": {tok}, "subject_token_type": {string(oidc.AccessTokenType)}}, webBasic)
		})
		add(n+"@jwt-bearer", func() *world.Resp {
			return w.PostForm("/oauth/token", url.Values{"grant_type": {string(oidc.GrantTypeBearer)}, "assertion": {tok}}, world.Creds{Mode: "none"})
		})
		add(n+"@code", func() *world.Resp {
			return w.PostForm("/oauth/token", url.Values{"grant_type": {"authorization_code"}, "code": {tok}, "redirect_uri": {"https://web.sim/callback"}}, webBasic)
		})
	}
	// hand-made JOSE headers over otherwise valid claims: members of the wrong JSON type, unknown critical members, embedded keys
	validAccessDoc, _ := json.Marshal(validAccess)
	validAssertDoc, _ := json.Marshal(validAssert)
	for hi, hdr := range hostileHeaders {
		if strings.Contains(hdr, "%q") {
			hdr = fmt.Sprintf(hdr, string(key.Alg))
		}
		c.o.Probe("hand-made-jose-headers")
		tok := b64(hdr) + "." + b64(string(validAccessDoc)) + "." + b64("not-a-signature")
		atok := b64(strings.ReplaceAll(hdr, string(key.Alg), "RS256")) + "." + b64(string(validAssertDoc)) + "." + b64("not-a-signature")
		n := fmt.Sprintf("token-header=%d", hi)
		add(n+"@userinfo", func() *world.Resp { return bearerGet(w, "/userinfo", tok) })
		add(n+"@introspect", func() *world.Resp { return w.PostForm("/oauth/introspect", url.Values{"token": {tok}}, webBasic) })
		add(n+"@revoke", func() *world.Resp { return w.PostForm("/revoke", url.Values{"token": {tok}}, webBasic) })
		add(n+"@end_session", func() *world.Resp { return rawGet(w, "/end_session?id_token_hint="+url.QueryEscape(tok)) })
		add(n+"@authorize-hint", func() *world.Resp {
			return rawGet(w, "/authorize?"+url.Values{"client_id": {"web"}, "redirect_uri": {"https://web.sim/callback"}, "response_type": {"code"}, "scope": {"openid"}, "id_token_hint": {tok}}.Encode())
		})
		add(n+"@exchange", func() *world.Resp {
			return w.PostForm("/oauth/token", url.Values{"grant_type": {string(oidc.GrantTypeTokenExchange)}, "subject_token": {tok}, "subject_token_type": {string(oidc.AccessTokenType)}}, webBasic)
		})
		add(n+"@jwt-bearer", func() *world.Resp {
			return w.PostForm("/oauth/token", url.Values{"grant_type": {string(oidc.GrantTypeBearer)}, "assertion": {atok}}, world.Creds{Mode: "none"})
		})
		add(n+"@client-assertion-introspect", func() *world.Resp {
			return w.PostForm("/oauth/introspect", url.Values{"token": {s.tokens.AccessToken}}, world.Creds{Mode: "assertion", Assertion: atok})
		})
		add(n+"@request-object", func() *world.Resp {
			return rawGet(w, "/authorize?"+url.Values{"client_id": {"jwt"}, "redirect_uri": {"https://jwt.sim/callback"}, "response_type": {"code"}, "scope": {"openid"}, "request": {atok}}.Encode())
		})
	}
	// genuine tokens at the wrong place (opaque access token as exchange subject, refresh as access ...)
	genuine := map[string]string{"access": s.tokens.AccessToken, "refresh": s.tokens.RefreshToken, "id": s.tokens.IDToken, "code": s.code}
	for _, name := range kernel.SortedKeys(genuine) {
		name, tok := name, genuine[name]
		for _, tt := range []oidc.TokenType{oidc.AccessTokenType, oidc.RefreshTokenType, oidc.IDTokenType, oidc.JWTTokenType, "urn:x"} {
			tt := tt
			add("genuine-"+name+"-as="+string(tt), func() *world.Resp {
				return w.PostForm("/oauth/token", url.Values{"grant_type": {string(oidc.GrantTypeTokenExchange)}, "subject_token": {tok}, "subject_token_type": {string(tt)},
					"actor_token": {tok}, "actor_token_type": {string(tt)}}, webBasic)
			})
		}
		add("genuine-"+name+"@userinfo", func() *world.Resp { return bearerGet(w, "/userinfo", tok) })
		add("genuine-"+name+"@hint", func() *world.Resp { return rawGet(w, "/end_session?id_token_hint="+url.QueryEscape(tok)) })
	}

	// ---- 2. malformed client credentials and bodies at every POST endpoint, every grant type ----
	grants := []string{"authorization_code", "refresh_token", "client_credentials", string(oidc.GrantTypeBearer), string(oidc.GrantTypeTokenExchange), string(oidc.GrantTypeDeviceCode), "implicit", "password", "", "x y"}
	basics := []string{"web%zz:secret-web", "web:secret%zz", "%:%", "web", ":", "web:secret-web:extra", "we%20b:secret-web", strings.Repeat("a", 5000) + ":b", "web:\x00", "wéb:sécret"}
	paths := []string{"/oauth/token", "/oauth/introspect", "/revoke", "/device_authorization"}
	for _, path := range paths {
		for _, gt := range grants {
			for _, ba := range basics {
				path, gt, ba := path, gt, ba
				if path != "/oauth/token" && gt != "authorization_code" && gt != "" {
					continue
				}
				add(fmt.Sprintf("basic=%s grant=%q @%s", short(ba), gt, path), func() *world.Resp {
					f := url.Values{"grant_type": {gt}, "code": {"c"}, "refresh_token": {"r"}, "token": {"t"}, "device_code": {"d"}, "assertion": {"a"}, "subject_token": {"s"}, "subject_token_type": {string(oidc.AccessTokenType)}, "redirect_uri": {"https://web.sim/callback"}}
					return w.PostForm(path, f, world.Creds{Mode: "basic", RawBasic: ba})
				})
			}
			path, gt := path, gt
			for _, body := range []string{"a=%zz", "grant_type=" + url.QueryEscape(gt) + "&a=%zz", "grant_type=" + url.QueryEscape(gt) + "&scope=%GG", "%", "grant_type=" + url.QueryEscape(gt) + "&grant_type=" + url.QueryEscape(gt) + "&code=a&code=b",
				"grant_type=" + url.QueryEscape(gt) + "&client_id=web&client_id=pub&client_secret=secret-web", "grant_type=" + url.QueryEscape(gt) + "&" + strings.Repeat("x=y&", 2000), "grant_type=" + url.QueryEscape(gt) + "&scope=" + strings.Repeat("a+", 5000),
				"grant_type=" + url.QueryEscape(gt) + "&client_assertion=x&client_assertion_type=wrong", "grant_type=" + url.QueryEscape(gt) + "&client_assertion=&client_assertion_type=" + url.QueryEscape(oidc.ClientAssertionTypeJWTAssertion)} {
				body := body
				for _, auth := range []string{"none", "basic"} {
					auth := auth
					add(fmt.Sprintf("body=%s auth=%s @%s", short(body), auth, path), func() *world.Resp {
						req, _ := http.NewRequest("POST", w.Issuer+path, strings.NewReader(body))
						req.Header.Set("Content-Type", "application/x-www-form-urlencoded")
						if auth == "basic" {
							req.SetBasicAuth("web", "secret-web")
						}
						return w.DoRaw(req)
					})
				}
			}
		}
	}
	// ---- 3. every route x method x odd content types / queries ----
	routes := []string{"/.well-known/openid-configuration", "/authorize", "/authorize/callback", "/oauth/token", "/oauth/introspect", "/userinfo", "/revoke", "/end_session", "/keys", "/device_authorization", "/healthz", "/ready", "/login", "/nope"}
	for _, route := range routes {
		for _, method := range []string{"GET", "POST", "PUT", "DELETE", "HEAD", "OPTIONS", "PATCH"} {
			for qi, q := range []string{"", "?a=%zz", "?id=&id=", "?client_id=web&redirect_uri=https%3A%2F%2Fweb.sim%2Fcallback&response_type=code&scope=openid&max_age=-1", "?client_id=web&redirect_uri=https%3A%2F%2Fweb.sim%2Fcallback&response_type=code&scope=openid&prompt=none+login&ui_locales=%FF",
				"?client_id=web&redirect_uri=https%3A%2F%2Fweb.sim%2Fcallback&response_type=code&scope=openid&max_age=99999999999999999999", "?id=" + strings.Repeat("9", 3000), "?post_logout_redirect_uri=%zz&state=%00", "?access_token=x", "?" + strings.Repeat("a=b&", 3000)} {
				route, method, q, qi := route, method, q, qi
				add(fmt.Sprintf("route=%s %s q%d", method, route, qi), func() *world.Resp {
					var body *strings.Reader
					if method == "POST" || method == "PUT" || method == "PATCH" {
						body = strings.NewReader("{\"json\":true}")
					} else {
						body = strings.NewReader("")
					}
					req, err := http.NewRequest(method, w.Issuer+route+q, body)
					if err != nil {
						return &world.Resp{Err: err}
					}
					if method == "POST" {
						req.Header.Set("Content-Type", []string{"application/json", "multipart/form-data; boundary=x", "application/x-www-form-urlencoded", ""}[qi%4])
					}
					if qi%3 == 0 {
						req.Header.Set("Authorization", []string{"Bearer", "Bearer ", "Bearer a Bearer b", "Basic !!!", "Basic " + base64.StdEncoding.EncodeToString([]byte("web")), "bearer x"}[qi%6])
					}
					return w.DoRaw(req)
				})
			}
		}
	}
	// ---- 3b. the well-formed requests themselves (provider configurations may be degenerate) ----
	add("wellformed=device_authorization", func() *world.Resp {
		return w.PostForm("/device_authorization", url.Values{"scope": {"openid"}}, webBasic)
	})
	add("wellformed=device_authorization-public", func() *world.Resp {
		return w.PostForm("/device_authorization", url.Values{"scope": {"openid"}}, world.Creds{Mode: "id-only", ID: "pub"})
	})
	add("wellformed=client_credentials", func() *world.Resp {
		return w.PostForm("/oauth/token", url.Values{"grant_type": {"client_credentials"}, "scope": {"api"}}, webBasic)
	})
	add("wellformed=introspect", func() *world.Resp {
		return w.PostForm("/oauth/introspect", url.Values{"token": {s.tokens.AccessToken}}, webBasic)
	})
	add("wellformed=userinfo", func() *world.Resp { return bearerGet(w, "/userinfo", s.tokens.AccessToken) })
	add("wellformed=exchange-opaque-or-jwt-access", func() *world.Resp {
		return w.PostForm("/oauth/token", url.Values{"grant_type": {string(oidc.GrantTypeTokenExchange)}, "subject_token": {s.tokens.AccessToken}, "subject_token_type": {string(oidc.AccessTokenType)},
			"actor_token": {s.tokens.AccessToken}, "actor_token_type": {string(oidc.AccessTokenType)}}, webBasic)
	})
	add("wellformed=discovery", func() *world.Resp { return rawGet(w, "/.well-known/openid-configuration") })
	add("wellformed=keys", func() *world.Resp { return rawGet(w, "/keys") })
	add("wellformed=refresh", func() *world.Resp {
		return w.PostForm("/oauth/token", url.Values{"grant_type": {"refresh_token"}, "refresh_token": {s.tokens.RefreshToken}}, webBasic)
	})
	// ---- 4. seeded random mutation of valid requests ----
	ch := tape.Sub("mutate")
	validForms := []struct {
		path string
		form url.Values
	}{
		{"/oauth/token", url.Values{"grant_type": {"refresh_token"}, "refresh_token": {s.tokens.RefreshToken}}},
		{"/oauth/token", url.Values{"grant_type": {"client_credentials"}, "scope": {"api"}}},
		{"/oauth/introspect", url.Values{"token": {s.tokens.AccessToken}}},
		{"/revoke", url.Values{"token": {"zzz"}}},
		{"/device_authorization", url.Values{"scope": {"openid"}}},
		{"/oauth/token", url.Values{"grant_type": {string(oidc.GrantTypeTokenExchange)}, "subject_token": {s.tokens.IDToken}, "subject_token_type": {string(oidc.IDTokenType)}}},
	}
	for i := 0; i < 150; i++ {
		vf := validForms[ch.Int(len(validForms))]
		f := url.Values{}
		for k, v := range vf.form {
			f[k] = v
		}
		keys := kernel.SortedKeys(f)
		k := keys[ch.Int(len(keys))]
		mut := ch.Int(7)
		switch mut {
		case 0:
			f.Del(k)
		case 1:
			f[k] = append(f[k], f[k][0])
		case 2:
			f.Set(k, f.Get(k)+"\x00")
		case 3:
			f.Set(k, "")
		case 4:
			v := []byte(f.Get(k))
			if len(v) > 0 {
				v[ch.Int(len(v))] ^= byte(1 << ch.Int(7))
			}
			f.Set(k, string(v))
		case 5:
			f.Set(k, strings.Repeat(f.Get(k), 50))
		case 6:
			f.Set("grant_type", grants[ch.Int(len(grants))])
		}
		path := vf.path
		add(fmt.Sprintf("mutate=%d %s %s", mut, k, path), func() *world.Resp { return w.PostForm(path, f, webBasic) })
	}

	// ---- 5. genuine artefacts that have aged: time passes, then every sink sees them again ----
	// (an expired token is not a malformed one, but it takes the verifiers down other branches: claims may be absent
	// where an error is tolerated)
	aged := map[string]string{}
	for _, cl := range []struct {
		id  string
		jwt bool
	}{{"native", true}, {"pub", false}} {
		c0 := w.Store.Clients[cl.id]
		old := c0.TokenType
		c0.TokenType = op.AccessTokenTypeBearer
		if cl.jwt {
			c0.TokenType = op.AccessTokenTypeJWT
		}
		if s2, err := codeFlow(w, b, flowOpts{client: cl.id, scopes: []string{oidc.ScopeOpenID, oidc.ScopeEmail, oidc.ScopeOfflineAccess}}); err == nil {
			kind := map[bool]string{true: "jwt", false: "opaque"}[cl.jwt]
			aged["access-"+kind+"-of-"+cl.id] = s2.tokens.AccessToken
			aged["id-of-"+cl.id] = s2.tokens.IDToken
			if s2.tokens.RefreshToken != "" {
				aged["refresh-of-"+cl.id] = s2.tokens.RefreshToken
			}
		}
		if s3, err := authorizeToCode(w, b, flowOpts{client: cl.id}); err == nil {
			aged["code-of-"+cl.id] = s3.code
		}
		c0.TokenType = old
	}
	// fresh genuine codes redeemed with every combination of "challenge at authorization" and "verifier at redemption"
	// (also the ones that make no sense: a verifier nobody asked for, none where one is due, an empty one, two of them)
	for _, client := range []string{"web", "native", "odd"} {
		for _, chal := range []string{"none", "S256", "plain"} {
			for _, ver := range []string{"right", "none", "wrong", "empty", "twice", "stray"} {
				client, chal, ver := client, chal, ver
				if (ver == "stray") != (chal == "none") && ver != "none" && ver != "empty" {
					continue // "stray" only without a challenge, right/wrong/twice only with one
				}
				add(fmt.Sprintf("fresh-code/%s/challenge=%s/verifier=%s", client, chal, ver), func() *world.Resp {
					b := w.Net.NewBrowser("fc")
					s, err := authorizeToCode(w, b, flowOpts{client: client, scopes: []string{oidc.ScopeOpenID}, pkce: chal})
					if err != nil || s.code == "" {
						return nil
					}
					c.o.Probe("fresh-codes-redeemed-with-verifier-anomalies")
					f := url.Values{"grant_type": {"authorization_code"}, "code": {s.code}, "redirect_uri": {s.redirect}}
					switch ver {
					case "right":
						f.Set("code_verifier", s.verifier)
					case "wrong", "stray":
						f.Set("code_verifier", "a-verifier-nobody-knows-0123456789-0123456789-0123456789")
					case "empty":
						f.Set("code_verifier", "")
					case "twice":
						f["code_verifier"] = []string{s.verifier, "second-verifier-0123456789-0123456789-0123456789-01234"}
					}
					return w.PostForm("/oauth/token", f, w.RightCreds(client))
				})
			}
		}
	}
	for round, d := range []time.Duration{w.Store.AccessLifetime + time.Minute, 7 * time.Hour} {
		d := d
		add(fmt.Sprintf("aged=advance-clock-%d", round), func() *world.Resp {
			w.Advance(d)
			c.o.Probe("clock-advanced-for-aged-tokens")
			return nil
		})
		for _, name := range kernel.SortedKeys(aged) {
			name, tok := name, aged[name]
			owner := name[strings.LastIndex(name, "-")+1:]
			creds := world.Creds{Mode: "id-only", ID: owner}
			n := fmt.Sprintf("aged=%s/%d", name, round)
			add(n+"@userinfo", func() *world.Resp { return bearerGet(w, "/userinfo", tok) })
			add(n+"@introspect", func() *world.Resp { return w.PostForm("/oauth/introspect", url.Values{"token": {tok}}, webBasic) })
			for _, hint := range []string{"", "access_token", "refresh_token"} {
				hint := hint
				add(n+"@revoke-hint-"+hint, func() *world.Resp {
					f := url.Values{"token": {tok}}
					if hint != "" {
						f.Set("token_type_hint", hint)
					}
					return w.PostForm("/revoke", f, creds)
				})
			}
			add(n+"@end_session", func() *world.Resp { return rawGet(w, "/end_session?id_token_hint="+url.QueryEscape(tok)) })
			add(n+"@authorize-hint", func() *world.Resp {
				return rawGet(w, "/authorize?"+url.Values{"client_id": {"web"}, "redirect_uri": {"https://web.sim/callback"}, "response_type": {"code"}, "scope": {"openid"}, "id_token_hint": {tok}}.Encode())
			})
			for _, tt := range []oidc.TokenType{oidc.AccessTokenType, oidc.RefreshTokenType, oidc.IDTokenType} {
				tt := tt
				add(n+"@exchange-as-"+string(tt)[strings.LastIndex(string(tt), ":")+1:], func() *world.Resp {
					return w.PostForm("/oauth/token", url.Values{"grant_type": {string(oidc.GrantTypeTokenExchange)}, "subject_token": {tok}, "subject_token_type": {string(tt)},
						"actor_token": {tok}, "actor_token_type": {string(tt)}}, webBasic)
				})
			}
			add(n+"@refresh", func() *world.Resp {
				return w.PostForm("/oauth/token", url.Values{"grant_type": {"refresh_token"}, "refresh_token": {tok}}, creds)
			})
			add(n+"@code", func() *world.Resp {
				return w.PostForm("/oauth/token", url.Values{"grant_type": {"authorization_code"}, "code": {tok}, "redirect_uri": {w.Store.Clients[owner].Redirects[0]},
					"code_verifier": {"verifier.0123456789_abcdefghijklmnopqrstuvwxyz~ABCDEFGHIJ-" + owner}}, creds)
			})
		}
	}

	for i, cs := range cases {
		if c.o.Spec.KeepSet && !containsInt(c.o.Spec.Keep, i) {
			continue
		}
		c.step = i
		r := cs.do()
		c.o.StepIDs = append(c.o.StepIDs, i)
		c.o.Steps++
		c.checkServer(cs.name, r)
	}
	c.o.ProbeN("server-cases", len(c.o.StepIDs))
	c.clientSide(len(cases), s)
}

// ---- client side: faulty or hostile peer answers ----

type hostile struct {
	status int
	body   string
	ctype  string
	delay  time.Duration // the peer is slow: it answers after this long, or when the client has gone
	// paths: answers for single paths that differ from the general one (a peer that behaves at one endpoint and
	// misbehaves at the next)
	paths map[string]*hostile
}

func (h *hostile) ServeHTTP(w http.ResponseWriter, r *http.Request) {
	if o := h.paths[r.URL.Path]; o != nil {
		o.ServeHTTP(w, r)
		return
	}
	if h.delay > 0 {
		t := time.NewTimer(h.delay)
		select {
		case <-t.C:
		case <-r.Context().Done():
		}
		t.Stop()
	}
	if h.ctype != "" {
		w.Header().Set("Content-Type", h.ctype)
	}
	if h.status >= 300 && h.status < 400 {
		w.Header().Set("Location", "https://evil.sim/next")
	}
	w.WriteHeader(h.status)
	w.Write([]byte(h.body))
}

func (c *c09) clientSide(base int, s *session) {
	w := c.w
	h := &hostile{}
	w.Net.Hosts["evil.sim"] = h
	hc := w.Net.Client("victim", nil, false)
	ctx := context.Background()
	issuer := "https://evil.sim"
	goodDisc := fmt.Sprintf(`{"issuer":%q,"authorization_endpoint":"https://evil.sim/authorize","token_endpoint":"https://evil.sim/token","jwks_uri":"https://evil.sim/keys","userinfo_endpoint":"https://evil.sim/userinfo","introspection_endpoint":"https://evil.sim/introspect","revocation_endpoint":"https://evil.sim/revoke","end_session_endpoint":"https://evil.sim/end","device_authorization_endpoint":"https://evil.sim/device"}`, issuer)
	ck := w.ClientKeys["jwt"]
	signer, _ := jose.NewSigner(jose.SigningKey{Algorithm: jose.RS256, Key: jose.JSONWebKey{Key: ck.Key, KeyID: ck.KeyID}}, (&jose.SignerOptions{}).WithType("JWT"))

	// an RP / RS / exchanger built against a well-behaved document, then the peer turns hostile
	h.status, h.body = 200, goodDisc
	party, err := rp.NewRelyingPartyOIDC(ctx, issuer, "web", "secret", "https://web.sim/callback", []string{"openid"}, rp.WithHTTPClient(hc), rp.WithLogger(world.Discard))
	if err != nil {
		c.o.Logf("client-side setup: %v", err)
		c.o.Probe("setup-failed")
		return
	}
	server, err1 := rs.NewResourceServerClientCredentials(ctx, issuer, "web", "secret", rs.WithClient(hc))
	exch, err2 := tokenexchange.NewTokenExchangerClientCredentials(ctx, issuer, "web", "secret", tokenexchange.WithHTTPClient(hc))
	if err1 != nil || err2 != nil {
		c.o.Logf("client-side setup: %v %v", err1, err2)
		c.o.Probe("setup-failed")
		return
	}
	keyPEM := []byte(nil)
	_ = keyPEM

	// what a well-behaved provider at evil.sim would answer: a key set and a token response with an ID token signed by it
	idKey := world.FixtureKey("rsa", 0)
	idPub := idKey.Public()
	idPub.KeyID, idPub.Use, idPub.Algorithm = "k1", "sig", "RS256"
	pubJSON, _ := idPub.MarshalJSON()
	jwksDoc := `{"keys":[` + string(pubJSON) + `]}`
	goodTokenAnswer := func() string {
		now := time.Now()
		pl, _ := json.Marshal(map[string]any{"iss": issuer, "sub": "u1", "aud": []string{"web"}, "azp": "web", "exp": now.Add(time.Hour).Unix(), "iat": now.Unix()})
		return `{"access_token":"at","token_type":"Bearer","expires_in":300,"id_token":"` + signRaw(pl, jose.RS256, idKey.Key, "k1") + `"}`
	}
	cbHandler := rp.CodeExchangeHandler(rp.UserinfoCallback(func(rw http.ResponseWriter, r *http.Request, tokens *oidc.Tokens[*oidc.IDTokenClaims], state string, _ rp.RelyingParty, info *oidc.UserInfo) {
		fmt.Fprintf(rw, "welcome %s", info.Subject)
	}), party)
	helpers := []struct {
		name string
		call func() error
	}{
		{"client.Discover", func() error { _, err := client.Discover(ctx, issuer, hc); return err }},
		{"rp.NewRelyingPartyOIDC", func() error {
			_, err := rp.NewRelyingPartyOIDC(ctx, issuer, "web", "secret", "https://web.sim/callback", []string{"openid"}, rp.WithHTTPClient(hc), rp.WithLogger(world.Discard))
			return err
		}},
		{"rs.NewResourceServerClientCredentials", func() error {
			_, err := rs.NewResourceServerClientCredentials(ctx, issuer, "web", "secret", rs.WithClient(hc))
			return err
		}},
		{"tokenexchange.NewTokenExchanger", func() error {
			_, err := tokenexchange.NewTokenExchanger(ctx, issuer, tokenexchange.WithHTTPClient(hc))
			return err
		}},
		{"rp.CodeExchange", func() error { _, err := rp.CodeExchange[*oidc.IDTokenClaims](ctx, "code", party); return err }},
		{"rp.RefreshTokens", func() error { _, err := rp.RefreshTokens[*oidc.IDTokenClaims](ctx, party, "rt", "", ""); return err }},
		{"rp.Userinfo", func() error { _, err := rp.Userinfo[*oidc.UserInfo](ctx, "at", "Bearer", "u1", party); return err }},
		{"rp.ClientCredentials", func() error { _, err := rp.ClientCredentials(ctx, party, nil); return err }},
		{"rp.EndSession", func() error { _, err := rp.EndSession(ctx, party, "idt", "", ""); return err }},
		{"rp.RevokeToken", func() error { return rp.RevokeToken(ctx, party, "t", "access_token") }},
		{"rp.DeviceAuthorization", func() error { _, err := rp.DeviceAuthorization(ctx, []string{"openid"}, party, nil); return err }},
		{"client.CallDeviceAccessTokenEndpoint", func() error {
			_, err := client.CallDeviceAccessTokenEndpoint(ctx, &client.DeviceAccessTokenRequest{DeviceAccessTokenRequest: oidc.DeviceAccessTokenRequest{GrantType: oidc.GrantTypeDeviceCode, DeviceCode: "d"},
				ClientCredentialsRequest: &oidc.ClientCredentialsRequest{ClientID: "web", ClientSecret: "s"}}, tokenCaller{"https://evil.sim/token", hc})
			return err
		}},
		{"rs.Introspect", func() error { _, err := rs.Introspect[*oidc.IntrospectionResponse](ctx, server, "t"); return err }},
		{"tokenexchange.ExchangeToken", func() error {
			_, err := tokenexchange.ExchangeToken(ctx, exch, "st", oidc.AccessTokenType, "", "", nil, nil, nil, oidc.AccessTokenType)
			return err
		}},
		{"client.JWTProfileExchange", func() error {
			_, err := client.JWTProfileExchange(ctx, &oidc.JWTProfileGrantRequest{Assertion: "a", GrantType: oidc.GrantTypeBearer}, tokenCaller{"https://evil.sim/token", hc})
			return err
		}},
		{"profile.TokenSource", func() error {
			ts, err := profile.NewJWTProfileTokenSource(ctx, issuer, "jwt", ck.KeyID, rsaPEM(ck), []string{"openid"}, profile.WithHTTPClient(hc), profile.WithStaticTokenEndpoint(issuer, "https://evil.sim/token"))
			if err != nil {
				return err
			}
			_, err = ts.TokenCtx(ctx)
			return err
		}},
		{"rp.DeviceAccessToken-polling-loop", func() error {
			_, err := rp.DeviceAccessToken(ctx, "device-code", time.Second, party)
			return err
		}},
		// the relying party's HTTP handlers, wired as the example application wires them: the code exchange handler
		// with the userinfo callback. First every answer of the peer is the hostile one (token endpoint included), then
		// the peer answers the token request and the key request properly and misbehaves at the userinfo endpoint.
		{"rp.CodeExchangeHandler(UserinfoCallback)/hostile-token-endpoint", func() error {
			rec := httptest.NewRecorder()
			cbHandler.ServeHTTP(rec, httptest.NewRequest("GET", "https://web.sim/callback?code=c&state=s", nil).WithContext(ctx))
			return fmt.Errorf("status %d", rec.Code)
		}},
		{"rp.CodeExchangeHandler(UserinfoCallback)/hostile-userinfo-endpoint", func() error {
			h.paths = map[string]*hostile{"/token": {status: 200, body: goodTokenAnswer(), ctype: "application/json"}, "/keys": {status: 200, body: jwksDoc, ctype: "application/json"}}
			defer func() { h.paths = nil }()
			rec := httptest.NewRecorder()
			cbHandler.ServeHTTP(rec, httptest.NewRequest("GET", "https://web.sim/callback?code=c&state=s", nil).WithContext(ctx))
			if rec.Code == 200 {
				c.o.Probe("rp-handler-reached-the-userinfo-callback")
			}
			return fmt.Errorf("status %d", rec.Code)
		}},
		// the client side of the device grant as the example application runs it: the polling interval is what the
		// provider's answer says (the member is optional, and a peer may say 0 or a negative number); the first poll
		// is answered access_denied so that the loop ends
		{"rp.DeviceAuthorization->rp.DeviceAccessToken(interval from the answer)", func() error {
			resp, err := rp.DeviceAuthorization(ctx, []string{"openid"}, party, nil)
			if err != nil || resp == nil {
				return err
			}
			c.o.Probe("device-poll-with-the-peer's-interval")
			h.paths = map[string]*hostile{"/token": {status: 400, body: `{"error":"access_denied"}`, ctype: "application/json"}}
			defer func() { h.paths = nil }()
			pctx, cancel := context.WithTimeout(ctx, 30*time.Second)
			defer cancel()
			_, err = rp.DeviceAccessToken(pctx, resp.DeviceCode, time.Duration(resp.Interval)*time.Second, party)
			return err
		}},
		{"oauth2 via rp (auto-detect)", func() error {
			cfg := *party.OAuthConfig()
			cfg.Endpoint.AuthStyle = oauth2.AuthStyleAutoDetect
			_, err := cfg.Exchange(context.WithValue(ctx, oauth2.HTTPClient, hc), "code")
			return err
		}},
	}
	_ = signer
	answers := hostileAnswers(goodDisc, issuer, s.tokens.IDToken)
	id := base
	for _, hp := range helpers {
		for ai := range answers {
			id++
			if c.o.Spec.KeepSet && !containsInt(c.o.Spec.Keep, id) {
				continue
			}
			a := answers[ai]
			*h = a
			c.step = id
			c.o.StepIDs = append(c.o.StepIDs, id)
			c.o.Steps++
			c.cases++
			func() {
				defer func() {
					if r := recover(); r != nil {
						c.o.Violate("C09", "panic", "client/"+hp.name, id, "%s panicked when the provider answered %d %q: %v", hp.name, a.status, firstLine(a.body), r)
					}
				}()
				if err := hp.call(); err != nil {
					c.o.Probe("client-errors-returned")
				}
			}()
		}
	}
	c.o.ProbeN("client-cases", len(helpers)*len(answers))
	// a slow peer: it answers later than the helper (or its caller) is willing to wait, or just late. Whatever a
	// helper does about that - retry, give up, report - it returns; it does not panic.
	slow := []struct {
		name     string
		answer   hostile
		patience time.Duration
	}{
		{"late pending answer, patient caller", hostile{400, `{"error":"authorization_pending"}`, "application/json", 3 * time.Second, nil}, 40 * time.Second},
		{"answer after the caller's deadline", hostile{200, goodDisc, "application/json", 30 * time.Second, nil}, 5 * time.Second},
		{"late slow_down answer, patient caller", hostile{400, `{"error":"slow_down"}`, "application/json", 2 * time.Second, nil}, 25 * time.Second},
	}
	for _, hp := range helpers {
		for si, sl := range slow {
			id++
			if c.o.Spec.KeepSet && !containsInt(c.o.Spec.Keep, id) {
				continue
			}
			*h = sl.answer
			c.step = id
			c.o.StepIDs = append(c.o.StepIDs, id)
			c.o.Steps++
			c.cases++
			var cancel context.CancelFunc
			ctx, cancel = context.WithTimeout(context.Background(), sl.patience)
			func() {
				defer func() {
					if r := recover(); r != nil {
						c.o.Violate("C09", "panic", "client/"+hp.name+"/slow-peer", id, "%s panicked with a slow provider (%s): %v", hp.name, slow[si].name, r)
					}
				}()
				if err := hp.call(); err != nil {
					c.o.Probe("client-errors-returned")
				}
			}()
			cancel()
			c.o.Probe("slow-peer-cases")
		}
	}
	ctx = context.Background()
	*h = hostile{status: 200, body: goodDisc, ctype: "application/json"}
	c.decoders(id)
}

type tokenCaller struct {
	url string
	c   *http.Client
}

func (t tokenCaller) TokenEndpoint() string    { return t.url }
func (t tokenCaller) HttpClient() *http.Client { return t.c }

// decoders: every catalogue document into every claims / response type and the standalone verifiers.
func (c *c09) decoders(base int) {
	w := c.w
	key := w.Store.CurrentKey()
	targets := []struct {
		name string
		mk   func() any
	}{
		{"IDTokenClaims", func() any { return new(oidc.IDTokenClaims) }}, {"AccessTokenClaims", func() any { return new(oidc.AccessTokenClaims) }},
		{"TokenClaims", func() any { return new(oidc.TokenClaims) }}, {"UserInfo", func() any { return new(oidc.UserInfo) }},
		{"IntrospectionResponse", func() any { return new(oidc.IntrospectionResponse) }}, {"JWTTokenRequest", func() any { return new(oidc.JWTTokenRequest) }},
		{"JWTProfileAssertionClaims", func() any { return new(oidc.JWTProfileAssertionClaims) }}, {"LogoutTokenClaims", func() any { return new(oidc.LogoutTokenClaims) }},
		{"RequestObject", func() any { return new(oidc.RequestObject) }}, {"DiscoveryConfiguration", func() any { return new(oidc.DiscoveryConfiguration) }},
		{"AccessTokenResponse", func() any { return new(oidc.AccessTokenResponse) }}, {"DeviceAuthorizationResponse", func() any { return new(oidc.DeviceAuthorizationResponse) }},
		{"TokenExchangeResponse", func() any { return new(oidc.TokenExchangeResponse) }}, {"Audience", func() any { return new(oidc.Audience) }},
		{"Time", func() any { return new(oidc.Time) }}, {"Locale", func() any { return new(oidc.Locale) }}, {"Locales", func() any { return new(oidc.Locales) }},
		{"SpaceDelimitedArray", func() any { return new(oidc.SpaceDelimitedArray) }}, {"ActorClaims", func() any { return new(oidc.ActorClaims) }}, {"Error", func() any { return new(oidc.Error) }},
	}
	id := base
	docs := make([]string, 0, len(payloadCatalogue)*2)
	for _, pc := range payloadCatalogue {
		docs = append(docs, pc.doc)
		var m map[string]any
		if json.Unmarshal([]byte(pc.doc), &m) == nil {
			for _, v := range m { // the bare member value too (for scalar types such as Audience, Time, Locale)
				b, _ := json.Marshal(v)
				docs = append(docs, string(b))
				break
			}
		}
	}
	for _, tg := range targets {
		for _, doc := range docs {
			id++
			if c.o.Spec.KeepSet && !containsInt(c.o.Spec.Keep, id) {
				continue
			}
			c.o.StepIDs = append(c.o.StepIDs, id)
			c.o.Steps++
			c.cases++
			func() {
				defer func() {
					if r := recover(); r != nil {
						c.o.Violate("C09", "panic", "decoder/"+tg.name, id, "json.Unmarshal of %q into oidc.%s panicked: %v", firstLine(doc), tg.name, r)
					}
				}()
				v := tg.mk()
				_ = json.Unmarshal([]byte(doc), v)
				_, _ = json.Marshal(v)
			}()
		}
	}
	// standalone verifiers over a static key set
	ctx := context.Background()
	static := staticKeySet{keys: []jose.JSONWebKey{{Key: key.Pub, KeyID: key.KID, Use: "sig", Algorithm: string(key.Alg)}}}
	idv := rp.NewIDTokenVerifier(w.Issuer, "web", static, rp.WithSupportedSigningAlgorithms(string(key.Alg)))
	atv := op.NewAccessTokenVerifier(w.Issuer, static, op.WithSupportedAccessTokenSigningAlgorithms(string(key.Alg)))
	hv := op.NewIDTokenHintVerifier(w.Issuer, static, op.WithSupportedIDTokenHintSigningAlgorithms(string(key.Alg)))
	for _, pc := range payloadCatalogue {
		tok := signRaw([]byte(pc.doc), key.Alg, key.Priv, key.KID)
		for vi, vf := range []struct {
			name string
			call func() error
		}{
			{"rp.VerifyIDToken", func() error { _, err := rp.VerifyIDToken[*oidc.IDTokenClaims](ctx, tok, idv); return err }},
			{"rp.VerifyTokens", func() error { _, err := rp.VerifyTokens[*oidc.IDTokenClaims](ctx, "at", tok, idv); return err }},
			{"op.VerifyAccessToken", func() error { _, err := op.VerifyAccessToken[*oidc.AccessTokenClaims](ctx, tok, atv); return err }},
			{"op.VerifyIDTokenHint", func() error { _, err := op.VerifyIDTokenHint[*oidc.IDTokenClaims](ctx, tok, hv); return err }},
			{"oidc.ParseToken", func() error { _, err := oidc.ParseToken(tok, new(oidc.IDTokenClaims)); return err }},
		} {
			id++
			_ = vi
			if c.o.Spec.KeepSet && !containsInt(c.o.Spec.Keep, id) {
				continue
			}
			c.o.StepIDs = append(c.o.StepIDs, id)
			c.o.Steps++
			c.cases++
			func() {
				defer func() {
					if r := recover(); r != nil {
						c.o.Violate("C09", "panic", "verifier/"+vf.name, id, "%s panicked on a token with payload %s: %v", vf.name, pc.name, r)
					}
				}()
				_ = vf.call()
			}()
		}
	}
	// the same verifiers over hand-made headers with unobjectionable claims
	nowU := time.Now().Unix()
	goodDoc, _ := json.Marshal(map[string]any{"iss": w.Issuer, "sub": "u1", "aud": []string{"web"}, "azp": "web", "client_id": "web", "iat": nowU, "exp": nowU + 3600, "auth_time": nowU})
	for hi, hdr := range hostileHeaders {
		if strings.Contains(hdr, "%q") {
			hdr = fmt.Sprintf(hdr, string(key.Alg))
		}
		tok := b64(hdr) + "." + b64(string(goodDoc)) + "." + b64("not-a-signature")
		for _, vf := range []struct {
			name string
			call func() error
		}{
			{"rp.VerifyIDToken", func() error { _, err := rp.VerifyIDToken[*oidc.IDTokenClaims](ctx, tok, idv); return err }},
			{"rp.VerifyTokens", func() error { _, err := rp.VerifyTokens[*oidc.IDTokenClaims](ctx, "at", tok, idv); return err }},
			{"op.VerifyAccessToken", func() error { _, err := op.VerifyAccessToken[*oidc.AccessTokenClaims](ctx, tok, atv); return err }},
			{"op.VerifyIDTokenHint", func() error { _, err := op.VerifyIDTokenHint[*oidc.IDTokenClaims](ctx, tok, hv); return err }},
			{"oidc.ParseToken", func() error { _, err := oidc.ParseToken(tok, new(oidc.IDTokenClaims)); return err }},
		} {
			id++
			if c.o.Spec.KeepSet && !containsInt(c.o.Spec.Keep, id) {
				continue
			}
			c.o.StepIDs = append(c.o.StepIDs, id)
			c.o.Steps++
			c.cases++
			func() {
				defer func() {
					if r := recover(); r != nil {
						c.o.Violate("C09", "panic", "verifier/"+vf.name+"/header", id, "%s panicked on a token with header %d (%s): %v", vf.name, hi, hdr, r)
					}
				}()
				if vf.call() == nil && vf.name != "oidc.ParseToken" {
					c.o.Violate("C09", "accepted", "verifier/"+vf.name+"/header", id, "%s accepted a token without a signature (header %s)", vf.name, hdr)
				}
			}()
		}
	}
	c.o.ProbeN("decoder-cases", id-base)
}

// hostileHeaders are hand-made JOSE headers (%q: the algorithm in use): members of the wrong JSON type, unknown critical
// members, embedded keys
var hostileHeaders = []string{`{"alg":%q,"typ":1}`, `{"alg":%q,"typ":true}`, `{"alg":%q,"typ":["JWT"]}`, `{"alg":%q,"typ":{"a":"JWT"}}`, `{"alg":%q,"typ":null,"kid":null}`,
	`{"alg":%q,"kid":1}`, `{"alg":%q,"kid":["a"]}`, `{"alg":%q,"cty":7,"typ":"at+jwt"}`, `{"alg":%q,"crit":["exp"],"exp":1}`, `{"alg":%q,"crit":"exp"}`, `{"alg":%q,"jwk":"x"}`,
	`{"alg":%q,"jwk":{"kty":"RSA"}}`, `{"alg":%q,"x5c":[1]}`, `{"alg":%q,"b64":false,"crit":["b64"]}`, `{"alg":1}`, `{"alg":[%q]}`, `{"alg":%q,"alg":"none"}`, `{"typ":"JWT"}`}

type staticKeySet struct{ keys []jose.JSONWebKey }

func (s staticKeySet) VerifySignature(ctx context.Context, jws *jose.JSONWebSignature) ([]byte, error) {
	keyID, alg := oidc.GetKeyIDAndAlg(jws)
	k, err := oidc.FindMatchingKey(keyID, oidc.KeyUseSignature, alg, s.keys...)
	if err != nil {
		return nil, err
	}
	return jws.Verify(&k)
}

func RunC09(t *testing.T, spec kernel.Spec) *kernel.Outcome {
	// three worlds in four are fault sweeps: every storage-call position of one flow on one router fails once; the
	// request must still be answered exactly once and must not carry on after an error answer. The fourth is the
	// catalogue world.
	if spec.Params["mode"] != "catalogue" && (spec.Seed%4 != 0 || spec.Params["mode"] == "sweep") {
		j := (spec.Seed/4)*3 + (spec.Seed%4+3-1)%3
		o := runFaultSweep(t, spec, "C09", int(j%uint64(len(faultFlows)*2)))
		o.Probe("fault-sweep-worlds")
		o.ProbeN("fault-sweep-cases", o.Steps)
		return o
	}
	cs := spec.Seed / 4 // configuration selector of the catalogue worlds
	router := []string{"A", "B"}[cs%2]
	if spec.Params["router"] != "" {
		router = spec.Params["router"]
	}
	o := inBubble(t, spec, func(o *kernel.Outcome, tape *kernel.Tape) {
		caps := world.Caps{ClientCredentials: true, TokenExchange: true, Device: true, FromRequest: cs%3 == 0, EndFromRequest: cs%4 < 2, ExchangeVerifier: cs%2 == 1}
		w, err := world.NewStd(o, tape, world.StdOptions{Router: router, ForceCaps: &caps, AllGrants: true, ForceConfig: func(c *op.Config) {
			c.AuthMethodPrivateKeyJWT, c.GrantTypeRefreshToken, c.RequestObjectSupported, c.AuthMethodPost = true, true, true, true
			if cs%5 == 1 { // degenerate user-code configurations
				c.DeviceAuthorization.UserCode = []op.UserCodeConfig{{CharSet: "", CharAmount: 8, DashInterval: 4}, {CharSet: "AB", CharAmount: 0, DashInterval: 4}, {CharSet: "äöü", CharAmount: 3, DashInterval: 0}, {CharSet: "A", CharAmount: 1, DashInterval: -1}}[(cs/5)%4]
			}
		}})
		if err != nil {
			o.Infra = "world: " + err.Error()
			return
		}
		o.StepIDs = []int{}
		c := &c09{w: w, o: o}
		c.run(tape)
		o.Log = append([]string{fmt.Sprintf("config: router=%s alg=%s usercode=%+v cases=%d", w.Router, w.SigAlg, w.Conf.DeviceAuthorization.UserCode, c.cases)}, o.Log...)
		o.Sample = map[string]any{"seed": spec.Seed, "router": w.Router, "cases": c.cases, "example_cases": []string{"token-payload=null/0@userinfo", "basic=web%zz:secret-web grant=\"refresh_token\" @/oauth/token", "client.Discover <- 200 null", "json.Unmarshal [1] -> oidc.Audience"}}
		o.Distinct(fmt.Sprintf("router=%s alg=%s usercode=%+v fr=%v cases=%d", w.Router, w.SigAlg, w.Conf.DeviceAuthorization.UserCode, w.Caps.FromRequest, c.cases))
		for _, id := range o.StepIDs {
			o.Distinct(fmt.Sprintf("router=%s case=%d", w.Router, id))
		}
	})
	if o.Infra == "" && !spec.KeepSet {
		keysetCasesInChild(o, 100000)
	}
	o.Nontrivial = o.Steps > 1000
	o.Trace = []string{fmt.Sprintf("catalogue of %d cases", o.Steps)}
	return o
}

// hostileAnswers is the catalogue of faulty or hostile provider answers.
func hostileAnswers(goodDisc, issuer, idToken string) []hostile {
	var answers []hostile
	for _, pc := range payloadCatalogue {
		answers = append(answers, hostile{200, pc.doc, "application/json", 0, nil}, hostile{400, pc.doc, "application/json", 0, nil})
	}
	answers = append(answers, hostile{200, "", "", 0, nil}, hostile{204, "", "", 0, nil}, hostile{500, "boom", "text/plain", 0, nil}, hostile{302, "", "", 0, nil}, hostile{401, `{"error":"invalid_client"}`, "application/json", 0, nil},
		hostile{503, "null", "application/json", 0, nil}, hostile{500, " null ", "application/json", 0, nil},
		hostile{200, goodDisc[:len(goodDisc)/2], "application/json", 0, nil}, hostile{200, strings.Replace(goodDisc, issuer, "https://other.sim", 1), "application/json", 0, nil},
		hostile{200, `{"access_token":"a","token_type":"Bearer","id_token":"` + idToken + `"}`, "application/json", 0, nil},
		hostile{200, `{"access_token":"a","token_type":"Bearer","id_token":"a.b.c","expires_in":-5}`, "application/json", 0, nil},
		hostile{200, `{"access_token":"a","token_type":"Bearer","id_token":"` + b64(`{"alg":"RS256"}`) + "." + b64(`null`) + ".c" + `"}`, "application/json", 0, nil},
		hostile{200, `{"sub":"someone-else"}`, "application/json", 0, nil}, hostile{200, strings.Repeat("[", 10000), "application/json", 0, nil},
		// a token answer that is well-formed and has no ID token, or one of another JSON type
		hostile{200, `{"access_token":"a","token_type":"Bearer","expires_in":300}`, "application/json", 0, nil},
		hostile{200, `{"access_token":"a","token_type":"Bearer","id_token":5}`, "application/json", 0, nil},
		hostile{200, `{"access_token":"a","token_type":"Bearer","id_token":null,"refresh_token":"r"}`, "application/json", 0, nil},
		// device authorization answers: no interval, zero, negative, huge
		hostile{200, `{"device_code":"d","user_code":"u","verification_uri":"https://evil.sim/v","expires_in":300}`, "application/json", 0, nil},
		hostile{200, `{"device_code":"d","user_code":"u","verification_uri":"https://evil.sim/v","expires_in":300,"interval":0}`, "application/json", 0, nil},
		hostile{200, `{"device_code":"d","user_code":"u","verification_uri":"https://evil.sim/v","expires_in":-1,"interval":-5}`, "application/json", 0, nil},
		hostile{200, `{"device_code":"d","user_code":"u","verification_uri":"https://evil.sim/v","expires_in":300,"interval":9223372036854775807}`, "application/json", 0, nil},
		hostile{200, `{"sub":"u1"}`, "application/json", 0, nil}, hostile{200, `{"sub":"u1","email_verified":"yes","address":"x","updated_at":"now"}`, "application/json", 0, nil})
	return answers
}

// C09KeysetChild runs in a child process: the remote key set fetches keys in a goroutine of its own, so a panic
// there cannot be recovered and takes the process down. The child prints the case it is about to run; the parent
// attributes a crash to that case.
func C09KeysetChild(from int) {
	key := world.FixtureKey("rsa", 0)
	tok := signRaw([]byte(`{"iss":"https://evil.sim","sub":"u1"}`), jose.RS256, key.Key, "k1")
	jws, err := jose.ParseSigned(tok, []jose.SignatureAlgorithm{jose.RS256})
	if err != nil {
		fmt.Println("CHILD-ERROR", err)
		return
	}
	h := &hostile{}
	n := world.NewNet(nil)
	n.KeepLog = false
	n.Hosts["evil.sim"] = h
	hc := n.Client("victim", nil, false)
	answers := hostileAnswers(`{"issuer":"https://evil.sim"}`, "https://evil.sim", tok)
	for i := from; i < len(answers); i++ {
		fmt.Printf("CASE %d\n", i)
		*h = answers[i]
		ks := rp.NewRemoteKeySet(hc, "https://evil.sim/keys")
		_, _ = ks.VerifySignature(context.Background(), jws)
	}
	// late answers: the only caller gives up while the JWKS request is outstanding (cancellation or deadline), the
	// answer - whatever it is - arrives afterwards, and a second caller comes by. Nothing of this may take the
	// process down. (This child runs outside any bubble: real goroutines, real time.)
	for i := max(from, len(answers)); i < 2*len(answers); i++ {
		fmt.Printf("CASE %d\n", i)
		a := answers[i-len(answers)]
		g := &gatedAnswer{h: &a, entered: make(chan struct{}, 4), release: make(chan struct{})}
		n.Hosts["evil.sim"] = g
		ks := rp.NewRemoteKeySet(hc, "https://evil.sim/keys")
		ctx, cancel := context.WithCancel(context.Background())
		if i%2 == 1 {
			ctx, cancel = context.WithTimeout(context.Background(), 2*time.Millisecond)
		}
		done := make(chan struct{})
		go func() {
			_, _ = ks.VerifySignature(ctx, jws)
			close(done)
		}()
		select {
		case <-g.entered:
		case <-time.After(2 * time.Second):
		}
		cancel()
		<-done
		late := make(chan struct{})
		go func() { // a second caller arrives while the abandoned download is still outstanding
			c2, cancel2 := context.WithTimeout(context.Background(), 200*time.Millisecond)
			defer cancel2()
			_, _ = ks.VerifySignature(c2, jws)
			close(late)
		}()
		time.Sleep(time.Millisecond)
		close(g.release)
		<-late
		time.Sleep(time.Millisecond) // let the download goroutine finish its bookkeeping
	}
	n.Hosts["evil.sim"] = h
	fmt.Printf("DONE %d\n", 2*len(answers))
}

// gatedAnswer holds a hostile answer back until it is released (a slow JWKS endpoint).
type gatedAnswer struct {
	h       http.Handler
	entered chan struct{}
	release chan struct{}
}

func (g *gatedAnswer) ServeHTTP(w http.ResponseWriter, r *http.Request) {
	select {
	case g.entered <- struct{}{}:
	default:
	}
	<-g.release
	g.h.ServeHTTP(w, r)
}

// keysetCasesInChild drives the child process and reports crashes as violations.
func keysetCasesInChild(o *kernel.Outcome, base int) {
	from, crashes, total := 0, 0, 0
	for crashes < 6 {
		cmd := exec.Command(os.Args[0], "-test.run", "TestC09Child", "-test.count=1")
		cmd.Env = append(os.Environ(), fmt.Sprintf("VERIF_C09_CHILD=%d", from))
		out, _ := cmd.CombinedOutput()
		last, done := -1, false
		for _, line := range strings.Split(string(out), "\n") {
			var n int
			if _, err := fmt.Sscanf(line, "CASE %d", &n); err == nil {
				last = n
			}
			if _, err := fmt.Sscanf(line, "DONE %d", &n); err == nil {
				done, total = true, n
			}
		}
		if done {
			break
		}
		if last < 0 {
			o.Infra = "C09 key set child did not start: " + firstLine(string(out))
			return
		}
		crashes++
		detail := "process crashed"
		if i := strings.Index(string(out), "panic:"); i >= 0 {
			detail = firstLine(string(out)[i:])
		}
		o.Violate("C09", "panic", "client/remoteKeySet.VerifySignature-goroutine", base+last, "the remote key set's download goroutine panicked (unrecoverable, the process died) on hostile JWKS answer #%d: %s", last, detail)
		from = last + 1
	}
	o.ProbeN("keyset-child-cases", total)
}
