package props

import (
	"context"
	"encoding/json"
	"fmt"
	"net"
	"net/http"
	"net/url"
	"path"
	"regexp"
	"slices"
	"strings"
	"testing"

	"github.com/bmatcuk/doublestar/v4"
	"github.com/zitadel/oidc/v3/pkg/oidc"
	"github.com/zitadel/oidc/v3/pkg/op"

	"verif/sim/kernel"
	"verif/sim/world"
)

// C03: the OP never redirects an authorization response or error to an unregistered URI.

var uriPool = []string{"https://app.sim/cb", "https://app.sim/cb?x=1", "http://app.sim/cb", "http://localhost/cb", "http://127.0.0.1:8080/cb", "http://[::1]/cb",
	"https://localhost/cb", "com.example.app:/cb", "myapp://cb", "https://app.sim/a/b", "http://localhost:3000/cb?y=2", "https://APP.sim/Cb",
	// exactly registered URIs that contain glob metacharacters: they are strings to compare, never patterns
	"https://*.app.sim/lit", "https://app.sim/[a-c]lit", "https://app.sim/lit*"}
var globPool = []string{"https://*.app.sim/cb", "https://app.sim/**", "https://app.sim/cb/*", "http://localhost:*/cb", "com.example.*:/cb", "http://*.app.sim/*", "https://app.sim/[a-c]b"}

// ---- reference matcher, written from the statement ----

func loopbackURL(raw string) (*url.URL, bool) {
	u, err := url.Parse(raw)
	if err != nil || (u.Scheme != "http" && u.Scheme != "https") {
		return nil, false
	}
	h := u.Hostname()
	if h == "localhost" {
		return u, true
	}
	ip := net.ParseIP(h)
	return u, ip != nil && ip.IsLoopback()
}

func refRedirectAllowed(c *world.Client, uri string, responseType string) (bool, string) {
	if uri == "" {
		return false, "empty"
	}
	base := slices.Contains(c.Redirects, uri)
	why := "exact"
	if !base && c.UseGlobs {
		for _, g := range c.RedirectGlobs {
			if m, err := doublestar.Match(g, uri); err == nil && m {
				base, why = true, "glob"
			}
			if m, err := path.Match(g, uri); err == nil && m {
				base, why = true, "glob"
			}
		}
	}
	_, isLoop := loopbackURL(uri)
	if !base && c.AppType == op.ApplicationTypeNative && isLoop {
		// a loopback address that differs from a registered loopback URI only in scheme, host spelling and port
		ru, _ := url.Parse(uri)
		for _, r := range c.Redirects {
			if lu, ok := loopbackURL(r); ok && lu.Path == ru.Path && lu.RawQuery == ru.RawQuery && lu.Fragment == ru.Fragment && lu.User == nil && ru.User == nil {
				base, why = true, "native-loopback"
			}
		}
	}
	if !base {
		return false, "not registered"
	}
	switch {
	case strings.HasPrefix(uri, "https://"):
		return true, why
	case strings.HasPrefix(uri, "http://"):
		if c.Dev || (c.AppType == op.ApplicationTypeNative && isLoop) || (c.AppType == op.ApplicationTypeWeb && responseType == "code") {
			return true, why
		}
		return false, "plain http not permitted for this client"
	default:
		if c.AppType == op.ApplicationTypeNative {
			return true, why
		}
		return false, "custom scheme only for native clients"
	}
}

var responseParams = []string{"code", "state", "session_state", "error", "error_description", "error_uri", "id_token", "access_token", "token_type", "expires_in", "scope", "refresh_token"}

var pctRe = regexp.MustCompile(`%[0-9a-fA-F]{2}`)

// stripResponse removes the authorization-response parameters from a Location.
func stripResponse(loc string) (target string, carried url.Values, inFragment bool, err error) {
	u, err := url.Parse(loc)
	if err != nil {
		return "", nil, false, err
	}
	carried = url.Values{}
	if u.Fragment != "" || u.RawFragment != "" {
		fv, _ := url.ParseQuery(u.EscapedFragment())
		isResp := false
		for _, p := range responseParams {
			if fv.Has(p) {
				isResp = true
				carried[p] = fv[p]
			}
		}
		if isResp {
			u.Fragment, u.RawFragment = "", ""
			inFragment = true
		}
	}
	q := u.Query()
	for _, p := range responseParams {
		if q.Has(p) {
			carried[p] = append(carried[p], q[p]...)
			q.Del(p)
		}
	}
	u.RawQuery = q.Encode()
	return u.String(), carried, inFragment, nil
}

func normalizeURI(raw string) string {
	// control characters and spaces are equivalent to their percent-encoded form
	var sb strings.Builder
	for i := 0; i < len(raw); i++ {
		if raw[i] < 0x21 || raw[i] == 0x7f {
			fmt.Fprintf(&sb, "%%%02X", raw[i])
		} else {
			sb.WriteByte(raw[i])
		}
	}
	raw = pctRe.ReplaceAllStringFunc(sb.String(), strings.ToUpper)
	u, err := url.Parse(raw)
	if err != nil {
		return raw
	}
	u.RawQuery = u.Query().Encode()
	return u.String()
}

type c03 struct {
	w       *world.World
	o       *kernel.Outcome
	step    int
	ids     []string // auth request ids seen
	b       *world.Browser
	clients []string
}

func (c *c03) genClient(ch *kernel.Chooser, id string) {
	cl := &world.Client{ID: id, Secret: "secret-" + id, AppType: op.ApplicationType(ch.Int(3)), Dev: ch.Bool(1, 4), LoginBase: "https://op.sim/login",
		Grants: []oidc.GrantType{oidc.GrantTypeCode, oidc.GrantTypeImplicit}, IDLifetime: 600e9}
	cl.Auth = []oidc.AuthMethod{oidc.AuthMethodBasic, oidc.AuthMethodPost, oidc.AuthMethodNone, oidc.AuthMethodPrivateKeyJWT}[ch.Int(4)]
	for _, rt := range []oidc.ResponseType{oidc.ResponseTypeCode, oidc.ResponseTypeIDToken, oidc.ResponseTypeIDTokenOnly} {
		if ch.Bool(2, 3) {
			cl.RespTypes = append(cl.RespTypes, rt)
		}
	}
	n := ch.Range(1, 4)
	for i := 0; i < n; i++ {
		u := uriPool[ch.Int(len(uriPool))]
		if !slices.Contains(cl.Redirects, u) {
			cl.Redirects = append(cl.Redirects, u)
		}
	}
	if ch.Bool(1, 2) {
		cl.UseGlobs = true
		for i := ch.Range(0, 2); i > 0; i-- {
			cl.RedirectGlobs = append(cl.RedirectGlobs, globPool[ch.Int(len(globPool))])
		}
	} else if ch.Bool(1, 3) {
		// globs present in the registration data but the client did not opt in
		cl.RedirectGlobs = []string{globPool[ch.Int(len(globPool))]}
	}
	k := world.FixtureKey("rsa", 6)
	k.KeyID = "ro-key"
	pub := k.Public()
	cl.Key = &pub
	c.w.Store.Clients[id] = cl
}

// requested builds a redirect_uri near the registration of the client.
func (c *c03) requested(ch *kernel.Chooser, cl *world.Client) (string, string) {
	reg := cl.Redirects[ch.Int(len(cl.Redirects))]
	u, _ := url.Parse(reg)
	host := ""
	if u != nil {
		host = u.Host
	}
	switch ch.Int(27) {
	case 0, 1, 2, 3:
		return reg, "exact"
	case 26:
		// the registered string read as a pattern (? and * and classes) matches this URI; as a string it does not
		inst := strings.NewReplacer("?", "X", "*", "zz", "[a-c]", "b").Replace(reg)
		if inst == reg {
			inst = reg + "x"
		}
		return inst, "exact-read-as-pattern"
	case 4:
		return strings.ToUpper(reg[:1]) + reg[1:], "case-scheme"
	case 5:
		return strings.Replace(reg, host, strings.ToUpper(host), 1), "case-host"
	case 6:
		return reg + "/", "trailing-slash"
	case 7:
		return strings.Replace(reg, "://", "://"+host+"@evil.sim/", 1), "userinfo-trick"
	case 8:
		return strings.Replace(reg, host, host+".evil.sim", 1), "suffix-domain"
	case 9:
		return reg + "/../evil", "path-traversal"
	case 10:
		return reg + "#frag", "fragment"
	case 11:
		for _, alt := range []string{"localhost", "127.0.0.1", "[::1]", "127.0.0.2", "127.0.0.1.evil.sim", "localhost.evil.sim", "0x7f.0.0.1"} {
			if ch.Bool(1, 3) {
				return strings.Replace(reg, host, alt+":"+fmt.Sprint(ch.Range(1, 9999)), 1), "loopback-variant"
			}
		}
		return strings.Replace(reg, host, "127.0.0.1:1", 1), "loopback-variant"
	case 12:
		if strings.HasPrefix(reg, "http://") {
			return "https://" + strings.TrimPrefix(reg, "http://"), "scheme-up"
		}
		return "http://" + strings.TrimPrefix(reg, "https://"), "scheme-down"
	case 13:
		return strings.Replace(reg, host, "x."+host, 1), "subdomain"
	case 14:
		return strings.Replace(reg, host, "x.y."+host, 1), "subsubdomain"
	case 15:
		return reg + "/x/y", "deeper-path"
	case 16:
		return "https://evil.sim/?" + reg, "embedded"
	case 17:
		return "", "empty"
	case 18:
		return "%zz", "unparsable"
	case 19:
		return reg + "\n", "newline"
	case 20:
		return strings.Replace(reg, ":/", ".evil:/", 1), "scheme-suffix"
	case 21:
		return reg + "?extra=1", "extra-query"
	case 22:
		return uriPool[ch.Int(len(uriPool))], "other-pool-uri"
	case 23:
		return strings.Replace(reg, host, host+":443", 1), "explicit-port"
	case 24:
		if len(cl.RedirectGlobs) > 0 {
			g := cl.RedirectGlobs[ch.Int(len(cl.RedirectGlobs))]
			return strings.NewReplacer("**", "a/b/c", "*", "zz", "[a-c]", "b").Replace(g), "glob-instance"
		}
		return reg, "exact"
	default:
		return "javascript:alert(1)//" + reg, "javascript"
	}
}

func (c *c03) checkResponse(desc string, r *world.Resp, cl *world.Client, requested, respType string, unknownClient bool) {
	if panicProbe(c.o, r) || r.Err != nil || r.Ex == nil {
		return
	}
	site := "router" + c.w.Router
	viol := func(rule, s, format string, a ...any) {
		c.o.Violate("C03", rule, site+"/"+s, c.step, "%s: %s", desc, fmt.Sprintf(format, a...))
	}
	loc := r.Ex.RespHeader.Get("Location")
	isRedirect := r.Ex.Status >= 300 && r.Ex.Status < 400
	var target string
	var carried url.Values
	respInFragment := false
	switch {
	case isRedirect && strings.HasPrefix(loc, "https://op.sim/login?"):
		c.o.Probe("to-login")
		if u, err := url.Parse(loc); err == nil {
			c.ids = append(c.ids, u.Query().Get("authRequestID"))
		}
		// the request was accepted: the redirect URI must be one the client registered
		if cl == nil || unknownClient {
			viol("accepted-unknown-client", "authorize", "request of an unknown client was accepted")
			return
		}
		if ok, why := refRedirectAllowed(cl, requested, respType); !ok {
			viol("accepted-unregistered", "authorize", "authorization request with redirect_uri %q was accepted (%s); registration: %v globs(opt-in=%v): %v type=%v dev=%v", requested, why, cl.Redirects, cl.UseGlobs, cl.RedirectGlobs, cl.AppType, cl.Dev)
		}
		return
	case isRedirect:
		var err error
		target, carried, respInFragment, err = stripResponse(loc)
		if err != nil {
			viol("unparsable-location", "redirect", "Location %q", loc)
			return
		}
	case r.Ex.Status == 200 && strings.Contains(r.Ex.RespBody, "<form"):
		ar, _ := world.DecodeAuthzResponse(&world.Resp{Status: 200, Body: r.Ex.RespBody})
		if ar == nil {
			return
		}
		target, carried = ar.Target, ar.Params
		if strings.HasPrefix(target, "#") {
			// html/template replaced a non-http(s) action: the form posts to the provider's own page.
			// Nothing goes to a foreign URI (C03 holds); that the response never arrives is C11's business.
			c.o.Probe("form-action-sanitized")
			return
		}
	default:
		if r.Ex.Status >= 400 {
			c.o.Probe("error-page")
		}
		return
	}
	c.o.Probe("redirect-to-client")
	if cl == nil || unknownClient {
		viol("redirect-unknown-client", "redirect", "redirect to %q for an unknown client", loc)
		return
	}
	cmpRequested := requested
	if respInFragment {
		// the response travels in the fragment and replaces whatever fragment the (glob-matched) URI had
		if i := strings.IndexByte(cmpRequested, '#'); i >= 0 {
			cmpRequested = cmpRequested[:i]
		}
	}
	if normalizeURI(target) != normalizeURI(cmpRequested) {
		viol("redirect-elsewhere", "redirect", "user agent is sent to %q (Location %q), the request named %q", target, loc, requested)
	}
	if ok, why := refRedirectAllowed(cl, requested, respType); !ok {
		kind := "response"
		if carried.Get("error") != "" {
			kind = "error"
		}
		viol("unregistered-redirect", kind, "user agent is sent to %q with %v although that URI is not allowed for client %s (%s); registration: %v globs(opt-in=%v): %v type=%v dev=%v", loc, kernel.SortedKeys(carried), cl.ID, why, cl.Redirects, cl.UseGlobs, cl.RedirectGlobs, cl.AppType, cl.Dev)
	}
}

func (c *c03) authorize(ch *kernel.Chooser) string {
	w := c.w
	id := c.clients[ch.Int(len(c.clients))]
	cl := w.Store.Clients[id]
	unknown := false
	if ch.Bool(1, 15) {
		id, unknown = "nobody", true
	}
	req, kind := c.requested(ch, cl)
	respType := []string{"code", "code", "code", "id_token token", "id_token", "token", "", "code", "id_token token"}[ch.Int(9)]
	if ch.Bool(1, 8) {
		// spelled unusually: surrounding or doubled blanks, another order of the values - whatever the provider makes of
		// it, where it sends the user agent is judged by the flow it actually runs
		respType = ch.Pick("code ", " code", "code  ", "token id_token", "id_token  token", "Code")
		c.o.Probe("response-type-spelled-unusually")
	}
	v := url.Values{"client_id": {id}, "response_type": {respType}, "scope": {"openid"}, "state": {"st"}, "nonce": {"n"}}
	if kind != "missing" {
		v.Set("redirect_uri", req)
	}
	if ch.Bool(1, 12) {
		v.Del("redirect_uri")
		req, kind = "", "missing"
	}
	if ch.Bool(1, 4) {
		v.Set("response_mode", []string{"query", "fragment", "form_post", "bogus"}[ch.Int(4)])
	}
	// break another parameter so that other validation errors fire
	broken := "none"
	switch ch.Int(10) {
	case 0:
		v.Del("scope")
		broken = "no-scope"
	case 1:
		v.Set("prompt", "none login")
		broken = "prompt"
	case 2:
		v.Set("id_token_hint", "garbage.token.here")
		broken = "hint"
	case 3:
		v.Set("max_age", "-3")
		broken = "max_age"
	case 4:
		v.Set("request", "a.b.c")
		broken = "request-object"
	case 5:
		v.Set("scope", "unknown-scope")
		broken = "scope-unknown"
	}
	// the hostile redirect_uri may travel inside a signed request object while the plain parameter is a registered one
	viaObject := false
	if c.w.Conf.RequestObjectSupported && !unknown && kind != "missing" && ch.Bool(1, 6) {
		k := world.FixtureKey("rsa", 6)
		payload, _ := json.Marshal(map[string]any{"iss": id, "aud": []string{w.Issuer}, "client_id": id, "response_type": respType, "redirect_uri": req})
		v.Set("request", signRaw(payload, "RS256", k.Key, "ro-key"))
		v.Set("redirect_uri", cl.Redirects[0])
		viaObject = true
		broken += "+redirect-in-request-object"
		if req == "" {
			// an object without redirect_uri overrides nothing: the plain parameter stays the effective one
			req, kind = cl.Redirects[0], "exact"
		}
	}
	fault := ""
	if ch.Bool(1, 6) {
		k := ch.Range(1, 3)
		fired := false
		// a plain error, a time-out, or an OAuth error of the storage's own (one reused value, a wrapped one, a cancellation)
		kindF := []string{world.FaultError, world.FaultTimeout, world.FaultSentinel, world.FaultWrapped, world.FaultCanceled}[ch.Int(5)]
		w.Store.Inject = func(n int, method string, rid int) string {
			if n == k && !fired {
				fired = true
				c.o.Fault(kindF)
				return kindF
			}
			return ""
		}
		fault = fmt.Sprintf(" fault@%d", k)
	}
	r := c.b.Get(w.Issuer + "/authorize?" + v.Encode())
	w.Store.Inject = nil
	desc := fmt.Sprintf("authorize client=%s redirect_uri=%q (%s) type=%q broken=%s%s -> %d", id, req, kind, respType, broken, fault, statusOf(r))
	if viaObject && r.Status == 302 && !strings.HasPrefix(r.Location, "https://op.sim/login?") && cl.Redirects[0] != req {
		// either the object is honoured (then its redirect_uri is the effective one) or an error went to the plain
		// parameter's registered URI (the object was ignored or failed after validation): both are judged as what they are
		if target, _, inFrag, err := stripResponse(r.Location); err == nil {
			plain := cl.Redirects[0]
			if inFrag {
				if i := strings.IndexByte(plain, '#'); i >= 0 {
					plain = plain[:i]
				}
			}
			if normalizeURI(target) == normalizeURI(plain) {
				c.checkResponse(desc, r, cl, cl.Redirects[0], respType, unknown)
				return desc
			}
		}
	}
	c.checkResponse(desc, r, cl, req, respType, unknown)
	if (kind == "missing" || kind == "empty" || unknown) && !viaObject && r.Ex != nil && r.Ex.Panic == "" {
		if r.Ex.Status < 400 || r.Ex.RespHeader.Get("Location") != "" {
			c.o.Violate("C03", "error-page", "router"+w.Router+"/authorize", c.step, "%s: missing redirect_uri or unknown client must be answered with an error page, got %d Location=%q", desc, r.Ex.Status, r.Ex.RespHeader.Get("Location"))
		}
	}
	return desc
}

func (c *c03) callback(ch *kernel.Chooser) string {
	w := c.w
	if len(c.ids) == 0 {
		return "callback: no auth request"
	}
	id := c.ids[ch.Int(len(c.ids))]
	snap := w.Store.AuthReqSnapshot(id)
	how := "not-done"
	if snap != nil && ch.Bool(2, 3) {
		_ = w.Store.CompleteLogin(id, "u1")
		how = "done"
	}
	if ch.Bool(1, 10) {
		id, how = "ar9999", "unknown-id"
	}
	fault := ""
	if ch.Bool(1, 4) {
		k := ch.Range(1, 7)
		fired := false
		w.Store.Inject = func(n int, method string, rid int) string {
			if n == k && !fired {
				fired = true
				c.o.Fault(world.FaultError)
				return world.FaultError
			}
			return ""
		}
		fault = fmt.Sprintf(" fault@%d", k)
	}
	r := c.b.Get(w.Issuer + "/authorize/callback?id=" + url.QueryEscape(id))
	w.Store.Inject = nil
	desc := fmt.Sprintf("callback id=%s (%s)%s -> %d", id, how, fault, statusOf(r))
	if snap == nil || how == "unknown-id" {
		if r.Ex != nil && r.Ex.Panic == "" && (r.Ex.Status < 400 || r.Ex.RespHeader.Get("Location") != "") && how == "unknown-id" {
			c.o.Violate("C03", "error-page", "router"+w.Router+"/callback", c.step, "%s: unknown auth request must be answered with an error page", desc)
		}
		return desc
	}
	c.checkResponse(desc, r, w.Store.Clients[snap.ClientID], snap.RedirectURI, string(snap.ResponseType), false)
	return desc
}

// concurrentCallbacks: the callbacks of two completed authorization requests are served at the same time, interleaved
// by the seeded scheduler at every storage call and wherever the provider writes body bytes (a slow user agent). Each
// user agent must be sent to the redirect URI of its own request.
func (c *c03) concurrentCallbacks(ch *kernel.Chooser) string {
	w := c.w
	var formPost, others []string
	for _, id := range c.ids {
		if a := w.Store.AuthReqSnapshot(id); a != nil {
			if a.ResponseMode == oidc.ResponseModeFormPost {
				formPost = append(formPost, id)
			} else {
				others = append(others, id)
			}
		}
	}
	cands := append(formPost, others...)
	if len(cands) < 2 {
		return "concurrent callbacks: fewer than two pending requests"
	}
	pair := []string{cands[0], cands[1]}
	if len(formPost) >= 2 {
		i := ch.Int(len(formPost))
		j := (i + 1 + ch.Int(len(formPost)-1)) % len(formPost)
		pair = []string{formPost[i], formPost[j]}
	}
	var gops []*groupOp
	var snaps []*world.AuthReq
	for _, id := range pair {
		_ = w.Store.CompleteLogin(id, "u1")
		snaps = append(snaps, w.Store.AuthReqSnapshot(id))
		gops = append(gops, &groupOp{label: "callback " + id, do: func(ctx context.Context) *world.Resp {
			req, _ := http.NewRequestWithContext(ctx, "GET", w.Issuer+"/authorize/callback?id="+url.QueryEscape(id), nil)
			return w.DoRaw(req)
		}})
	}
	trace := runGroup(w, c.o, fmt.Sprintf("callbacks:%d", c.step), gops, 0)
	c.o.Probe("concurrent-callback-pairs")
	out := fmt.Sprintf("concurrent callbacks %v %v:", pair, trace)
	for i, g := range gops {
		if g.resp == nil || g.resp.Ex == nil || snaps[i] == nil {
			continue
		}
		desc := fmt.Sprintf("callback id=%s served concurrently with id=%s (schedule %v) -> %d", pair[i], pair[1-i], trace, statusOf(g.resp))
		c.checkResponse(desc, g.resp, w.Store.Clients[snaps[i].ClientID], snaps[i].RedirectURI, string(snaps[i].ResponseType), false)
		out += fmt.Sprintf(" %s=%d", pair[i], statusOf(g.resp))
	}
	// both requests are used up
	c.ids = slices.DeleteFunc(c.ids, func(x string) bool { return x == pair[0] || x == pair[1] })
	return out
}

func RunC03(t *testing.T, spec kernel.Spec) *kernel.Outcome {
	o := inBubble(t, spec, func(o *kernel.Outcome, tape *kernel.Tape) {
		w, err := world.NewStd(o, tape, world.StdOptions{Router: spec.Params["router"]})
		if err != nil {
			o.Infra = "world: " + err.Error()
			return
		}
		c := &c03{w: w, o: o, b: w.Net.NewBrowser("b1")}
		for id := range w.Store.Clients {
			delete(w.Store.Clients, id)
		}
		cfg := tape.Sub("clients")
		for i := 0; i < 4; i++ {
			id := fmt.Sprintf("c%d", i)
			c.genClient(cfg, id)
			c.clients = append(c.clients, id)
		}
		n := 40 + tape.Sub("cfg").Int(40)
		steps(o, tape, n, func(i int, ch *kernel.Chooser) string {
			c.step = i
			if ch.Bool(1, 12) {
				return c.concurrentCallbacks(ch)
			}
			if ch.Bool(3, 4) {
				return c.authorize(ch)
			}
			return c.callback(ch)
		})
		var regs []string
		for _, id := range c.clients {
			cl := w.Store.Clients[id]
			regs = append(regs, fmt.Sprintf("%s{type=%v dev=%v auth=%s resp=%v uris=%v globs(opt-in=%v)=%v}", id, cl.AppType, cl.Dev, cl.Auth, cl.RespTypes, cl.Redirects, cl.UseGlobs, cl.RedirectGlobs))
		}
		o.Log = append([]string{"config: router=" + w.Router + " " + strings.Join(regs, " ")}, o.Log...)
		o.Sample = map[string]any{"seed": spec.Seed, "router": w.Router, "clients": regs, "steps": o.Trace}
	})
	o.Nontrivial = o.Probes["redirect-to-client"] > 0 && o.Probes["error-page"] > 0
	return o
}
