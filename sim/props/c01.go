package props

import (
	"context"
	"encoding/json"
	"errors"
	"fmt"
	"io"
	"net/http"
	"slices"
	"strings"
	"testing"
	"time"

	jose "github.com/go-jose/go-jose/v4"
	"github.com/zitadel/oidc/v3/pkg/client/rp"
	"github.com/zitadel/oidc/v3/pkg/oidc"

	"verif/sim/kernel"
	"verif/sim/world"
)

// C01: RP ID-token validation is sound and complete. The simulator contributes the clock: a token is
// minted at t0 and verified at t0+delta with delta placed on, just before and just after every time
// boundary. The other claim dimensions are seeded generation (said plainly).

const c01Band = 2 * time.Second // the statement's clock-rounding margin

type c01Case struct {
	issuer, clientID        string
	offset                  time.Duration
	maxAgeIAT               time.Duration
	maxAuthAge              time.Duration
	nonce                   string
	acrRequired             string
	claims                  map[string]any
	exp, iat, auth          time.Time
	hasExp, hasIat, hasAuth bool
	accessToken             string
	withAccess              bool
	signWrongKey            bool
	desc                    []string
}

func RunC01(t *testing.T, spec kernel.Spec) *kernel.Outcome {
	o := inBubble(t, spec, func(o *kernel.Outcome, tape *kernel.Tape) {
		cfg := tape.Sub("cfg01")
		fam := world.AlgFamilies[cfg.Int(len(world.AlgFamilies))]
		key := world.FixtureKey(fam.Prefix, cfg.Int(4))
		wrong := world.FixtureKey(fam.Prefix, 0)
		for i := 0; i < 8; i++ {
			wrong = world.FixtureKey(fam.Prefix, i)
			if wrong.KeyID != key.KeyID {
				break
			}
		}
		pub := key.Public()
		pub.KeyID, pub.Use = "k1", "sig"
		var ks oidc.KeySet = staticKeySet{keys: []jose.JSONWebKey{pub}}
		// in one world of three the verifier fetches its keys from a JWKS endpoint (the real remote key set): the
		// endpoint renames the key now and then (a cache miss follows) and is sometimes down for one request. A
		// verification that met the outage may fail; the ones after it are judged like all others.
		var remote *c01JWKS
		if tape.Sub("cfg01-remote").Bool(1, 3) {
			remote = &c01JWKS{pub: key.Public()}
			ks = rp.NewRemoteKeySet(&http.Client{Transport: remote}, "https://op.sim/keys")
			o.Probe("remote-key-set-worlds")
			// one remote world in three: a provider with a single signing key that carries NO key id (tokens carry
			// none either); a rotation swaps the key itself
			if tape.Sub("cfg01-remote").Bool(1, 3) {
				remote.kidless = true
				o.Probe("kidless-provider-worlds")
			}
		}
		// the keys a kid-less provider rotates between; "wrong" is never served
		served := []jose.JSONWebKey{key}
		for i := 0; i < 8 && len(served) < 3; i++ {
			k := world.FixtureKey(fam.Prefix, i)
			if k.KeyID != key.KeyID && k.KeyID != wrong.KeyID {
				served = append(served, k)
			}
		}
		n := 100 + cfg.Int(100)
		steps(o, tape, n, func(i int, ch *kernel.Chooser) string {
			c01Kid, c01Faulted = "k1", false
			if remote != nil {
				if ch.Bool(1, 6) {
					remote.gen++
				}
				if ch.Bool(1, 6) {
					remote.failNext = ch.Pick("503", "reset", "garbage")
				}
				c01Kid = fmt.Sprintf("k%d", remote.gen)
				remote.hit = false
				c01AfterSleep = nil
				if remote.kidless {
					cur := served[remote.gen%len(served)]
					remote.pub, c01Kid = cur.Public(), ""
					d := c01One(o, i, ch, fam.Alg, cur, wrong, ks)
					if remote.hit {
						o.Fault("jwks-" + remote.lastFault)
					}
					return "kid-less provider (key generation " + fmt.Sprint(remote.gen) + "): " + d
				}
				if ch.Bool(1, 4) {
					// two key renames in one instant: another token is verified under the first new name (a download
					// happens now), the provider renames again, and the step's token - signed under that second name -
					// is verified in the same second
					c01Kid = fmt.Sprintf("k%d", remote.gen+2)
					c01AfterSleep = func() {
						remote.gen++
						dummy := signRaw([]byte(`{"iss":"https://op.sim","sub":"warm"}`), fam.Alg, key.Key, fmt.Sprintf("k%d", remote.gen))
						if jws, err := jose.ParseSigned(dummy, []jose.SignatureAlgorithm{fam.Alg}); err == nil {
							if _, err := ks.VerifySignature(context.Background(), jws); err == nil {
								o.Probe("download-and-rotation-in-one-second")
							}
						}
						remote.gen++
					}
				}
			}
			d := c01One(o, i, ch, fam.Alg, key, wrong, ks)
			c01AfterSleep = nil
			if remote != nil && remote.hit {
				o.Fault("jwks-" + remote.lastFault)
			}
			return d
		})
		o.Sample = map[string]any{"seed": spec.Seed, "alg": string(fam.Alg), "cases": o.Trace[:min(len(o.Trace), 12)]}
		o.Log = append([]string{fmt.Sprintf("config: alg=%s", fam.Alg)}, o.Log...)
	})
	o.Nontrivial = o.Probes["accepted"] > 0 && o.Probes["rejected"] > 0 && o.Probes["on-a-time-boundary"] > 0
	return o
}

func c01One(o *kernel.Outcome, step int, ch *kernel.Chooser, alg jose.SignatureAlgorithm, key, wrong jose.JSONWebKey, ks oidc.KeySet) string {
	t0 := time.Now()
	c := &c01Case{issuer: "https://op.sim", clientID: "rp-client", claims: map[string]any{}}
	c.offset = []time.Duration{0, time.Second, 5 * time.Second, time.Minute}[ch.Int(4)]
	if ch.Bool(1, 2) {
		c.maxAgeIAT = []time.Duration{10 * time.Second, time.Minute, time.Hour}[ch.Int(3)]
	}
	if ch.Bool(1, 3) {
		c.maxAuthAge = []time.Duration{30 * time.Second, 10 * time.Minute}[ch.Int(2)]
	}
	if ch.Bool(1, 2) {
		c.nonce = "n-0123"
	}
	if ch.Bool(1, 4) {
		c.acrRequired = "gold"
	}
	// ---- claims relative to t0; each dimension is right most of the time ----
	dev := func(p, q int) bool { return ch.Bool(p, q) }
	c.claims["iss"] = c.issuer
	if dev(1, 15) {
		c.claims["iss"] = []any{"https://evil.sim", "", "https://op.sim/"}[ch.Int(3)]
		c.desc = append(c.desc, "iss-wrong")
	}
	c.claims["sub"] = "user-1"
	if dev(1, 20) {
		if ch.Bool(1, 2) {
			delete(c.claims, "sub")
		} else {
			c.claims["sub"] = ""
		}
		c.desc = append(c.desc, "sub-missing")
	}
	switch ch.Int(12) {
	case 0:
		c.claims["aud"] = []string{"other"}
		c.desc = append(c.desc, "aud-other")
	case 1:
		c.claims["aud"] = []string{c.clientID, "other"}
		c.desc = append(c.desc, "aud-multi")
	case 2:
		c.claims["aud"] = c.clientID // single string form
	case 3:
		c.desc = append(c.desc, "aud-missing")
	default:
		c.claims["aud"] = []string{c.clientID}
	}
	switch ch.Int(6) {
	case 0:
		c.claims["azp"] = c.clientID
	case 1:
		c.claims["azp"] = "other"
		c.desc = append(c.desc, "azp-other")
	}
	// the time of verification relative to t0, and the claims placed around the boundaries seen from there
	delta := time.Duration(ch.Range(0, 7200)) * time.Second
	now := t0.Add(delta)
	place := func(boundary time.Time, label string) (time.Time, bool) {
		// on, one second before/after (inside the band), clearly before/after the boundary, or far away
		d := []time.Duration{0, -time.Second, time.Second, -3 * time.Second, 3 * time.Second, -10 * time.Second, 10 * time.Second, -time.Hour, time.Hour, -24 * time.Hour, 24 * time.Hour}[ch.Int(11)]
		if d > -c01Band-time.Second && d < c01Band+time.Second {
			c.desc = append(c.desc, fmt.Sprintf("%s@boundary%+v", label, d))
			return boundary.Add(d), true
		}
		return boundary.Add(d), false
	}
	onBoundary := false
	if !dev(1, 25) {
		var b bool
		c.exp, b = place(now.Add(c.offset), "exp")
		if !ch.Bool(1, 3) {
			c.exp, b = now.Add(c.offset).Add(time.Duration(ch.Range(5, 3600))*time.Second), false
		}
		if ch.Bool(1, 24) {
			// a legal far-away end: NumericDate values of thirteen digits are seconds too
			c.exp, b = time.Unix(1_000_000_000_000+int64(ch.Int(1<<30)), 0), false
			c.desc = append(c.desc, "exp-thirteen-digits")
			o.Probe("time-claims-of-thirteen-digits")
		}
		onBoundary = onBoundary || b
		c.hasExp = true
		c.claims["exp"] = c.exp.Unix()
	} else {
		c.desc = append(c.desc, "exp-missing")
	}
	if !dev(1, 25) {
		var b bool
		switch ch.Int(4) {
		case 0: // around "in the future"
			c.iat, b = place(now.Add(c.offset), "iat-future")
		case 1: // around "too old"
			if c.maxAgeIAT > 0 {
				c.iat, b = place(now.Add(-c.maxAgeIAT), "iat-old")
			} else {
				c.iat = now.Add(-time.Duration(ch.Range(0, 100000)) * time.Second)
			}
		default:
			c.iat = now.Add(-time.Duration(ch.Range(3, 8)) * time.Second)
		}
		if ch.Bool(1, 24) {
			// what a provider that writes milliseconds would send: as seconds, tens of thousands of years ahead
			c.iat, b = time.Unix(now.Unix()*1000-int64(ch.Range(0, 5000)), 0), false
			c.desc = append(c.desc, "iat-thirteen-digits")
			o.Probe("time-claims-of-thirteen-digits")
		}
		onBoundary = onBoundary || b
		c.hasIat = true
		c.claims["iat"] = c.iat.Unix()
	} else {
		c.desc = append(c.desc, "iat-missing")
	}
	if c.maxAuthAge > 0 || ch.Bool(1, 2) {
		if !dev(1, 10) {
			var b bool
			if c.maxAuthAge > 0 && ch.Bool(1, 2) {
				c.auth, b = place(now.Add(-c.maxAuthAge), "auth_time")
			} else {
				c.auth = now.Add(-time.Duration(ch.Range(3, 20)) * time.Second)
			}
			onBoundary = onBoundary || b
			c.hasAuth = true
			c.claims["auth_time"] = c.auth.Unix()
		}
	}
	if c.nonce != "" {
		switch ch.Int(8) {
		case 0:
			c.claims["nonce"] = "other-nonce"
			c.desc = append(c.desc, "nonce-wrong")
		case 1:
			c.desc = append(c.desc, "nonce-missing")
		default:
			c.claims["nonce"] = c.nonce
		}
	} else if ch.Bool(1, 6) {
		// the verifier expects no nonce for this call (its hook answers ""), the token carries one (a token of another
		// session replayed): the configured nonce requirement is "none", which such a token does not satisfy
		c.claims["nonce"] = "nonce-of-another-session"
		c.desc = append(c.desc, "nonce-unexpected")
		o.Probe("token-with-a-nonce-nobody-expects")
	}
	if c.acrRequired != "" || ch.Bool(1, 5) {
		c.claims["acr"] = []string{"gold", "silver", ""}[ch.Int(3)]
	}
	c.accessToken = "access-token-value-123"
	c.withAccess = ch.Bool(1, 2)
	switch ch.Int(5) {
	case 0:
		c.claims["at_hash"] = leftHalfHash(alg, c.accessToken)
	case 1:
		c.claims["at_hash"] = leftHalfHash(alg, "another-access-token")
		c.desc = append(c.desc, "at_hash-other-token")
	case 2:
		h := leftHalfHash(alg, c.accessToken)
		c.claims["at_hash"] = h + h // full-length instead of left half
		c.desc = append(c.desc, "at_hash-wrong-length")
	}
	c.claims["custom"] = map[string]any{"k": "v"}
	c.signWrongKey = dev(1, 25)
	payload, _ := json.Marshal(c.claims)
	sk := key
	if c.signWrongKey {
		sk = wrong
		c.desc = append(c.desc, "wrong-key")
	}
	tok := signRaw(payload, alg, sk.Key, c01Kid)
	// ---- verifier configuration ----
	opts := []rp.VerifierOption{rp.WithSupportedSigningAlgorithms(string(alg)), rp.WithIssuedAtOffset(c.offset)}
	if c.maxAgeIAT > 0 {
		opts = append(opts, rp.WithIssuedAtMaxAge(c.maxAgeIAT))
	}
	if c.maxAuthAge > 0 {
		opts = append(opts, rp.WithAuthTimeMaxAge(c.maxAuthAge))
	}
	nonce := c.nonce
	opts = append(opts, rp.WithNonce(func(context.Context) string { return nonce }))
	if c.acrRequired != "" {
		want := c.acrRequired
		opts = append(opts, rp.WithACRVerifier(func(acr string) error {
			if acr != want {
				return errors.New("acr not sufficient")
			}
			return nil
		}))
	}
	v := rp.NewIDTokenVerifier(c.issuer, c.clientID, staticOrSame(ks), opts...)
	// ---- the simulator moves the clock to the instant of verification ----
	time.Sleep(delta)
	o.SimSeconds += delta.Seconds()
	if c01AfterSleep != nil {
		c01AfterSleep()
	}
	var got *oidc.IDTokenClaims
	var err error
	if c.withAccess {
		got, err = rp.VerifyTokens[*oidc.IDTokenClaims](context.Background(), c.accessToken, tok, v)
	} else {
		got, err = rp.VerifyIDToken[*oidc.IDTokenClaims](context.Background(), tok, v)
	}
	accepted := err == nil
	holds, margin, why := c.reference(time.Now(), alg)
	desc := fmt.Sprintf("verify at t0+%v offset=%v maxIat=%v maxAuth=%v withAccess=%v dev=%v -> accepted=%v (reference holds=%v margin=%v %s)", delta, c.offset, c.maxAgeIAT, c.maxAuthAge, c.withAccess, c.desc, accepted, holds, margin, why)
	if onBoundary {
		o.Probe("on-a-time-boundary")
	}
	if accepted {
		o.Probe("accepted")
		if !holds && !margin {
			o.Violate("C01", "unsound", "rp.VerifyIDToken/"+why, step, "%s: claims were returned although the token violates: %s", desc, why)
		}
		// claims are returned unchanged
		back, _ := json.Marshal(got)
		var a, b map[string]any
		json.Unmarshal(back, &a)
		json.Unmarshal(payload, &b)
		for k, want := range b {
			if k == "aud" {
				if !sameSet(audList(a[k]), audList(want)) {
					o.Violate("C01", "claims-changed", "rp.VerifyIDToken/aud", step, "%s: returned aud %v, signed %v", desc, a[k], want)
				}
				continue
			}
			if fmt.Sprint(a[k]) != fmt.Sprint(want) {
				o.Violate("C01", "claims-changed", "rp.VerifyIDToken/"+k, step, "%s: returned claim %s=%v, signed %v", desc, k, a[k], want)
			}
		}
	} else {
		o.Probe("rejected")
		if holds && !margin && c01Faulted {
			o.Probe("rejected-while-jwks-endpoint-was-down")
		} else if holds && !margin {
			o.Violate("C01", "incomplete", "rp.VerifyIDToken", step, "%s: a correctly signed token that meets every condition with more than the rounding margin was rejected: %v", desc, err)
		}
	}
	return desc
}

func staticOrSame(ks oidc.KeySet) oidc.KeySet { return ks }

// the kid the current step signs with, and whether the JWKS endpoint failed a request during the current step
// (one world at a time per process; both are reset at the start of every step)
var (
	c01Kid     = "k1"
	c01Faulted bool
	// c01AfterSleep runs at the instant of verification, right before the step's own verification
	c01AfterSleep func()
)

// c01JWKS is the JWKS endpoint of the remote-key-set worlds.
type c01JWKS struct {
	pub       jose.JSONWebKey
	gen       int
	failNext  string
	kidless   bool
	hit       bool
	lastFault string
}

func (j *c01JWKS) RoundTrip(req *http.Request) (*http.Response, error) {
	mk := func(status int, body string) (*http.Response, error) {
		return &http.Response{StatusCode: status, Status: http.StatusText(status), Header: http.Header{"Content-Type": {"application/json"}}, Body: io.NopCloser(strings.NewReader(body)), Request: req}, nil
	}
	if f := j.failNext; f != "" {
		j.failNext, j.hit, j.lastFault, c01Faulted = "", true, f, true
		switch f {
		case "503":
			return mk(503, `{"message":"down"}`)
		case "garbage":
			return mk(200, `{"keys": 7`)
		}
		return nil, errors.New("simnet: connection reset by peer")
	}
	k := j.pub
	k.KeyID, k.Use = fmt.Sprintf("k%d", j.gen), "sig"
	if j.kidless {
		k.KeyID = ""
	}
	b, _ := json.Marshal(map[string]any{"keys": []jose.JSONWebKey{k}})
	return mk(200, string(b))
}

// reference is the executable reading of OIDC Core 3.1.3.7 as the statement summarises it. holds: every
// conjunct holds; margin: some time conjunct is within the rounding band (either answer is admissible).
func (c *c01Case) reference(now time.Time, alg jose.SignatureAlgorithm) (holds, margin bool, why string) {
	fail := func(w string) (bool, bool, string) { return false, false, w }
	if c.signWrongKey {
		return fail("signature")
	}
	if c.claims["iss"] != c.issuer {
		return fail("issuer")
	}
	if s, _ := c.claims["sub"].(string); s == "" {
		return fail("subject")
	}
	aud := audList(c.claims["aud"])
	if as, ok := c.claims["aud"].([]string); ok {
		aud = as
	}
	if !slices.Contains(aud, c.clientID) {
		return fail("audience")
	}
	azp, _ := c.claims["azp"].(string)
	if azp != "" && azp != c.clientID {
		return fail("azp")
	}
	if len(aud) > 1 && azp == "" {
		return fail("azp-required")
	}
	if n, _ := c.claims["nonce"].(string); n != c.nonce {
		return fail("nonce")
	}
	if c.acrRequired != "" {
		if a, _ := c.claims["acr"].(string); a != c.acrRequired {
			return fail("acr")
		}
	}
	if c.withAccess {
		if h, ok := c.claims["at_hash"].(string); ok && h != "" && h != leftHalfHash(alg, c.accessToken) {
			return fail("at_hash")
		}
	}
	near := func(a, b time.Time) bool { d := a.Sub(b); return d > -c01Band && d < c01Band }
	if !c.hasExp {
		return fail("exp-missing")
	}
	if !c.hasIat {
		return fail("iat-missing")
	}
	if c.maxAuthAge > 0 && !c.hasAuth {
		return fail("auth_time-missing")
	}
	// time conjuncts: first the decided failures, then the band
	m := false
	if near(now.Add(c.offset), c.exp) {
		m = true
	} else if !now.Add(c.offset).Before(c.exp) {
		return fail("expired")
	}
	if near(c.iat, now.Add(c.offset)) {
		m = true
	} else if c.iat.After(now.Add(c.offset)) {
		return fail("issued-in-the-future")
	}
	if c.maxAgeIAT > 0 {
		if near(c.iat, now.Add(-c.maxAgeIAT)) {
			m = true
		} else if c.iat.Before(now.Add(-c.maxAgeIAT)) {
			return fail("issued-too-long-ago")
		}
	}
	if c.maxAuthAge > 0 {
		if near(c.auth, now.Add(-c.maxAuthAge)) {
			m = true
		} else if c.auth.Before(now.Add(-c.maxAuthAge)) {
			return fail("authentication-too-old")
		}
	}
	if m {
		return false, true, "within-the-rounding-margin"
	}
	return true, false, "all-conjuncts-hold"
}
