package props

import (
	"slices"
	"time"

	jose "github.com/go-jose/go-jose/v4"
	"github.com/zitadel/oidc/v3/pkg/oidc"

	"verif/sim/world"
)

// presentation describes how a request presented client credentials, in terms
// the reference model understands (written from the statement of C05/C14, not from the code).
type presentation struct {
	creds world.Creds
	// for assertions the harness knows what it signed:
	assertIss, assertSub string
	assertAud            []string
	assertIat, assertExp time.Time
	assertKeyOf          string // client whose registered key signed it ("" = a key the storage does not hold for anybody)
	assertKid            string
	label                string
	bodyClient           string // a client_id form value that names another client than the credentials (must not win)
}

// claimedClient is the client id the presentation names.
func (p presentation) claimedClient() string {
	if p.creds.Mode == "assertion" {
		return p.assertIss
	}
	return p.creds.ID
}

// assertionValid is the reference reading of C14 for an assertion at time now: signed with the key the
// storage holds for the client named as issuer, audience contains the issuer, unexpired, issued neither
// in the future nor more than maxAge ago, subject equals issuer. margin is the clock-rounding slack: inside
// it the model does not decide (returns undecided=true).
func assertionValid(w *world.World, p presentation, now time.Time, maxAge, offset time.Duration) (valid, undecided bool) {
	c := w.Store.Clients[p.assertIss]
	if c == nil || c.Key == nil || p.assertKeyOf != p.assertIss || p.assertKid != c.Key.KeyID {
		return false, false
	}
	if p.assertSub != p.assertIss || !slices.Contains(p.assertAud, w.Issuer) {
		return false, false
	}
	const slack = 2 * time.Second
	near := func(a, b time.Time) bool { d := a.Sub(b); return d > -slack && d < slack }
	// expired: now+offset after exp
	if near(now.Add(offset), p.assertExp) || near(p.assertIat, now.Add(offset)) || near(p.assertIat, now.Add(-maxAge)) {
		return false, true
	}
	if now.Add(offset).After(p.assertExp) {
		return false, false
	}
	if p.assertIat.After(now.Add(offset)) {
		return false, false
	}
	if maxAge > 0 && p.assertIat.Before(now.Add(-maxAge)) {
		return false, false
	}
	return true, false
}

// authAllowed is the C05 matrix: may an endpoint act for the claimed client given this presentation?
// It is only ever used one-directionally (a success where this says false is the violation); reason names
// the cell of the matrix that forbids it. publicOK says whether the endpoint/grant admits public clients
// identified by client_id only.
func authAllowed(w *world.World, p presentation, publicOK bool, assertionEnabled bool, now time.Time) (allowed, undecided bool, reason string) {
	id := p.claimedClient()
	c := w.Store.Clients[id]
	if c == nil {
		return false, false, "unknown-client"
	}
	if c.Public() && p.creds.Mode != "assertion" && p.creds.Mode != "none" {
		// a public client has no secret: it is identified, never authenticated; a superfluous secret changes nothing
		if publicOK {
			return true, false, ""
		}
		return false, false, "public-client-not-admitted"
	}
	switch p.creds.Mode {
	case "basic", "post":
		if c.Auth == oidc.AuthMethodNone || c.Auth == oidc.AuthMethodPrivateKeyJWT {
			return false, false, "wrong-kind-of-credential"
		}
		if c.Secret == "" || p.creds.Secret != c.Secret {
			return false, false, "wrong-secret"
		}
		if c.Auth == oidc.AuthMethodPost && p.creds.Mode == "post" && !w.Conf.AuthMethodPost {
			return false, false, "post-disabled" // POST-registered clients only when the provider enables POST
		}
		return true, false, ""
	case "assertion":
		if c.Auth != oidc.AuthMethodPrivateKeyJWT {
			// a cell of its own for the one presentation that is faultless in itself (signed with the key the storage holds
			// for this very client, right audience and times): the known finding of 12.22 is exactly this cell, every other
			// assertion for such a client (another client's key, a foreign key, expired ...) stays in the general one
			if c.Key != nil && p.assertKeyOf == id && p.assertKid == c.Key.KeyID && p.assertSub == p.assertIss && slices.Contains(p.assertAud, w.Issuer) &&
				p.assertExp.After(now.Add(time.Minute)) && !p.assertIat.After(now) && p.assertIat.After(now.Add(-50*time.Minute)) {
				return false, false, "own-key-assertion-but-registered-for-a-secret"
			}
			return false, false, "wrong-kind-of-credential"
		}
		if !assertionEnabled {
			return false, false, "assertion-disabled"
		}
		v, u := assertionValid(w, p, now, time.Hour, time.Second)
		return v, u, "invalid-assertion"
	case "id-only", "assertion-type-only":
		return false, false, "no-secret"
	}
	return false, false, "no-credentials"
}

// mkAssertion builds a presentation with a signed assertion; signer names the client whose key is used
// ("" = an unrelated key the storage does not know).
func mkAssertion(w *world.World, iss, sub, signer, kid string, aud []string, iat, exp time.Time) presentation {
	var key jose.JSONWebKey
	keyOf := signer
	if k, ok := w.ClientKeys[signer]; ok {
		key = k
	} else {
		key = world.FixtureKey("rsa", 7)
		keyOf = ""
	}
	if kid != "" {
		key.KeyID = kid
	}
	a := w.Assertion(iss, sub, signer, aud, iat, exp, key)
	return presentation{creds: world.Creds{Mode: "assertion", Assertion: a}, assertIss: iss, assertSub: sub, assertAud: aud,
		assertIat: iat, assertExp: exp, assertKeyOf: keyOf, assertKid: key.KeyID}
}

// rightPresentation is how the client is registered to authenticate.
func rightPresentation(w *world.World, id string) presentation {
	c := w.Store.Clients[id]
	if c != nil && c.Auth == oidc.AuthMethodPrivateKeyJWT {
		now := time.Now()
		p := mkAssertion(w, id, id, id, "", []string{w.Issuer}, now, now.Add(time.Hour))
		p.label = "right-assertion"
		return p
	}
	return presentation{creds: w.RightCreds(id), label: "right"}
}
