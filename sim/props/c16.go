package props

import (
	"context"
	"encoding/base64"
	"fmt"
	"net/url"
	"slices"
	"strings"
	"testing"
	"time"

	"github.com/zitadel/oidc/v3/pkg/client/rp"
	"github.com/zitadel/oidc/v3/pkg/oidc"
	"github.com/zitadel/oidc/v3/pkg/op"

	"verif/sim/kernel"
	"verif/sim/world"
)

// C16: device grant - tokens only after user approval and only to the initiating client.

type devModel struct {
	code, userCode string
	client         string
	scopes         []string
	expires        time.Time
	exact          bool // expires is the instant recorded by the storage
	approvedBy     string
	denied         bool
	tokens         int
}

type devWorld struct {
	w     *world.World
	o     *kernel.Outcome
	step  int
	devs  []*devModel
	codes map[string]bool
	rpWeb *world.RPNode
	tw    *tokenWorld
}

func (d *devWorld) viol(rule, site, format string, a ...any) {
	d.o.Violate("C16", rule, "router"+d.w.Router+"/"+site, d.step, format, a...)
}

func (d *devWorld) start(ch *kernel.Chooser) string {
	w := d.w
	client := honestClients[ch.Int(len(honestClients))]
	p := d.tw.pickPresentation(ch, client)
	if ch.Bool(3, 4) {
		p = rightPresentation(w, client)
	}
	scopes := append([]string{oidc.ScopeOpenID}, ch.Subset([]string{oidc.ScopeEmail, oidc.ScopeProfile, oidc.ScopeOfflineAccess})...)
	if ch.Bool(1, 3) {
		// scopes of the application's own, known to the client's registration or not: the device grant has no scope
		// validation of its own, what the device asked for is what the user is shown and what the tokens carry
		scopes = append(scopes, []string{"api", "read:things", "custom:x"}[ch.Int(3)])
		w.O.Probe("device-requests-with-a-scope-of-the-application's-own")
	}
	r := w.PostForm("/device_authorization", url.Values{"scope": {strings.Join(scopes, " ")}}, p.creds)
	desc := fmt.Sprintf("device_authorization by %s (%s) -> %d", client, p.label, statusOf(r))
	if panicProbe(d.o, r) || r.Err != nil {
		return desc
	}
	var da struct {
		DeviceCode              string `json:"device_code"`
		UserCode                string `json:"user_code"`
		VerificationURI         string `json:"verification_uri"`
		VerificationURIComplete string `json:"verification_uri_complete"`
		ExpiresIn               int    `json:"expires_in"`
		Interval                int    `json:"interval"`
	}
	if r.Ex != nil {
		for _, j := range w.Store.JournalFor(r.Ex.ID) {
			if j.Method == "StoreDeviceAuthorization" && strings.Contains(j.Err, "user code already exists") {
				d.o.Probe("user-code-collisions")
			}
		}
	}
	if r.Status != 200 || jsonUnmarshal(r.Body, &da) != nil || da.DeviceCode == "" {
		return desc
	}
	d.o.Probe("device-started")
	cfg := w.Conf.DeviceAuthorization
	cc := w.Store.Clients[p.claimedClient()]
	if cc == nil || !cc.HasGrant(oidc.GrantTypeDeviceCode) {
		d.viol("unregistered-client", "device_authorization", "%s: device code issued to a client that is unknown or not registered for the device grant", desc)
	}
	// unguessable device code, never repeated
	raw, err := base64.RawURLEncoding.DecodeString(da.DeviceCode)
	if err != nil || len(raw)*8 < 128 {
		d.viol("device-code", "device_authorization", "%s: device code %q has fewer than 128 bits", desc, da.DeviceCode)
	}
	if d.codes[da.DeviceCode] {
		d.viol("device-code", "device_authorization-repeat", "%s: device code %q was issued twice", desc, da.DeviceCode)
	}
	d.codes[da.DeviceCode] = true
	// user code drawn from the configured alphabet and format
	alphabet := []rune(cfg.UserCode.CharSet)
	n := 0
	for i, part := range strings.Split(da.UserCode, "-") {
		pr := []rune(part)
		if cfg.UserCode.DashInterval > 0 && len(pr) > cfg.UserCode.DashInterval {
			d.viol("user-code", "device_authorization", "%s: user code %q group %d longer than the dash interval %d", desc, da.UserCode, i, cfg.UserCode.DashInterval)
		}
		if cfg.UserCode.DashInterval > 0 && len(pr) < cfg.UserCode.DashInterval && n+len(pr) != cfg.UserCode.CharAmount {
			d.viol("user-code", "device_authorization", "%s: user code %q has a short group before the end", desc, da.UserCode)
		}
		for _, c := range pr {
			if !slices.Contains(alphabet, c) {
				d.viol("user-code", "device_authorization", "%s: user code %q has %q which is not in the alphabet %q", desc, da.UserCode, c, cfg.UserCode.CharSet)
			}
		}
		n += len(pr)
	}
	if n != cfg.UserCode.CharAmount {
		d.viol("user-code", "device_authorization", "%s: user code %q has %d characters, configured %d", desc, da.UserCode, n, cfg.UserCode.CharAmount)
	}
	if cfg.UserCode.DashInterval <= 0 && strings.Contains(da.UserCode, "-") && !strings.ContainsRune(cfg.UserCode.CharSet, '-') {
		d.viol("user-code", "device_authorization", "%s: user code %q has dashes although the dash interval is %d", desc, da.UserCode, cfg.UserCode.DashInterval)
	}
	wantURI := w.Issuer + cfg.UserFormPath
	if cfg.UserFormURL != "" {
		wantURI = cfg.UserFormURL // the (older) setting of an absolute address takes the place of issuer + path
	}
	if da.VerificationURI != wantURI {
		d.viol("verification-uri", "device_authorization", "%s: verification_uri %q, expected %q", desc, da.VerificationURI, wantURI)
	}
	if u, err := url.Parse(da.VerificationURIComplete); err != nil || strings.TrimSuffix(da.VerificationURIComplete, "?"+u.RawQuery) != wantURI || u.Query().Get("user_code") != da.UserCode {
		d.viol("verification-uri", "device_authorization-complete", "%s: verification_uri_complete %q does not lead to %q with user_code %q", desc, da.VerificationURIComplete, wantURI, da.UserCode)
	}
	if da.ExpiresIn != int(cfg.Lifetime/time.Second) || da.Interval != int(cfg.PollInterval/time.Second) {
		d.viol("lifetime", "device_authorization", "%s: expires_in/interval %d/%d, configured %v/%v", desc, da.ExpiresIn, da.Interval, cfg.Lifetime, cfg.PollInterval)
	}
	// the user code shown to the user is the one the flow was stored under (the user approves by that code)
	if dev := w.Store.Devices[da.DeviceCode]; dev != nil && dev.UserCode != da.UserCode {
		d.viol("user-code", "device_authorization-not-stored", "%s: the response shows user code %q, the flow was stored under %q", desc, da.UserCode, dev.UserCode)
	}
	// the flow belongs to the client that authenticated, whatever else the request body says
	if dev := w.Store.Devices[da.DeviceCode]; dev != nil && dev.State.ClientID != p.claimedClient() {
		d.viol("initiating-client", "device_authorization", "%s: the device code was stored for client %q although the request was authenticated as %q", desc, dev.State.ClientID, p.claimedClient())
	}
	dm := &devModel{code: da.DeviceCode, userCode: da.UserCode, client: p.claimedClient(), scopes: scopes, expires: time.Now().Add(cfg.Lifetime)}
	if dev := w.Store.Devices[da.DeviceCode]; dev != nil && dev.State != nil {
		// the instant the provider told the storage: the flow is over after it, to the nanosecond
		dm.expires, dm.exact = dev.State.Expires, true
	}
	d.devs = append(d.devs, dm)
	return desc + " code=" + short(da.DeviceCode) + " user_code=" + da.UserCode
}

func (d *devWorld) pickDev(ch *kernel.Chooser) *devModel {
	if len(d.devs) == 0 {
		return nil
	}
	return d.devs[ch.Int(len(d.devs))]
}

func (d *devWorld) decide(ch *kernel.Chooser) string {
	m := d.pickDev(ch)
	if m == nil {
		return "decide: no device flow"
	}
	dev := d.w.Store.DeviceByUserCode(m.userCode)
	if dev == nil {
		return "decide: user code unknown"
	}
	if ch.Bool(1, 4) {
		d.w.Store.DenyDevice(dev.Code)
		m.denied = true
		return "deny " + m.userCode
	}
	u := ch.Pick("u1", "u2")
	if m.approvedBy == "" {
		// the user approves what the device shows: the verification page looks the flow up by that user code
		d.w.Store.ApproveDevice(dev.Code, u)
		m.approvedBy = u
	}
	return "approve " + m.userCode + " by " + m.approvedBy
}

func (d *devWorld) poll(ch *kernel.Chooser) string {
	w := d.w
	m := d.pickDev(ch)
	if m == nil {
		return "poll: no device flow"
	}
	caller := m.client
	if ch.Bool(1, 4) {
		caller = honestClients[ch.Int(len(honestClients))]
	}
	p := d.tw.pickPresentation(ch, caller)
	if ch.Bool(3, 4) {
		p = rightPresentation(w, caller)
	}
	code, codeKind := m.code, "genuine"
	if ch.Bool(1, 10) {
		code, codeKind = "unknown-"+m.code, "unknown"
	}
	timeoutFault := ch.Bool(1, 8)
	if timeoutFault {
		fired := false
		// either the request's own deadline passes while the storage stalls, or the storage gives up earlier on its
		// own and says so with an error that wraps context.DeadlineExceeded
		kind := ch.Pick(world.FaultTimeout, world.FaultTimeoutFast)
		w.Store.Inject = func(n int, method string, rid int) string {
			if method == "GetDeviceAuthorizatonState" && !fired {
				fired = true
				return kind
			}
			return ""
		}
	}
	if left := time.Until(m.expires); !timeoutFault && m.exact && left > 0 && left < 15*time.Minute && ch.Bool(1, 5) {
		// the device polls right around the end of the flow's lifetime
		delta := []time.Duration{-time.Millisecond, 0, time.Millisecond, 300 * time.Millisecond, 999 * time.Millisecond, 1001 * time.Millisecond}[ch.Int(6)]
		time.Sleep(left + delta)
		d.o.SimSeconds += (left + delta).Seconds()
		d.o.Probe("polls-around-the-expiry-instant")
	}
	now := time.Now()
	r := w.PostForm("/oauth/token", url.Values{"grant_type": {string(oidc.GrantTypeDeviceCode)}, "device_code": {code}}, p.creds)
	after := time.Now()
	w.Store.Inject = nil
	desc := fmt.Sprintf("poll %s code of %s by %s (%s) approved=%q denied=%v expired=%v timeout=%v -> %d", codeKind, m.client, caller, p.label, m.approvedBy, m.denied, now.After(m.expires), timeoutFault, statusOf(r))
	if panicProbe(d.o, r) || r.Err != nil {
		return desc
	}
	if timeoutFault && w.Store.FaultsFired[world.FaultTimeout]+w.Store.FaultsFired[world.FaultTimeoutFast] > 0 {
		d.o.Fault("storage-timeout")
	}
	tr, ok := isTokenSuccess(r)
	var errCode string
	if !ok {
		var m2 map[string]any
		if jsonUnmarshal(r.Body, &m2) == nil {
			errCode, _ = m2["error"].(string)
		}
		desc += " " + errCode
	}
	if ok {
		d.o.Probe("device-tokens")
		m.tokens++
		if codeKind != "genuine" {
			d.viol("unknown-code", "device_token", "%s: an unknown device code yielded tokens", desc)
			return desc
		}
		if m.approvedBy == "" {
			d.viol("unapproved", "device_token", "%s: tokens before the user approved", desc)
		}
		if m.denied {
			d.viol("denied", "device_token", "%s: tokens although the user denied", desc)
		}
		if p.claimedClient() != m.client {
			d.viol("foreign-client", "device_token", "%s: tokens for a device code of %q went to %q", desc, m.client, p.claimedClient())
		}
		allowed, und, why := authAllowed(w, p, true, w.Conf.AuthMethodPrivateKeyJWT || w.Router == "A", time.Now())
		if !und && !allowed {
			d.viol("client-auth", "device_token/"+why, "%s: tokens although presentation %q does not authenticate client %q (%s)", desc, p.label, caller, why)
		}
		if id, sub, _, dok := w.DecodeAccess(tr.AccessToken); dok {
			t := w.Store.TokenSnapshot(id)
			if sub != m.approvedBy || t == nil || t.Subject != m.approvedBy {
				d.viol("token-binding", "device_token", "%s: token subject %q, approving user %q", desc, sub, m.approvedBy)
			}
			if t != nil && !sameSet(t.Scopes, m.scopes) {
				d.viol("token-binding", "device_token-scopes", "%s: token scopes %v, requested %v", desc, t.Scopes, m.scopes)
			}
		}
		if !sameSet(tr.ScopeList(), m.scopes) {
			d.viol("token-binding", "device_token-response-scopes", "%s: response scope %v, requested %v", desc, tr.ScopeList(), m.scopes)
		}
		if tr.IDToken != "" {
			if pl := world.JWTPayload(tr.IDToken); pl["sub"] != m.approvedBy {
				d.viol("token-binding", "device_token-idtoken", "%s: id_token sub %v, approving user %q", desc, pl["sub"], m.approvedBy)
			}
		}
		return desc + " TOKENS"
	}
	// refusals: the error code is dictated by the model state, for the initiating client presenting itself as registered
	if r.Status < 400 {
		d.viol("refusal-shape", "device_token", "%s: neither tokens nor an error status", desc)
		return desc
	}
	if p.claimedClient() != m.client || (p.label != "right" && p.label != "right-assertion") || codeKind != "genuine" {
		return desc
	}
	// the dictated answers are demanded of clients that authenticate by Basic or are public: the device token
	// endpoint of the Provider route reads no client_secret from the form, so POST-registered clients are refused
	// there before the state is looked at (an interoperability limit, not a statement of C16)
	if a := w.Store.Clients[m.client].Auth; a == oidc.AuthMethodPost || a == oidc.AuthMethodPrivateKeyJWT {
		return desc
	}
	nearExpiry := now.Sub(m.expires) > -2*time.Second && now.Sub(m.expires) < 2*time.Second
	var want []string
	switch {
	case timeoutFault:
		want = []string{"slow_down"}
	case m.denied:
		want = []string{"access_denied"}
	case m.approvedBy != "":
		want = []string{"expired_token", "TOKENS"}
	case m.exact && now.After(m.expires):
		want = []string{"expired_token"}
	case m.exact && !after.After(m.expires):
		want = []string{"authorization_pending"}
	case m.exact || nearExpiry:
		want = []string{"expired_token", "authorization_pending"}
	case now.After(m.expires):
		want = []string{"expired_token"}
	default:
		want = []string{"authorization_pending"}
	}
	d.o.Probe("poll-answer-" + errCode)
	if !slices.Contains(want, errCode) {
		// a client whose registration cannot authenticate on this provider configuration is refused earlier
		if errCode == "invalid_client" || errCode == "unauthorized_client" {
			cc := w.Store.Clients[m.client]
			if (cc.Auth == oidc.AuthMethodPost && !w.Conf.AuthMethodPost) || (cc.Auth == oidc.AuthMethodPrivateKeyJWT) || !cc.HasGrant(oidc.GrantTypeDeviceCode) {
				return desc
			}
		}
		d.viol("wrong-answer", "device_token/"+strings.Join(want, "|"), "%s: answered %q, the state of the flow demands %v", desc, errCode, want)
	}
	return desc
}

// pollLoop runs the real client polling loop (rp.DeviceAccessToken) on the simulated clock and checks progress.
func (d *devWorld) pollLoop(ch *kernel.Chooser) string {
	w := d.w
	if d.rpWeb == nil || !w.Store.Clients["web"].HasGrant(oidc.GrantTypeDeviceCode) {
		return "poll-loop: web client cannot use the device grant"
	}
	ctx, cancel := context.WithTimeout(context.Background(), w.Conf.DeviceAuthorization.Lifetime+time.Minute)
	defer cancel()
	da, err := rp.DeviceAuthorization(ctx, []string{oidc.ScopeOpenID, oidc.ScopeEmail}, d.rpWeb.RP, nil)
	if err != nil {
		d.o.Probe("poll-loop-start-failed")
		return fmt.Sprintf("poll-loop: device authorization failed: %v", err)
	}
	m := &devModel{code: da.DeviceCode, userCode: da.UserCode, client: "web", scopes: []string{oidc.ScopeOpenID, oidc.ScopeEmail}, expires: time.Now().Add(w.Conf.DeviceAuthorization.Lifetime)}
	d.devs = append(d.devs, m)
	d.codes[da.DeviceCode] = true
	interval := time.Duration(da.Interval) * time.Second
	if interval <= 0 {
		interval = time.Second
	}
	type res struct {
		tok *oidc.AccessTokenResponse
		err error
		at  time.Time
	}
	done := make(chan res, 1)
	go func() {
		tok, err := rp.DeviceAccessToken(ctx, da.DeviceCode, interval, d.rpWeb.RP)
		done <- res{tok, err, time.Now()}
	}()
	waitPolls := ch.Range(0, 3)
	w.Advance(time.Duration(waitPolls)*interval + interval/2)
	action := ch.Pick("approve", "approve", "approve", "deny", "expire")
	var decidedAt time.Time
	switch action {
	case "approve":
		w.Store.ApproveDevice(da.DeviceCode, "u1")
		m.approvedBy = "u1"
		decidedAt = time.Now()
	case "deny":
		w.Store.DenyDevice(da.DeviceCode)
		m.denied = true
		decidedAt = time.Now()
	case "expire":
	}
	var got res
	select {
	case got = <-done:
	case <-time.After(w.Conf.DeviceAuthorization.Lifetime + 2*time.Minute):
		d.viol("progress", "poll-loop", "rp.DeviceAccessToken did not return within the lifetime of the device code (action %s)", action)
		cancel()
		got = <-done
	}
	w.O.SimSeconds += time.Since(decidedAt).Seconds()
	desc := fmt.Sprintf("poll-loop web: %d polls then %s -> err=%v after %v", waitPolls, action, got.err, got.at.Sub(decidedAt))
	d.o.Probe("poll-loop-" + action)
	switch action {
	case "approve":
		if got.err != nil || got.tok == nil || got.tok.AccessToken == "" {
			d.viol("progress", "poll-loop-approve", "%s: approved and fault-free, but the client did not get tokens", desc)
		} else {
			m.tokens++
			if lat := got.at.Sub(decidedAt); lat > 2*interval {
				d.viol("progress", "poll-loop-latency", "%s: tokens arrived %v after approval, more than two poll intervals (%v)", desc, lat, interval)
			}
			if id, sub, _, ok := w.DecodeAccess(got.tok.AccessToken); !ok || sub != "u1" || w.Store.TokenSnapshot(id) == nil {
				d.viol("token-binding", "poll-loop", "%s: token subject %q, approving user u1", desc, sub)
			}
		}
	case "deny":
		if got.err == nil {
			d.viol("denied", "poll-loop", "%s: tokens although the user denied", desc)
		} else if !strings.Contains(got.err.Error(), "access_denied") {
			d.viol("wrong-answer", "poll-loop-deny", "%s: expected access_denied", desc)
		}
	case "expire":
		if got.err == nil {
			d.viol("unapproved", "poll-loop", "%s: tokens without approval", desc)
		} else if !strings.Contains(got.err.Error(), "expired_token") {
			d.viol("wrong-answer", "poll-loop-expire", "%s: expected expired_token", desc)
		}
	}
	return desc
}

func RunC16(t *testing.T, spec kernel.Spec) *kernel.Outcome {
	o := inBubble(t, spec, func(o *kernel.Outcome, tape *kernel.Tape) {
		cfg2 := tape.Sub("cfg2")
		caps := world.Caps{ClientCredentials: cfg2.Bool(1, 2), TokenExchange: cfg2.Bool(1, 2), Device: true, FromRequest: cfg2.Bool(1, 3)}
		ucs := []op.UserCodeConfig{op.UserCodeBase20, op.UserCodeDigits, {CharSet: "äöüß€", CharAmount: 6, DashInterval: 2}, {CharSet: "AB", CharAmount: 5, DashInterval: 0},
			{CharSet: "xyz", CharAmount: 7, DashInterval: 3}, {CharSet: "Q", CharAmount: 1, DashInterval: 1}, {CharSet: "AB", CharAmount: 1, DashInterval: 0}, {CharSet: "ABC", CharAmount: 1, DashInterval: 0}, {CharSet: "0123456789abcdef", CharAmount: 12, DashInterval: 12}}
		uc := ucs[cfg2.Int(len(ucs))]
		tenants := 1
		if tc := tape.Sub("cfg-tenants"); tc.Bool(1, 3) {
			tenants = 2 + tc.Int(2) // the verification URIs belong to the issuer of the request that started the flow
		}
		w, err := world.NewStd(o, tape, world.StdOptions{Router: spec.Params["router"], ForceCaps: &caps, Tenants: tenants, ForceConfig: func(c *op.Config) {
			c.DeviceAuthorization.UserCode = uc
			if cfg2.Bool(1, 5) {
				c.DeviceAuthorization.UserFormURL = "https://login.sim/device-form"
				o.Probe("device-form-at-an-absolute-address")
			}
		}})
		if err != nil {
			o.Infra = "world: " + err.Error()
			return
		}
		for _, id := range w.SortedClients() { // most clients may use the device grant
			c := w.Store.Clients[id]
			if !c.HasGrant(oidc.GrantTypeDeviceCode) && cfg2.Bool(2, 3) {
				c.Grants = append(c.Grants, oidc.GrantTypeDeviceCode)
			}
		}
		d := &devWorld{w: w, o: o, codes: map[string]bool{}}
		d.tw = &tokenWorld{w: w, o: o, prop: "C16", b: w.Net.NewBrowser("b1")}
		if n, err := world.BuildRP(context.Background(), w, world.RPOptions{Client: "web", Secret: "secret-web", Host: "web.sim", Redirect: "https://web.sim/callback", Scopes: []string{"openid"}, SigAlgs: []string{string(w.SigAlg)}}); err == nil {
			d.rpWeb = n
		} else {
			o.Logf("rp: %v", err)
		}
		n := 30 + tape.Sub("cfg").Int(40)
		steps(o, tape, n, func(i int, ch *kernel.Chooser) string {
			d.step, d.tw.step = i, i
			if len(w.Issuers) > 1 {
				w.UseIssuer(ch.Int(len(w.Issuers)))
				o.Probe("multi-tenant-steps")
			}
			switch x := ch.Int(20); {
			case x < 4 || i < 2:
				return d.start(ch)
			case x < 8:
				return d.decide(ch)
			case x < 13:
				return d.poll(ch)
			case x < 15:
				return d.race(ch)
			case x < 17:
				var dur time.Duration
				switch ch.Int(3) {
				case 0:
					dur = w.Conf.DeviceAuthorization.PollInterval
				case 1:
					dur = w.Conf.DeviceAuthorization.Lifetime + time.Second
				default:
					dur = time.Duration(ch.Range(1, 120)) * time.Second
				}
				w.Advance(dur)
				return fmt.Sprintf("advance %v", dur)
			default:
				return d.pollLoop(ch)
			}
		})
		o.Log = append([]string{fmt.Sprintf("config: router=%s usercode=%+v lifetime=%v interval=%v post=%v pkjwt=%v", w.Router, uc, w.Conf.DeviceAuthorization.Lifetime, w.Conf.DeviceAuthorization.PollInterval, w.Conf.AuthMethodPost, w.Conf.AuthMethodPrivateKeyJWT)}, o.Log...)
		o.Sample = map[string]any{"seed": spec.Seed, "router": w.Router, "steps": o.Trace}
	})
	o.Nontrivial = o.Probes["device-tokens"]+o.Probes["poll-loop-approve"] > 0 && o.Probes["device-started"] > 0
	return o
}
