package props

import (
	"context"
	"encoding/json"
	"fmt"
	"net/http"
	"net/url"
	"slices"
	"strings"
	"testing"

	jose "github.com/go-jose/go-jose/v4"
	"github.com/zitadel/oidc/v3/pkg/oidc"
	"github.com/zitadel/oidc/v3/pkg/op"

	"verif/sim/kernel"
	"verif/sim/world"
)

// C04: a code yields tokens once, only to its client, redirect URI and PKCE proof.

type pendingAuth struct {
	id        string
	client    string
	browser   *world.Browser
	redirect  string
	verifier  string
	method    string
	nonce     string
	state     string
	scopes    []string
	viaObject bool
}

type issuedCode struct {
	code      string
	ar        *world.AuthReq
	verifier  string
	method    string // the PKCE method the authorization request carried ("" = no challenge)
	successes int
	attempts  int
	premature bool // issued by a callback that was called although the user never logged in
}

type codeWorld struct {
	w        *world.World
	o        *kernel.Outcome
	prop     string
	pending  []*pendingAuth
	codes    []*issuedCode
	browsers []*world.Browser
	n        int
	faulty   bool
	idTokens []string // ID tokens of earlier successful exchanges (usable as id_token_hint)
}

func (cw *codeWorld) startAuth(ch *kernel.Chooser, client string) string {
	w := cw.w
	c := w.Store.Clients[client]
	b := cw.browsers[ch.Int(len(cw.browsers))]
	cw.n++
	p := &pendingAuth{client: client, browser: b, redirect: c.Redirects[0], nonce: fmt.Sprintf("n-%d", cw.n), state: fmt.Sprintf("st-%d", cw.n)}
	p.scopes = append([]string{oidc.ScopeOpenID}, ch.Subset([]string{oidc.ScopeProfile, oidc.ScopeEmail, oidc.ScopeOfflineAccess})...)
	pk := ch.Int(10)
	switch {
	case c.Public() && pk < 8, !c.Public() && pk < 4:
		p.method = "S256"
	case pk == 8 || (!c.Public() && pk == 4):
		p.method = "plain"
		if ch.Bool(1, 2) {
			// the method is left out: RFC 7636 4.3 - "defaults to plain if not present in the request"
			p.method = "plain-unnamed"
			cw.o.Probe("challenge-without-a-method")
		}
	}
	if c.AppType == op.ApplicationTypeNative && strings.HasPrefix(p.redirect, "http://localhost/") && ch.Bool(1, 2) {
		// a native app listens on whatever loopback port it got (RFC 8252 section 7.3): the authorization endpoint
		// accepts any port for a registered loopback URI; the code stays bound to the URI that was used
		p.redirect = strings.Replace(p.redirect, "http://localhost/", ch.Pick("http://localhost:51001/", "http://127.0.0.1:8402/", "http://localhost:7/"), 1)
		cw.o.Probe("native-loopback-port-variation")
	}
	ap := world.AuthParams{Client: client, RedirectURI: p.redirect, ResponseType: "code", Scope: strings.Join(p.scopes, " "), State: p.state, Nonce: p.nonce}
	if p.method != "" {
		p.verifier = fmt.Sprintf("verifier-%d.0123456789_abcdefghijklmnopqrstuvwxyz~ABCDEF", cw.n)
		ap.ChallengeMethod = p.method
		if p.method == "S256" {
			ap.Challenge = world.S256(p.verifier)
		} else {
			ap.Challenge = p.verifier
		}
		if p.method == "plain-unnamed" {
			ap.ChallengeMethod = ""
		}
	}
	if key, ok := w.ClientKeys[client]; ok && w.Conf.RequestObjectSupported && ch.Bool(1, 2) {
		// state, nonce and the PKCE parameters travel only inside a request object signed with the client's key
		p.viaObject = true
		ro := map[string]any{"iss": client, "aud": []string{w.Issuer}, "client_id": client, "response_type": "code", "state": p.state, "nonce": p.nonce}
		if ap.Challenge != "" {
			ro["code_challenge"] = ap.Challenge
			if ap.ChallengeMethod != "" {
				ro["code_challenge_method"] = ap.ChallengeMethod
			}
		}
		payload, _ := json.Marshal(ro)
		ap.State, ap.Nonce, ap.Challenge, ap.ChallengeMethod = "", "", "", ""
		ap.Extra = url.Values{"request": {signRaw(payload, jose.RS256, key.Key, key.KeyID)}}
		cw.o.Probe("authorization-via-request-object")
	}
	hinted := false
	if len(cw.idTokens) > 0 && ch.Bool(1, 4) {
		// the request names a user through the ID token of an earlier login (a hint, not an authentication)
		if ap.Extra == nil {
			ap.Extra = url.Values{}
		}
		ap.Extra.Set("id_token_hint", cw.idTokens[ch.Int(len(cw.idTokens))])
		hinted = true
		cw.o.Probe("authorization-with-id-token-hint")
	}
	resp, id := w.Authorize(b, ap)
	if id == "" {
		return fmt.Sprintf("start %s pkce=%s object=%v hint=%v -> refused (%d)", client, p.method, p.viaObject, hinted, resp.Status)
	}
	p.id = id
	cw.pending = append(cw.pending, p)
	return fmt.Sprintf("start %s pkce=%q object=%v -> %s", client, p.method, p.viaObject, id)
}

func (cw *codeWorld) login(ch *kernel.Chooser) string {
	if len(cw.pending) == 0 {
		return "login: nothing pending"
	}
	i := ch.Int(len(cw.pending))
	p := cw.pending[i]
	user, pass := "alice", "pw-alice"
	if ch.Bool(1, 3) {
		user, pass = "bob", "pw-bob"
	}
	if ch.Bool(1, 10) {
		r := cw.w.LoginAndCallback(p.browser, p.id, user, "wrong")
		return fmt.Sprintf("login %s wrong password -> %d", p.id, r.Status)
	}
	cw.pending = append(cw.pending[:i], cw.pending[i+1:]...)
	r := cw.w.LoginAndCallback(p.browser, p.id, user, pass)
	if r.Err != nil || r.Status != http.StatusFound {
		return fmt.Sprintf("login %s -> status %d err %v", p.id, r.Status, r.Err)
	}
	ar, err := world.DecodeAuthzResponse(r)
	if err != nil || ar.Params.Get("code") == "" {
		return fmt.Sprintf("login %s -> no code (%v)", p.id, err)
	}
	snap := cw.w.Store.AuthReqSnapshot(p.id)
	if snap == nil {
		return "login: auth request vanished"
	}
	code := ar.Params.Get("code")
	cw.w.Ledger.Codes[code] = p.id
	cw.codes = append(cw.codes, &issuedCode{code: code, ar: snap, verifier: p.verifier, method: p.method})
	cw.o.Probe("code-issued")
	return fmt.Sprintf("login %s as %s -> code %s", p.id, user, short(code))
}

// deviate builds one redemption request for a code: the honest one, changed by ndev deviations.
func (cw *codeWorld) deviate(ch *kernel.Chooser, ic *issuedCode, ndev int) (form url.Values, creds world.Creds, presentedClient string, devs []string) {
	w := cw.w
	owner := ic.ar.ClientID
	form = url.Values{"grant_type": {"authorization_code"}, "code": {ic.code}, "redirect_uri": {ic.ar.RedirectURI}}
	if ic.ar.Challenge != nil {
		form.Set("code_verifier", ic.verifier)
	}
	creds = w.RightCreds(owner)
	presentedClient = owner
	for d := 0; d < ndev; d++ {
		switch ch.Int(9) {
		case 0, 1: // another client presents its own, valid credentials
			others := slices.DeleteFunc(w.SortedClients(), func(s string) bool { return s == owner })
			other := others[ch.Int(len(others))]
			creds = w.RightCreds(other)
			presentedClient = other
			devs = append(devs, "foreign-client:"+other)
		case 2:
			c := w.Store.Clients[owner]
			alt := ic.ar.RedirectURI + "/x"
			if len(c.Redirects) > 1 && ch.Bool(1, 2) {
				alt = c.Redirects[1]
			}
			if u, err := url.Parse(ic.ar.RedirectURI); err == nil && u.Scheme == "http" && (u.Hostname() == "localhost" || u.Hostname() == "127.0.0.1") && ch.Bool(2, 3) {
				// another loopback URI of the same path: fine at the authorization endpoint, not the URI of this code
				u.Host = ch.Pick("localhost:51002", "127.0.0.1:51001", "localhost", "[::1]:51001")
				if u.String() != ic.ar.RedirectURI {
					alt = u.String()
					cw.o.Probe("code-redeemed-with-another-loopback-uri")
				}
			}
			form.Set("redirect_uri", alt)
			devs = append(devs, "wrong-redirect")
		case 3:
			form.Del("redirect_uri")
			devs = append(devs, "missing-redirect")
		case 4:
			if ic.method == "S256" && ch.Bool(1, 2) {
				// the public challenge string itself (what an observer of the authorization request knows)
				form.Set("code_verifier", world.S256(ic.verifier))
				devs = append(devs, "challenge-as-verifier")
			} else {
				form.Set("code_verifier", "wrong-verifier-0123456789abcdefghijklmnopqrstuvwxyz-ABCDEFG")
				devs = append(devs, "wrong-verifier")
			}
		case 5:
			form.Del("code_verifier")
			devs = append(devs, "missing-verifier")
		case 6:
			if creds.Mode == "basic" || creds.Mode == "post" {
				creds.Secret = "not-the-secret"
				devs = append(devs, "wrong-secret")
			}
		case 7:
			if creds.Mode != "id-only" {
				creds = world.Creds{Mode: "id-only", ID: presentedClient}
				devs = append(devs, "no-auth")
			}
		case 8:
			if creds.Mode == "basic" {
				creds.Mode = "post"
				devs = append(devs, "secret-by-post")
			}
		}
	}
	return form, creds, presentedClient, devs
}

// prematureCallback calls the callback endpoint for a request whose user has not logged in. A code that comes out
// of it is kept (and redeemed later like any other): no exchange of it may ever succeed.
func (cw *codeWorld) prematureCallback(ch *kernel.Chooser) string {
	if len(cw.pending) == 0 {
		return "premature callback: nothing pending"
	}
	p := cw.pending[ch.Int(len(cw.pending))]
	r := p.browser.Get(cw.w.Issuer + "/authorize/callback?id=" + p.id)
	cw.o.Probe("premature-callbacks")
	desc := fmt.Sprintf("callback for %s before any login -> %d", p.id, statusOf(r))
	if r.Err != nil || r.Status != http.StatusFound {
		return desc
	}
	ar, err := world.DecodeAuthzResponse(r)
	if err != nil || ar.Params.Get("code") == "" {
		return desc + " (error response)"
	}
	snap := cw.w.Store.AuthReqSnapshot(p.id)
	if snap == nil {
		return desc + " (request vanished)"
	}
	cw.codes = append(cw.codes, &issuedCode{code: ar.Params.Get("code"), ar: snap, verifier: p.verifier, method: p.method, premature: true})
	cw.o.Probe("code-from-premature-callback")
	return desc + " CODE " + short(ar.Params.Get("code"))
}

// redeem sends one code exchange with a chosen set of deviations and checks the answer.
func (cw *codeWorld) redeem(step int, ch *kernel.Chooser) string {
	if len(cw.codes) == 0 {
		return "redeem: no code"
	}
	w := cw.w
	ic := cw.codes[ch.Int(len(cw.codes))]
	owner := ic.ar.ClientID
	form, creds, presentedClient, devs := cw.deviate(ch, ic, []int{0, 0, 0, 1, 1, 1, 1, 2}[ch.Int(8)])
	hadSuccess := ic.successes > 0
	ic.attempts++
	// environment faults on this one request: the response is lost on the way back (the client will retry), or one
	// storage call of the request fails
	env := ""
	roll := ch.Int(12)
	if !cw.faulty {
		roll = 99 // fault-free configuration: relaxed oracles can hide nothing here
	}
	switch roll {
	case 0:
		env = "response-lost"
		w.Net.Fault = func(ex *world.Exchange) string { return "drop-resp" }
		cw.o.Fault("drop-resp")
	case 1:
		k := ch.Range(1, 9)
		env = fmt.Sprintf("storage-error@%d", k)
		fired := false
		w.Store.Inject = func(n int, method string, rid int) string {
			if n == k && !fired {
				fired = true
				cw.o.Fault(world.FaultError)
				return world.FaultError
			}
			return ""
		}
	}
	r := w.PostForm("/oauth/token", form, creds)
	w.Net.Fault, w.Store.Inject = nil, nil
	if env == "response-lost" && r.Ex != nil && r.Ex.Panic == "" {
		// what the server did counts: judge its answer, not the client's error
		r = &world.Resp{Status: r.Ex.Status, Body: r.Ex.RespBody, Ex: r.Ex}
	}
	desc := fmt.Sprintf("redeem code of %s by %s devs=%v replay=%v env=%q -> %d", owner, presentedClient, devs, hadSuccess, env, r.Status)
	return cw.evalRedeem(step, desc, ic, form, creds, presentedClient, len(devs) > 0 || strings.HasPrefix(env, "storage"), hadSuccess, r)
}

// evalRedeem applies the C04 oracle to one answer of the token endpoint.
func (cw *codeWorld) evalRedeem(step int, desc string, ic *issuedCode, form url.Values, creds world.Creds, presentedClient string, deviated, hadSuccess bool, r *world.Resp) string {
	w := cw.w
	owner := ic.ar.ClientID
	if panicProbe(cw.o, r) || r.Err != nil {
		return desc + " (no response)"
	}
	if deviated || hadSuccess {
		cw.o.Probe("adversarial-redeem")
	}
	tr, err := world.ParseTokenResponse(r.Body)
	success := r.Status == 200 && err == nil && (tr.AccessToken != "" || tr.IDToken != "" || tr.RefreshToken != "")
	if !success {
		if !deviated && !hadSuccess {
			cw.o.Probe("honest-redeem-refused")
			cw.o.Logf("  honest redeem refused: %d %s", r.Status, r.Body)
		}
		return desc
	}
	site := "router" + w.Router
	viol := func(rule, format string, a ...any) {
		cw.o.Violate(cw.prop, rule, site, step, "%s: %s", desc, fmt.Sprintf(format, a...))
	}
	ic.successes++
	cw.o.Probe("redeem-success")
	if !deviated && !hadSuccess {
		cw.o.Probe("honest-redeem-success")
	}
	// --- oracle: success implies every precondition of the statement ---
	ownerClient := w.Store.Clients[owner]
	if presentedClient != owner {
		viol("cross-client", "tokens for a code of client %q were issued to client %q", owner, presentedClient)
	} else {
		switch {
		case ownerClient.Public():
		case ownerClient.Auth == oidc.AuthMethodPrivateKeyJWT:
			if creds.Mode != "assertion" {
				viol("client-auth", "private_key_jwt client redeemed without assertion (mode %s)", creds.Mode)
			}
		default:
			if (creds.Mode != "basic" && creds.Mode != "post") || creds.Secret != ownerClient.Secret {
				viol("client-auth", "confidential client redeemed without its secret (mode %s)", creds.Mode)
			}
		}
	}
	if form.Get("redirect_uri") != ic.ar.RedirectURI {
		viol("redirect-uri", "presented redirect_uri %q, request used %q", form.Get("redirect_uri"), ic.ar.RedirectURI)
	}
	if ic.method != "" {
		// judged by what the authorization request carried (the client's verifier and method), not by what the
		// provider recorded of it
		if v := form.Get("code_verifier"); v == "" || v != ic.verifier {
			viol("pkce", "request carried a %s challenge for verifier %q but verifier %q was accepted", ic.method, ic.verifier, v)
		}
	} else if ic.ar.Challenge != nil {
		viol("pkce", "the authorization request carried no challenge but the provider recorded one (%+v)", *ic.ar.Challenge)
	} else if ownerClient.Public() {
		viol("pkce-public", "public client redeemed a code that had no challenge")
	}
	if hadSuccess {
		viol("replay", "code yielded tokens again after a successful exchange")
	}
	if ic.premature || !ic.ar.IsDone {
		viol("incomplete-request", "the code was issued for an authorization request the user never completed (subject %q, done=%v)", ic.ar.Subject, ic.ar.IsDone)
	}
	if tr.IDToken != "" {
		cw.idTokens = append(cw.idTokens, tr.IDToken)
	}
	// issued tokens carry subject, client, scopes and nonce of the request
	if tr.IDToken != "" {
		p := world.JWTPayload(tr.IDToken)
		if p == nil {
			viol("token-binding", "id_token is not a JWT")
		} else {
			if p["sub"] != ic.ar.Subject {
				viol("token-binding", "id_token sub %v, request subject %q", p["sub"], ic.ar.Subject)
			}
			if !slices.Contains(audList(p["aud"]), owner) {
				viol("token-binding", "id_token aud %v lacks client %q", p["aud"], owner)
			}
			if n, _ := p["nonce"].(string); n != ic.ar.Nonce {
				viol("token-binding", "id_token nonce %q, request nonce %q", n, ic.ar.Nonce)
			}
		}
	} else if slices.Contains(ic.ar.Scopes, oidc.ScopeOpenID) {
		viol("token-binding", "openid was granted but no id_token returned")
	}
	if id, sub, _, ok := w.DecodeAccess(tr.AccessToken); ok {
		t := w.Store.TokenSnapshot(id)
		switch {
		case t == nil:
			viol("token-binding", "access token id %q unknown to storage", id)
		case sub != ic.ar.Subject || t.Subject != ic.ar.Subject:
			viol("token-binding", "access token subject %q/%q, request subject %q", sub, t.Subject, ic.ar.Subject)
		case t.Client != owner:
			viol("token-binding", "access token client %q, request client %q", t.Client, owner)
		case !sameSet(t.Scopes, ic.ar.Scopes):
			viol("token-binding", "access token scopes %v, request scopes %v", t.Scopes, ic.ar.Scopes)
		}
	} else {
		viol("token-binding", "access token cannot be decoded")
	}
	if !sameSet(tr.ScopeList(), ic.ar.Scopes) {
		viol("token-binding", "response scope %v, request scopes %v", tr.ScopeList(), ic.ar.Scopes)
	}
	w.Record(tr, "code", owner, r.Ex.ID, ic.ar.ID)
	return desc + " TOKENS"
}

type pairTaskKey struct{}

// concurrentRedeem lets two requests redeem one code at the same time; the seeded scheduler interleaves them at
// every storage call. Every rule of the sequential oracle applies to both answers; two overlapping successes are
// counted as a probe only (the statement speaks of redemption "after a successful exchange").
func (cw *codeWorld) concurrentRedeem(step int, ch *kernel.Chooser) string {
	if len(cw.codes) == 0 {
		return "concurrent redeem: no code"
	}
	w := cw.w
	ic := cw.codes[ch.Int(len(cw.codes))]
	owner := ic.ar.ClientID
	hadSuccess := ic.successes > 0
	sched := kernel.NewSched(w.Tape, fmt.Sprintf("pair:%d", step), 300)
	w.Store.OnCall = func(ctx context.Context, method string) string {
		if name, ok := ctx.Value(pairTaskKey{}).(string); ok {
			sched.Park(name, "store."+method, nil)
		}
		return ""
	}
	defer func() { w.Store.OnCall = nil }()
	type side struct {
		client string
		creds  world.Creds
		form   url.Values
		resp   *world.Resp
		devs   []string
	}
	sides := make([]*side, 2)
	for i := range sides {
		sd := &side{client: owner}
		// the first request is the rightful one; the second is rightful too or deviates (another client, wrong or
		// missing secret, redirect_uri or verifier) - whatever it is, it is judged on its own merits
		ndev := 0
		if i == 1 {
			ndev = []int{0, 1, 1, 2}[ch.Int(4)]
		}
		sd.form, sd.creds, sd.client, sd.devs = cw.deviate(ch, ic, ndev)
		sides[i] = sd
		name := fmt.Sprintf("t%d", i)
		sched.Go(name, func() {
			if sched.Park(name, "start", nil) != "go" {
				return
			}
			sd.resp = w.PostFormCtx(context.WithValue(context.Background(), pairTaskKey{}, name), "/oauth/token", sd.form, sd.creds)
		})
	}
	err := sched.Run(func(draining bool) []kernel.Event {
		var evs []kernel.Event
		for _, p := range sched.ParkedTasks() {
			p := p
			evs = append(evs, kernel.Event{Name: "wake:" + p.Task + "@" + p.Point, Task: p.Task, Drain: true, Apply: func() { sched.Release(p.Task, "go") }})
		}
		return evs
	}, nil)
	if err != nil {
		cw.o.Infra = err.Error()
	}
	cw.o.Probe("concurrent-pairs")
	if len(sched.StuckSeen) > 0 {
		cw.o.Probe("requests-blocked-on-other-requests")
	}
	if left := sched.StuckNow(); len(left) > 0 {
		cw.o.Infra = fmt.Sprintf("concurrent redemption: requests %v never returned", left)
	}
	ic.attempts += 2
	succ := 0
	out := fmt.Sprintf("concurrent redeem code of %s by %s and %s (%d scheduler steps):", owner, sides[0].client, sides[1].client, sched.Step)
	for i, sd := range sides {
		if sd.resp == nil {
			continue
		}
		desc := fmt.Sprintf("concurrent redeem #%d code of %s by %s devs=%v replay=%v -> %d", i, owner, sd.client, sd.devs, hadSuccess, sd.resp.Status)
		before := ic.successes
		cw.evalRedeem(step, desc, ic, sd.form, sd.creds, sd.client, len(sd.devs) > 0, hadSuccess, sd.resp)
		if ic.successes > before {
			succ++
		}
		out += fmt.Sprintf(" #%d=%d", i, sd.resp.Status)
	}
	if succ == 2 {
		cw.o.Probe("overlapping-double-redemption")
	}
	cw.o.Trace = append(cw.o.Trace, strings.Join(sched.Trace, ","))
	return out
}

func RunC04(t *testing.T, spec kernel.Spec) *kernel.Outcome {
	return inBubble(t, spec, func(o *kernel.Outcome, tape *kernel.Tape) {
		w, err := world.NewStd(o, tape, world.StdOptions{Router: spec.Params["router"]})
		if err != nil {
			o.Infra = "world: " + err.Error()
			return
		}
		if tape.Sub("cfg-empty-challenge").Bool(1, 6) {
			// a storage that answers "no challenge" with an empty value instead of nil (confidential clients without PKCE
			// cannot redeem at such a storage's provider - an interoperability limit that costs honest redemptions, not a
			// violation; public clients must be refused all the same)
			w.Store.EmptyChallenge = true
			o.Probe("storages-that-answer-an-empty-challenge-value")
		}
		cw := &codeWorld{w: w, o: o, prop: "C04", faulty: tape.Sub("cfg2").Bool(1, 2)}
		cw.browsers = []*world.Browser{w.Net.NewBrowser("b1"), w.Net.NewBrowser("b2")}
		n := 30 + tape.Sub("cfg").Int(40)
		clients := w.SortedClients()
		steps(o, tape, n, func(i int, ch *kernel.Chooser) string {
			switch x := ch.Int(12); {
			case x == 11:
				return cw.prematureCallback(ch)
			case x < 3:
				return cw.startAuth(ch, clients[ch.Int(len(clients))])
			case x < 6:
				return cw.login(ch)
			case x < 10:
				return cw.redeem(i, ch)
			default:
				return cw.concurrentRedeem(i, ch)
			}
		})
		o.Nontrivial = o.Probes["honest-redeem-success"] > 0 && o.Probes["adversarial-redeem"] > 0
		o.Sample = map[string]any{"seed": spec.Seed, "router": w.Router, "steps": o.Trace}
		o.Log = append([]string{fmt.Sprintf("config: router=%s alg=%s post=%v pkjwt=%v refresh=%v", w.Router, w.SigAlg, w.Conf.AuthMethodPost, w.Conf.AuthMethodPrivateKeyJWT, w.Conf.GrantTypeRefreshToken)}, o.Log...)
	})
}
