package props

import (
	"context"
	"fmt"
	"net/url"
	"strings"
	"time"

	"github.com/zitadel/oidc/v3/pkg/oidc"

	"verif/sim/kernel"
	"verif/sim/world"
)

// race: polls of one device code by the initiating client (and possibly a foreign one) run concurrently with the
// user's decision (approve / deny at the verification page), interleaved by the seeded scheduler at every storage
// call of the polls. History oracle: tokens imply that an approval took effect no later than the poll returned, that no
// denial had taken effect before the poll was invoked, and that the caller is the initiating client; a poll invoked
// after a denial took effect is never answered with tokens.
type devRaceOp struct {
	groupOp
	kind   string // poll-owner, poll-foreign, approve, deny
	client string
	user   string
	ok     bool // tokens (polls) / effect applied (decisions)
	tr     *world.TokenResponse
}

func (d *devWorld) race(ch *kernel.Chooser) string {
	w := d.w
	var cands []*devModel
	for _, m := range d.devs {
		c := w.Store.Clients[m.client]
		if c != nil && time.Until(m.expires) > 5*time.Second && m.tokens == 0 && usableClient(w, m.client) && c.Auth != oidc.AuthMethodPost && c.Auth != oidc.AuthMethodPrivateKeyJWT {
			cands = append(cands, m)
		}
	}
	if len(cands) == 0 {
		return "race: no pending device flow of a Basic or public client"
	}
	m := cands[ch.Int(len(cands))]
	dev := w.Store.DeviceByUserCode(m.userCode)
	if dev == nil || dev.Code != m.code {
		return "race: flow not found by its user code"
	}
	approved0, denied0 := m.approvedBy != "", m.denied
	kinds := []string{"poll-owner", "poll-owner", "poll-owner", "approve", "approve", "deny", "poll-foreign"}
	n := 2 + ch.Int(3)
	var ops []*devRaceOp
	for i := 0; i < n; i++ {
		k := kinds[ch.Int(len(kinds))]
		op := &devRaceOp{kind: k}
		op.label = k
		switch k {
		case "poll-owner", "poll-foreign":
			op.client = m.client
			if k == "poll-foreign" {
				var others []string
				for _, id := range honestClients {
					if c := w.Store.Clients[id]; id != m.client && usableClient(w, id) && c.HasGrant(oidc.GrantTypeDeviceCode) {
						others = append(others, id)
					}
				}
				if len(others) == 0 {
					op.kind, op.label = "poll-owner", "poll-owner"
				} else {
					op.client = others[ch.Int(len(others))]
				}
			}
			creds := rightPresentation(w, op.client).creds
			op.do = func(ctx context.Context) *world.Resp {
				return w.PostFormCtx(ctx, "/oauth/token", url.Values{"grant_type": {string(oidc.GrantTypeDeviceCode)}, "device_code": {m.code}}, creds)
			}
		case "approve":
			op.user = ch.Pick("u1", "u2")
			op.do = func(context.Context) *world.Resp {
				// the verification page: only the first decision counts
				if dd := w.Store.DeviceByUserCode(m.userCode); dd != nil && !dd.State.Done && !dd.State.Denied {
					op.ok = w.Store.ApproveDevice(dd.Code, op.user)
				}
				return &world.Resp{Status: 200}
			}
		case "deny":
			op.do = func(context.Context) *world.Resp {
				if dd := w.Store.DeviceByUserCode(m.userCode); dd != nil && !dd.State.Done && !dd.State.Denied {
					op.ok = w.Store.DenyDevice(dd.Code)
				}
				return &world.Resp{Status: 200}
			}
		}
		ops = append(ops, op)
	}
	gops := make([]*groupOp, len(ops))
	for i, op := range ops {
		gops[i] = &op.groupOp
	}
	trace := runGroup(w, d.o, fmt.Sprintf("devrace:%d", d.step), gops, 0)
	d.o.Probe("race-groups")
	d.o.Trace = append(d.o.Trace, "  schedule: "+strings.Join(trace, ","))
	var parts []string
	for _, op := range ops {
		if strings.HasPrefix(op.kind, "poll") {
			r := op.resp
			if r == nil || r.Err != nil || r.Ex == nil || r.Ex.Panic != "" {
				parts = append(parts, fmt.Sprintf("%s(%s)[%d,%d]=no-response", op.kind, op.client, op.inv, op.ret))
				continue
			}
			op.tr, op.ok = isTokenSuccess(r)
			code := ""
			if !op.ok {
				var mm map[string]any
				if jsonUnmarshal(r.Body, &mm) == nil {
					code, _ = mm["error"].(string)
				}
			}
			parts = append(parts, fmt.Sprintf("%s(%s)[%d,%d]=%d %s tokens=%v", op.kind, op.client, op.inv, op.ret, r.Status, code, op.ok))
		} else {
			parts = append(parts, fmt.Sprintf("%s[%d]=%v", op.kind, op.inv, op.ok))
		}
	}
	desc := fmt.Sprintf("race on the device flow of %s (approved=%v denied=%v before): %s", m.client, approved0, denied0, strings.Join(parts, " "))
	// the decision that took effect (first one wins at the verification page)
	approvedAt, deniedAt, approver := -1, -1, m.approvedBy
	if approved0 {
		approvedAt = 0
	}
	if denied0 {
		deniedAt = 0
	}
	for _, op := range ops {
		if op.kind == "approve" && op.ok {
			approvedAt, approver = op.inv, op.user
		}
		if op.kind == "deny" && op.ok {
			deniedAt = op.inv
		}
	}
	for _, op := range ops {
		if !strings.HasPrefix(op.kind, "poll") || !op.ok {
			continue
		}
		d.o.Probe("race-device-tokens")
		d.o.Probe("device-tokens")
		m.tokens++
		if op.client != m.client {
			d.viol("foreign-client", "concurrent/device_token", "%s: tokens for a device code of %q went to %q", desc, m.client, op.client)
		}
		if approvedAt < 0 || approvedAt > op.ret {
			d.viol("unapproved", "concurrent/device_token", "%s: tokens although no approval had taken effect when the poll returned (approval at %d)", desc, approvedAt)
		}
		if deniedAt >= 0 && deniedAt < op.inv {
			d.viol("denied", "concurrent/device_token", "%s: tokens for a poll invoked at %d, after the denial took effect at %d", desc, op.inv, deniedAt)
		}
		if _, sub, _, dok := w.DecodeAccess(op.tr.AccessToken); dok && approver != "" && sub != approver {
			d.viol("token-binding", "concurrent/device_token", "%s: token subject %q, approving user %q", desc, sub, approver)
		}
	}
	if approvedAt >= 0 {
		m.approvedBy = approver
	}
	if deniedAt >= 0 {
		m.denied = true
	}
	return desc
}
