package props

import (
	"context"
	"crypto/rsa"
	"crypto/x509"
	"encoding/json"
	"encoding/pem"
	"fmt"
	"net/http"
	"net/http/httptest"
	"net/url"
	"reflect"
	"runtime"
	"strings"
	"sync"
	"testing"
	"time"

	jose "github.com/go-jose/go-jose/v4"
	"golang.org/x/oauth2"

	"github.com/zitadel/oidc/v3/pkg/client"
	"github.com/zitadel/oidc/v3/pkg/client/profile"
	"github.com/zitadel/oidc/v3/pkg/client/rp"
	"github.com/zitadel/oidc/v3/pkg/client/rs"
	httphelper "github.com/zitadel/oidc/v3/pkg/http"
	"github.com/zitadel/oidc/v3/pkg/oidc"
	"github.com/zitadel/oidc/v3/pkg/op"

	"verif/sim/kernel"
	"verif/sim/world"
)

// C20: shared instances are race-free and isolated. Two halves:
//  * isolation (deterministic): package-level defaults and caller-supplied objects keep their values, checked
//    after every step of seeded construction/usage programs, plus the behavioural forms of the statement;
//  * races: seeded concurrent mixes on one provider, relying party, resource server and key set under the race
//    detector. Those goroutines are scheduled by the Go runtime, not by the simulator; the seed fixes the
//    program and the race detector's happens-before analysis is the oracle.

type globalsSnapshot struct {
	endpoints  op.Endpoints
	claims     []string
	scopes     []string
	httpClient http.Client
	encoderPtr uintptr
}

func snapGlobals() globalsSnapshot {
	return globalsSnapshot{endpoints: *op.DefaultEndpoints, claims: append([]string(nil), op.DefaultSupportedClaims...), scopes: append([]string(nil), op.DefaultSupportedScopes...),
		httpClient: *httphelper.DefaultHTTPClient, encoderPtr: reflect.ValueOf(client.Encoder).Pointer()}
}

func endpointsEqual(a, b op.Endpoints) string {
	pairs := []struct {
		name string
		x, y *op.Endpoint
	}{{"Authorization", a.Authorization, b.Authorization}, {"Token", a.Token, b.Token}, {"Introspection", a.Introspection, b.Introspection}, {"Userinfo", a.Userinfo, b.Userinfo},
		{"Revocation", a.Revocation, b.Revocation}, {"EndSession", a.EndSession, b.EndSession}, {"JwksURI", a.JwksURI, b.JwksURI}, {"DeviceAuthorization", a.DeviceAuthorization, b.DeviceAuthorization}, {"CheckSessionIframe", a.CheckSessionIframe, b.CheckSessionIframe}}
	for _, p := range pairs {
		if p.x.Relative() != p.y.Relative() || p.x.Absolute("https://h") != p.y.Absolute("https://h") {
			return fmt.Sprintf("%s: %q -> %q", p.name, p.x.Absolute("https://h"), p.y.Absolute("https://h"))
		}
	}
	return ""
}

func (g globalsSnapshot) diff() string {
	if d := endpointsEqual(g.endpoints, *op.DefaultEndpoints); d != "" {
		return "op.DefaultEndpoints." + d
	}
	if strings.Join(g.claims, ",") != strings.Join(op.DefaultSupportedClaims, ",") {
		return "op.DefaultSupportedClaims changed"
	}
	if strings.Join(g.scopes, ",") != strings.Join(op.DefaultSupportedScopes, ",") {
		return "op.DefaultSupportedScopes changed"
	}
	h := httphelper.DefaultHTTPClient
	if h.Timeout != g.httpClient.Timeout || (h.CheckRedirect == nil) != (g.httpClient.CheckRedirect == nil) || h.Transport != g.httpClient.Transport || h.Jar != g.httpClient.Jar {
		return "httphelper.DefaultHTTPClient changed"
	}
	if reflect.ValueOf(client.Encoder).Pointer() != g.encoderPtr {
		return "client.Encoder replaced"
	}
	return ""
}

type c20 struct {
	w       *world.World
	o       *kernel.Outcome
	step    int
	sib     map[string]any // sibling client-side instances by "<kind>/<own credential>"
	sibKeys map[string]jose.JSONWebKey
}

func (c *c20) viol(rule, site, format string, a ...any) {
	c.o.Violate("C20", rule, site, c.step, format, a...)
}

// isolation runs a seeded program of constructions and calls and checks the invariants after every step.
func (c *c20) isolation(tape *kernel.Tape, n int) {
	w := c.w
	world.RestoreDefaultEndpoints()
	base := snapGlobals()
	ctx := context.Background()
	var providers []*op.Provider // built with defaults
	hc := w.Net.Client("caller", nil, true)
	hcBefore := *hc
	// a redirecting resource on the provider host: followed before and after logout/revocation calls
	w.Net.Hosts["hop.sim"] = http.HandlerFunc(func(rw http.ResponseWriter, r *http.Request) {
		if r.URL.Path == "/target" {
			fmt.Fprint(rw, `{"sub":"u1"}`)
			return
		}
		http.Redirect(rw, r, "https://hop.sim/target", http.StatusFound)
	})
	follows := func() bool {
		resp, err := hc.Get("https://hop.sim/start")
		if err != nil {
			return false
		}
		defer resp.Body.Close()
		return resp.StatusCode == 200 && resp.Request.URL.Path == "/target"
	}
	party, err := rp.NewRelyingPartyOIDC(ctx, w.Issuer, "web", "secret-web", "https://web.sim/callback", []string{"openid"}, rp.WithHTTPClient(hc), rp.WithLogger(world.Discard), rp.WithAuthStyle(oauth2.AuthStyleInHeader))
	if err != nil {
		c.o.Infra = "rp: " + err.Error()
		return
	}
	b := w.Net.NewBrowser("b1")
	var sess *session
	rpNode, _ := world.BuildRP(ctx, w, world.RPOptions{Client: "web", Secret: "secret-web", Host: "web.sim", Redirect: "https://web.sim/callback", Scopes: []string{oidc.ScopeOpenID},
		PKCE: true, Cookies: true, KeySeed: 21, AuthStyle: oauth2.AuthStyleInHeader, SigAlgs: []string{string(w.SigAlg)}})
	browsers := []*world.Browser{w.Net.NewBrowser("cb0"), w.Net.NewBrowser("cb1")}
	// reference instances: what each of them answers to one fixed discovery request (a request that carries a Host,
	// a Forwarded header and two custom forwarding headers) must stay what it was when the instance was created
	type refInst struct {
		name string
		h    http.Handler
		want string
	}
	var refs []*refInst
	fingerprint := func(h http.Handler) (out string) {
		defer func() {
			if r := recover(); r != nil {
				out = fmt.Sprint("panic: ", r)
			}
		}()
		req := httptest.NewRequest("GET", "https://fp.sim/.well-known/openid-configuration", nil)
		req.Header.Set("Forwarded", "host=fwd.sim")
		req.Header.Set("X-Tenant", "host=tenant.sim")
		req.Header.Set("X-Other", "host=other.sim")
		rec := httptest.NewRecorder()
		h.ServeHTTP(rec, req)
		var doc map[string]any
		if rec.Code != 200 || json.Unmarshal(rec.Body.Bytes(), &doc) != nil {
			return fmt.Sprintf("status %d", rec.Code)
		}
		var parts []string
		for _, k := range kernel.SortedKeys(doc) {
			v := doc[k]
			if sv, ok := v.(string); ok && (strings.HasSuffix(k, "_endpoint") || k == "jwks_uri" || k == "check_session_iframe") {
				// where the endpoints live is judged by the endpoint invariant below; here only the issuer part counts
				if u, err := url.Parse(sv); err == nil {
					v = u.Scheme + "://" + u.Host
				}
			}
			parts = append(parts, fmt.Sprintf("%s=%v", k, v))
		}
		return strings.Join(parts, "; ")
	}
	addRef := func(name string, p *op.Provider) {
		refs = append(refs, &refInst{name: name, h: p, want: fingerprint(p)})
	}
	// header names owned by the caller (e.g. a package-level list reused for every tenant's provider)
	// a configuration value owned by the caller and used for several providers; optional members left empty
	sharedConf := &op.Config{CryptoKey: w.Conf.CryptoKey, CodeMethodS256: true, GrantTypeRefreshToken: true, DeviceAuthorization: w.Conf.DeviceAuthorization}
	sharedConfBefore, worldConfBefore := fmt.Sprintf("%+v", *sharedConf), fmt.Sprintf("%+v", *w.Conf)
	// the storage hands out its own client records; their lists (redirect URIs, grants, response types, scopes) are the
	// storage's objects, which requests read and nobody rewrites
	regSnapshot := func() string {
		var b strings.Builder
		for _, id := range w.Store.SortedClientIDs() {
			cl := w.Store.Clients[id]
			fmt.Fprintf(&b, "%s: redirects=%q postlogout=%q globs=%q grants=%v resp=%v scopes=%q dropID=%q dropAT=%q\n", id, cl.Redirects, cl.PostLogout, cl.PostLogoutGlobs, cl.Grants, cl.RespTypes, cl.AllowedScopes, cl.DropFromID, cl.DropFromAT)
		}
		return b.String()
	}
	regBefore := regSnapshot()
	callerHeaders := []string{"x-other", "x-tenant"}
	callerHeadersBefore := strings.Join(callerHeaders, ",")
	steps(c.o, tape, n, func(i int, ch *kernel.Chooser) string {
		c.step = i
		var desc string
		switch ch.Int(20) {
		case 14: // idempotent requests served concurrently answer exactly what they answer alone
			tok := "no-token"
			if sess != nil && sess.tokens != nil {
				tok = sess.tokens.AccessToken
			}
			creds := w.RightCreds("web")
			mk := func(kind string) func(ctx context.Context) *world.Resp {
				switch kind {
				case "discovery":
					return func(ctx context.Context) *world.Resp {
						req, _ := http.NewRequestWithContext(ctx, "GET", w.Issuer+"/.well-known/openid-configuration", nil)
						return w.DoRaw(req)
					}
				case "keys":
					return func(ctx context.Context) *world.Resp {
						req, _ := http.NewRequestWithContext(ctx, "GET", w.Issuer+"/keys", nil)
						return w.DoRaw(req)
					}
				case "userinfo":
					return func(ctx context.Context) *world.Resp {
						req, _ := http.NewRequestWithContext(ctx, "GET", w.Issuer+"/userinfo", nil)
						req.Header.Set("Authorization", "Bearer "+tok)
						return w.DoRaw(req)
					}
				default:
					return func(ctx context.Context) *world.Resp {
						return w.PostFormCtx(ctx, "/oauth/introspect", url.Values{"token": {tok}}, creds)
					}
				}
			}
			var gops []*groupOp
			var want []string
			nops := 2 + ch.Int(3)
			for k := 0; k < nops; k++ {
				kind := ch.Pick("discovery", "keys", "userinfo", "introspect", "discovery", "keys")
				do := mk(kind)
				ref := do(context.Background())
				want = append(want, fmt.Sprintf("%d %s", ref.Status, ref.Body))
				gops = append(gops, &groupOp{label: kind, do: do})
			}
			trace := runGroup(w, c.o, fmt.Sprintf("reads:%d", i), gops, 0)
			c.o.Probe("scheduled-concurrent-reads")
			for k, g := range gops {
				if g.resp == nil || g.resp.Err != nil {
					continue
				}
				if got := fmt.Sprintf("%d %s", g.resp.Status, g.resp.Body); got != want[k] {
					c.viol("instance-not-isolated", "op.Provider/concurrent-reads/"+g.label, "a %s request served concurrently with %d other read-only requests (schedule %v) was answered differently than alone:\n  alone:      %s\n  concurrent: %s", g.label, nops-1, trace, firstLine(want[k]), firstLine(got))
				}
			}
			desc = fmt.Sprintf("%d concurrent read-only requests %v", nops, trace)
		case 13: // the storage is down and answers with its one reused *oidc.Error value: the error redirect must not write into it
			fired := false
			w.Store.Inject = func(n int, method string, rid int) string {
				if method == "CreateAuthRequest" && !fired {
					fired = true
					return ch.Pick(world.FaultSentinel, world.FaultBareSentinel)
				}
				return ""
			}
			_, r := startAuthz(w, b, flowOpts{client: "web", state: fmt.Sprintf("state-%d", i)})
			w.Store.Inject = nil
			desc = fmt.Sprintf("authorization request while the storage answers with its reused error value -> %d", statusOf(r))
			c.o.Probe("sentinel-error-requests")
		case 10: // issuer from the Forwarded header (default header list)
			p, err := op.NewProvider(w.Conf, w.OP.Storage, op.IssuerFromForwardedOrHost(""), op.WithLogger(world.Discard))
			desc = fmt.Sprintf("construct provider with issuer from Forwarded header (%v)", err)
			if err == nil {
				addRef(fmt.Sprintf("forwarded-default#%d", i), p)
				if iss := issuerOf(refs[len(refs)-1].want); iss != "https://fwd.sim" {
					c.viol("instance-not-isolated", "op.Provider/issuer", "after %q: a provider created with the default Forwarded strategy answers with issuer %q, expected https://fwd.sim", desc, iss)
				}
			}
		case 11: // issuer from custom forwarding headers: the header list is the caller's
			hs := callerHeaders
			if ch.Bool(1, 2) {
				hs = callerHeaders[1:]
			}
			want := "https://" + strings.TrimPrefix(hs[0], "x-") + ".sim"
			p, err := op.NewProvider(w.Conf, w.OP.Storage, op.IssuerFromForwardedOrHost("", op.WithIssuerFromCustomHeaders(hs...)), op.WithLogger(world.Discard))
			desc = fmt.Sprintf("construct provider with issuer from custom headers %v (%v)", hs, err)
			if err == nil {
				addRef(fmt.Sprintf("forwarded-custom#%d", i), p)
				if iss := issuerOf(refs[len(refs)-1].want); iss != want {
					c.viol("instance-not-isolated", "op.Provider/issuer", "after %q: issuer %q, expected %q", desc, iss, want)
				}
			}
		case 12: // issuer from the request host
			p, err := op.NewProvider(w.Conf, w.OP.Storage, op.IssuerFromHost(""), op.WithLogger(world.Discard))
			desc = fmt.Sprintf("construct provider with issuer from host (%v)", err)
			if err == nil {
				addRef(fmt.Sprintf("from-host#%d", i), p)
				if iss := issuerOf(refs[len(refs)-1].want); iss != "https://fp.sim" {
					c.viol("instance-not-isolated", "op.Provider/issuer", "after %q: issuer %q, expected https://fp.sim", desc, iss)
				}
			}
		case 9: // two logins through one relying party's handler, interleaved by the scheduler: neither may see the other's PKCE challenge
			if rpNode == nil {
				desc = "concurrent logins: no relying party"
				break
			}
			sched := kernel.NewSched(w.Tape, fmt.Sprintf("pair:%d", i), 100)
			rpNode.ParamHook = func() { sched.Park(sched.Current, "rp.urlparam", nil) }
			resps := make([]*world.Resp, 2)
			for k := 0; k < 2; k++ {
				k := k
				name := fmt.Sprintf("t%d", k)
				go func() {
					if sched.Park(name, "start", nil) == "go" {
						resps[k] = browsers[k].Get("https://web.sim/login")
					}
				}()
			}
			sched.Run(func(bool) []kernel.Event {
				var evs []kernel.Event
				for _, p := range sched.ParkedTasks() {
					p := p
					evs = append(evs, kernel.Event{Name: "wake:" + p.Task + "@" + p.Point, Task: p.Task, Drain: true, Apply: func() { sched.Release(p.Task, "go") }})
				}
				return evs
			}, nil)
			rpNode.ParamHook = nil
			c.o.Probe("scheduled-concurrent-logins")
			for k, r := range resps {
				if r == nil || r.Status != 302 {
					continue
				}
				u, err := url.Parse(r.Location)
				ck := findCookie(r.Header, "pkce")
				if err != nil || ck == nil {
					continue
				}
				if v, ok := decodeCookie(rpNode, "pkce", ck.Value, 0); !ok || u.Query().Get("code_challenge") != world.S256(v) {
					c.viol("instance-not-isolated", "rp.AuthURLHandler/concurrent-logins", "login %d of two concurrent logins on one relying party got a code_challenge that does not belong to its own verifier cookie (schedule %v)", k, sched.Trace)
				}
			}
			desc = fmt.Sprintf("two concurrent logins through one RP handler %v", sched.Trace)
		case 0: // a provider with custom endpoints
			name := []string{"token", "auth", "userinfo", "keys", "all"}[ch.Int(5)]
			e := op.NewEndpoint(fmt.Sprintf("custom%d/%s", i, name))
			var o op.Option
			switch name {
			case "token":
				o = op.WithCustomTokenEndpoint(e)
			case "auth":
				o = op.WithCustomAuthEndpoint(e)
			case "userinfo":
				o = op.WithCustomUserinfoEndpoint(e)
			case "keys":
				o = op.WithCustomKeysEndpoint(e)
			default:
				o = op.WithCustomEndpoints(e, e, e, e, e, e)
			}
			_, err := op.NewProvider(w.Conf, w.OP.Storage, op.StaticIssuer("https://custom.sim"), o, op.WithLogger(world.Discard))
			desc = fmt.Sprintf("construct provider with custom %s endpoint (%v)", name, err)
		case 19: // providers for several issuers from ONE configuration value, built with the constructors applications call
			var err error
			switch k := ch.Int(3); k {
			case 0:
				_, err = op.NewOpenIDProvider(fmt.Sprintf("https://tenant%d.sim", i), sharedConf, w.OP.Storage, op.WithLogger(world.Discard))
			case 1:
				_, err = op.NewDynamicOpenIDProvider("", sharedConf, w.OP.Storage, op.WithLogger(world.Discard))
			default:
				_, err = op.NewForwardedOpenIDProvider("", sharedConf, w.OP.Storage, op.WithLogger(world.Discard))
			}
			c.o.Probe("providers-from-one-shared-config")
			desc = fmt.Sprintf("construct a provider from the shared configuration value (%v)", err)
		case 1: // a provider with defaults: its endpoints must be the defaults whatever was built before
			p, err := op.NewProvider(w.Conf, w.OP.Storage, op.StaticIssuer("https://plain.sim"), op.WithLogger(world.Discard))
			desc = fmt.Sprintf("construct provider with default endpoints (%v)", err)
			if err == nil {
				providers = append(providers, p)
				addRef(fmt.Sprintf("static#%d", i), p)
			}
		case 2:
			if sess == nil || sess.tokens == nil {
				if s, err := codeFlow(w, b, flowOpts{client: "web", scopes: []string{oidc.ScopeOpenID, oidc.ScopeOfflineAccess}}); err == nil {
					sess = s
				}
				desc = "obtain tokens"
			} else {
				_, err := rp.EndSession(ctx, party, sess.tokens.IDToken, "", "")
				desc = fmt.Sprintf("rp.EndSession (%v)", err)
			}
		case 3:
			err := rp.RevokeToken(ctx, party, "some-token", "access_token")
			desc = fmt.Sprintf("rp.RevokeToken (%v)", err)
		case 4:
			_, err := rp.Userinfo[*oidc.UserInfo](ctx, "bad-token", "Bearer", "u1", party)
			desc = fmt.Sprintf("rp.Userinfo (%v)", err != nil)
		case 5:
			_, err := client.Discover(ctx, w.Issuer, hc)
			desc = fmt.Sprintf("client.Discover (%v)", err)
		case 6: // device polling twice: the storage-owned state must not be modified by getters
			if w.Caps.Device && w.Store.Clients["web"].HasGrant(oidc.GrantTypeDeviceCode) {
				r := w.PostForm("/device_authorization", url.Values{"scope": {"openid"}}, w.RightCreds("web"))
				var da struct {
					DeviceCode string `json:"device_code"`
				}
				if jsonUnmarshal(r.Body, &da) == nil && da.DeviceCode != "" {
					w.Store.ApproveDevice(da.DeviceCode, "u1")
					dev := w.Store.Devices[da.DeviceCode]
					before := append([]string(nil), dev.State.Audience...)
					w.PostForm("/oauth/token", url.Values{"grant_type": {string(oidc.GrantTypeDeviceCode)}, "device_code": {da.DeviceCode}}, w.RightCreds("web"))
					if strings.Join(before, ",") != strings.Join(dev.State.Audience, ",") {
						c.viol("caller-object-mutated", "op.DeviceAuthorizationState.GetAudience", "polling a device code changed the storage-owned state: Audience %v -> %v", before, dev.State.Audience)
					}
				}
				desc = "device authorization, approve, poll"
			} else {
				desc = "device: not usable"
			}
		case 7:
			_, err := rs.NewResourceServerClientCredentials(ctx, w.Issuer, "web", "secret-web", rs.WithClient(hc))
			desc = fmt.Sprintf("rs.NewResourceServerClientCredentials (%v)", err)
		case 17: // the client side of the device grant on the caller's http.Client: start, the user approves, poll
			resp, err := rp.DeviceAuthorization(ctx, []string{"openid"}, party, nil)
			desc = fmt.Sprintf("rp.DeviceAuthorization (%v)", err)
			if err == nil && resp != nil {
				if ch.Bool(2, 3) {
					w.Store.ApproveDevice(resp.DeviceCode, "u1")
				}
				pctx, cancel := context.WithTimeout(ctx, 20*time.Second)
				_, perr := rp.DeviceAccessToken(pctx, resp.DeviceCode, time.Duration(1+ch.Int(3))*time.Second, party)
				cancel()
				c.o.Probe("client-side-device-flows")
				desc += fmt.Sprintf(", rp.DeviceAccessToken (%v)", perr != nil)
			}
		case 18: // further calls through the same relying party and client
			if sess != nil && sess.tokens != nil && sess.tokens.RefreshToken != "" {
				_, err := rp.RefreshTokens[*oidc.IDTokenClaims](ctx, party, sess.tokens.RefreshToken, "", "")
				desc = fmt.Sprintf("rp.RefreshTokens (%v)", err != nil)
			} else {
				_, err := rp.ClientCredentials(ctx, party, nil)
				desc = fmt.Sprintf("rp.ClientCredentials (%v)", err != nil)
			}
		case 8, 15, 16: // sibling client-side instances: same client id and issuer, each configured with its own credentials
			desc = c.siblings(ch, hc)
		default:
			_, err := rp.NewRelyingPartyOIDC(ctx, w.Issuer, "pub", "", "https://pub.sim/callback", []string{"openid"}, rp.WithHTTPClient(hc), rp.WithLogger(world.Discard))
			desc = fmt.Sprintf("construct another relying party (%v)", err)
		}
		// ---- invariants after every step ----
		if d := base.diff(); d != "" {
			site := strings.SplitN(d, ":", 2)[0]
			if strings.HasPrefix(site, "op.DefaultEndpoints.") {
				site = "op.DefaultEndpoints"
			}
			c.viol("global-mutated", site, "after %q: package-level default changed: %s", desc, d)
			world.RestoreDefaultEndpoints()
		}
		if (hc.CheckRedirect == nil) != (hcBefore.CheckRedirect == nil) || hc.Transport != hcBefore.Transport || hc.Timeout != hcBefore.Timeout || hc.Jar != hcBefore.Jar {
			c.viol("caller-object-mutated", "http.Client", "after %q: the caller-supplied http.Client was modified (CheckRedirect set=%v)", desc, hc.CheckRedirect != nil)
			hc.CheckRedirect = hcBefore.CheckRedirect
		} else if !follows() {
			c.viol("caller-object-mutated", "http.Client/behaviour", "after %q: the caller's client no longer follows redirects", desc)
		}
		if e := w.Store.Sentinel; e.State != "" || e.SessionState != "" || e.Description != "simstore: storage unavailable" || e.Parent != nil {
			c.viol("caller-object-mutated", "oidc.Error/storage-error-value", "after %q: the error value owned by the storage was modified: state=%q session_state=%q description=%q", desc, e.State, e.SessionState, e.Description)
			e.State, e.SessionState, e.Description, e.Parent = "", "", "simstore: storage unavailable", nil
		}
		if e := w.Store.BareSentinel; e.State != "" || e.SessionState != "" || e.Description != "" || e.Parent != nil {
			c.viol("caller-object-mutated", "oidc.Error/storage-error-value-without-description", "after %q: the error value owned by the storage (returned wrapped) was modified: state=%q session_state=%q description=%q parent=%v", desc, e.State, e.SessionState, e.Description, e.Parent)
			e.State, e.SessionState, e.Description, e.Parent = "", "", "", nil
		}
		if got := fmt.Sprintf("%+v", *sharedConf); got != sharedConfBefore {
			c.viol("caller-object-mutated", "op.Config", "after %q: the caller's configuration value was modified:\n  before: %s\n  after:  %s", desc, sharedConfBefore, got)
			sharedConfBefore = got
		}
		if got := fmt.Sprintf("%+v", *w.Conf); got != worldConfBefore {
			c.viol("caller-object-mutated", "op.Config", "after %q: the configuration value of the running provider was modified:\n  before: %s\n  after:  %s", desc, worldConfBefore, got)
			worldConfBefore = got
		}
		if got := regSnapshot(); got != regBefore {
			c.viol("caller-object-mutated", "op.Client/registration-lists", "after %q: a list of a client record owned by the storage was rewritten:\n  before: %s\n  after:  %s", desc, firstDiffLine(regBefore, got), firstDiffLine(got, regBefore))
			regBefore = got
		}
		if got := strings.Join(callerHeaders, ","); got != callerHeadersBefore {
			c.viol("caller-object-mutated", "op.WithIssuerFromCustomHeaders/headers", "after %q: the caller's header list was rewritten: %s -> %s", desc, callerHeadersBefore, got)
			callerHeaders = strings.Split(callerHeadersBefore, ",")
		}
		for _, ref := range refs {
			if got := fingerprint(ref.h); got != ref.want {
				c.viol("instance-not-isolated", "op.Provider/discovery", "after %q: provider %s answers the same discovery request differently than when it was created:\n  then: %s\n  now:  %s", desc, ref.name, ref.want, got)
				ref.want = got
				break
			}
		}
		c.o.ProbeN("reference-instances-compared", len(refs))
		for _, p := range providers {
			if p.TokenEndpoint().Relative() != "/oauth/token" || p.AuthorizationEndpoint().Relative() != "/authorize" || p.UserinfoEndpoint().Relative() != "/userinfo" || p.KeysEndpoint().Relative() != "/keys" {
				c.viol("instance-not-isolated", "op.Provider/endpoints", "after %q: a provider created with default endpoints now has token=%s auth=%s userinfo=%s keys=%s", desc,
					p.TokenEndpoint().Relative(), p.AuthorizationEndpoint().Relative(), p.UserinfoEndpoint().Relative(), p.KeysEndpoint().Relative())
				break
			}
		}
		return desc
	})
	world.RestoreDefaultEndpoints()
}

// siblings: several client-side instances in one process act for the same client id at the same issuer, each
// configured with its own credentials (a key that was rolled, a secret of another environment). Every request an
// instance sends must carry the credentials that instance was given - whatever its siblings did before.
func (c *c20) siblings(ch *kernel.Chooser, hc *http.Client) string {
	w := c.w
	ctx := context.Background()
	pemOf := func(k jose.JSONWebKey) []byte {
		rk, ok := k.Key.(*rsa.PrivateKey)
		if !ok {
			return nil
		}
		return pem.EncodeToMemory(&pem.Block{Type: "RSA PRIVATE KEY", Bytes: x509.MarshalPKCS1PrivateKey(rk)})
	}
	if c.sib == nil {
		c.sib = map[string]any{}
		c.sibKeys = map[string]jose.JSONWebKey{"jwt-key-1": w.ClientKeys["jwt"], "jwt-key-2": world.FixtureKey("rsa", 4)}
		for _, kid := range []string{"jwt-key-1", "jwt-key-2"} {
			if r, err := rs.NewResourceServerJWTProfile(ctx, w.Issuer, "jwt", kid, pemOf(c.sibKeys[kid]), rs.WithClient(hc)); err == nil {
				c.sib["rs/"+kid] = r
			}
			if ts, err := profile.NewJWTProfileTokenSource(ctx, w.Issuer, "jwt", kid, pemOf(c.sibKeys[kid]), []string{"openid"}, profile.WithHTTPClient(hc)); err == nil {
				c.sib["profile/"+kid] = ts
			}
		}
		for _, sec := range []string{"secret-web", "secret-of-staging"} {
			if r, err := rs.NewResourceServerClientCredentials(ctx, w.Issuer, "web", sec, rs.WithClient(hc)); err == nil {
				c.sib["rs-secret/"+sec] = r
			}
		}
	}
	names := kernel.SortedKeys(c.sib)
	if len(names) == 0 {
		return "siblings: none could be built"
	}
	var done []string
	for n := 0; n < 2+ch.Int(2); n++ {
		name := names[ch.Int(len(names))]
		first := w.Net.Len()
		switch inst := c.sib[name].(type) {
		case rs.ResourceServer:
			rs.Introspect[*oidc.IntrospectionResponse](ctx, inst, "some-token")
		case profile.TokenSource:
			inst.TokenCtx(ctx)
		}
		own := name[strings.IndexByte(name, '/')+1:]
		for _, ex := range w.Net.Since(first) {
			if ex.Path != "/oauth/introspect" && ex.Path != "/oauth/token" {
				continue
			}
			c.o.Probe("requests-of-sibling-instances-checked")
			f := ex.Form()
			if strings.HasPrefix(name, "rs-secret/") {
				if _, pw, ok := (&http.Request{Header: ex.ReqHeader}).BasicAuth(); ok {
					if un, err := url.QueryUnescape(pw); err == nil {
						pw = un
					}
					if pw != own {
						c.viol("instance-not-isolated", "rs.ResourceServer/client-secret", "a resource server configured with secret %q sent secret %q (after %v)", own, pw, done)
					}
				}
				continue
			}
			a := f.Get("client_assertion")
			if a == "" {
				a = f.Get("assertion")
			}
			if a == "" {
				continue
			}
			sig, err := jose.ParseSigned(a, []jose.SignatureAlgorithm{jose.RS256})
			if err != nil {
				continue
			}
			ownKey := c.sibKeys[own]
			pub := ownKey.Public()
			if _, verr := sig.Verify(&pub); verr != nil || world.JWTHeader(a)["kid"] != own {
				c.viol("instance-not-isolated", strings.SplitN(name, "/", 2)[0]+"/client-assertion", "the instance configured with key %s sent an assertion with kid %v that its own key does not verify (after %v)", own, world.JWTHeader(a)["kid"], done)
			}
		}
		done = append(done, name)
	}
	return fmt.Sprintf("sibling instances used: %v", done)
}

// firstDiffLine returns the first line of a that differs from the same line of b.
func firstDiffLine(a, b string) string {
	la, lb := strings.Split(a, "\n"), strings.Split(b, "\n")
	for i := range la {
		if i >= len(lb) || la[i] != lb[i] {
			return la[i]
		}
	}
	return ""
}

func issuerOf(fp string) string {
	for _, part := range strings.Split(fp, "; ") {
		if strings.HasPrefix(part, "issuer=") {
			return strings.TrimPrefix(part, "issuer=")
		}
	}
	return ""
}

// raceMix starts seeded goroutines from a barrier on shared instances. Any data race is reported by the race
// detector as a failure of the enclosing subtest.
func raceMix(w *world.World, tape *kernel.Tape, mix string) {
	ctx := context.Background()
	ch := tape.Sub("race:" + mix)
	b := w.Net.NewBrowser("b-race")
	hc := w.Net.Client("shared", nil, true)
	var tasks []func()
	add := func(f func()) { tasks = append(tasks, f) }
	switch mix {
	case "provider":
		// tokens and codes for everybody
		var sessions []*session
		for i := 0; i < 3; i++ {
			if s, err := codeFlow(w, b, flowOpts{client: "web", scopes: []string{oidc.ScopeOpenID, oidc.ScopeOfflineAccess, oidc.ScopeEmail}}); err == nil {
				sessions = append(sessions, s)
			}
		}
		var codes []*session
		for i := 0; i < 2; i++ {
			if s, err := authorizeToCode(w, b, flowOpts{client: "web"}); err == nil {
				codes = append(codes, s)
			}
		}
		var deviceCode string
		if w.Caps.Device && w.Store.Clients["web"].HasGrant(oidc.GrantTypeDeviceCode) {
			r := w.PostForm("/device_authorization", url.Values{"scope": {"openid"}}, w.RightCreds("web"))
			var da struct {
				DeviceCode string `json:"device_code"`
			}
			if jsonUnmarshal(r.Body, &da) == nil {
				deviceCode = da.DeviceCode
				w.Store.ApproveDevice(deviceCode, "u1")
			}
		}
		webCreds := w.RightCreds("web")
		n := ch.Range(4, 8)
		for i := 0; i < n; i++ {
			k := ch.Int(8)
			si := ch.Int(3)
			add(func() {
				switch k {
				case 0:
					rawGet(w, "/authorize?"+url.Values{"client_id": {"web"}, "redirect_uri": {"https://web.sim/callback"}, "response_type": {"code"}, "scope": {"openid"}}.Encode())
				case 1:
					if len(codes) > 0 { // the same code may be redeemed by two goroutines at once
						w.PostForm("/oauth/token", codeForm(codes[si%len(codes)]), webCreds)
					}
				case 2:
					if len(sessions) > 0 {
						bearerGet(w, "/userinfo", sessions[si%len(sessions)].tokens.AccessToken)
					}
				case 3:
					if len(sessions) > 0 {
						w.PostForm("/oauth/introspect", url.Values{"token": {sessions[si%len(sessions)].tokens.AccessToken}}, w.RightCreds("web"))
					}
				case 4:
					if len(sessions) > 0 {
						w.PostForm("/revoke", url.Values{"token": {sessions[si%len(sessions)].tokens.AccessToken}}, w.RightCreds("web"))
					}
				case 5, 6:
					if deviceCode != "" {
						w.PostForm("/oauth/token", url.Values{"grant_type": {string(oidc.GrantTypeDeviceCode)}, "device_code": {deviceCode}}, w.RightCreds("web"))
					}
				default:
					rawGet(w, "/.well-known/openid-configuration")
					rawGet(w, "/keys")
				}
			})
		}
	case "provider-storage-down":
		// the storage is down and answers every CreateAuthRequest / SaveAuthCode with its one reused *oidc.Error value
		// while several user agents are being answered with error redirects
		var pending []string
		for i := 0; i < 3; i++ {
			if s, _ := startAuthz(w, b, flowOpts{client: "web", state: fmt.Sprintf("pre-%d", i)}); s.authReq != "" {
				w.Store.CompleteLogin(s.authReq, "u1")
				pending = append(pending, s.authReq)
			}
		}
		w.Store.Inject = func(n int, method string, rid int) string {
			if method == "CreateAuthRequest" || method == "SaveAuthCode" {
				if rid%2 == 0 {
					return world.FaultBareSentinel
				}
				return world.FaultSentinel
			}
			return ""
		}
		n := ch.Range(3, 6)
		for i := 0; i < n; i++ {
			i := i
			cb := ch.Bool(1, 3) && len(pending) > 0
			add(func() {
				if cb {
					rawGet(w, "/authorize/callback?id="+pending[i%len(pending)])
					return
				}
				rawGet(w, "/authorize?"+url.Values{"client_id": {"web"}, "redirect_uri": {"https://web.sim/callback"}, "response_type": {"code"}, "scope": {"openid"}, "state": {fmt.Sprintf("state-%d", i)}}.Encode())
			})
		}
	case "rp":
		party, err := rp.NewRelyingPartyOIDC(ctx, w.Issuer, "web", "secret-web", "https://web.sim/callback", []string{"openid", "offline_access"}, rp.WithHTTPClient(hc), rp.WithLogger(world.Discard),
			rp.WithAuthStyle(oauth2.AuthStyleInHeader), rp.WithVerifierOpts(rp.WithSupportedSigningAlgorithms(string(w.SigAlg))))
		if err != nil {
			return
		}
		var sessions []*session
		for i := 0; i < 3; i++ {
			if s, err := codeFlow(w, b, flowOpts{client: "web", scopes: []string{oidc.ScopeOpenID, oidc.ScopeOfflineAccess}}); err == nil {
				sessions = append(sessions, s)
			}
		}
		var codes []*session
		for i := 0; i < 2; i++ {
			if s, err := authorizeToCode(w, b, flowOpts{client: "web", nonce: "none"}); err == nil {
				codes = append(codes, s)
			}
		}
		if len(sessions) == 0 {
			return
		}
		n := ch.Range(4, 8)
		for i := 0; i < n; i++ {
			k := ch.Int(7)
			s := sessions[ch.Int(len(sessions))]
			ci := ch.Int(2)
			add(func() {
				switch k {
				case 0:
					if len(codes) > 0 {
						rp.CodeExchange[*oidc.IDTokenClaims](ctx, codes[ci%len(codes)].code, party)
					}
				case 1:
					rp.Userinfo[*oidc.UserInfo](ctx, s.tokens.AccessToken, "Bearer", "u1", party)
				case 2:
					rp.RefreshTokens[*oidc.IDTokenClaims](ctx, party, s.tokens.RefreshToken, "", "")
				case 3:
					rp.EndSession(ctx, party, s.tokens.IDToken, "", "")
				case 4:
					rp.RevokeToken(ctx, party, s.tokens.AccessToken, "access_token")
				case 5:
					rp.VerifyTokens[*oidc.IDTokenClaims](ctx, s.tokens.AccessToken, s.tokens.IDToken, party.IDTokenVerifier())
				default:
					client.Discover(ctx, w.Issuer, hc)
				}
			})
		}
	case "rs-keyset":
		server, err := rs.NewResourceServerClientCredentials(ctx, w.Issuer, "web", "secret-web", rs.WithClient(hc))
		if err != nil {
			return
		}
		s, err := codeFlow(w, b, flowOpts{client: "web", scopes: []string{oidc.ScopeOpenID}})
		if err != nil {
			return
		}
		ks := rp.NewRemoteKeySet(hc, w.Issuer+"/keys")
		jws, err := jose.ParseSigned(s.tokens.IDToken, []jose.SignatureAlgorithm{w.SigAlg})
		if err != nil {
			return
		}
		n := ch.Range(4, 8)
		for i := 0; i < n; i++ {
			k := ch.Int(3)
			add(func() {
				switch k {
				case 0:
					rs.Introspect[*oidc.IntrospectionResponse](ctx, server, s.tokens.AccessToken)
				default:
					ks.VerifySignature(ctx, jws)
				}
			})
		}
	case "keyset-cancel":
		// one remote key set, a slow JWKS endpoint, callers that give up (deadline, cancellation) while the shared
		// download is outstanding, callers that stay, and the download finishing afterwards
		s, err := codeFlow(w, b, flowOpts{client: "web", scopes: []string{oidc.ScopeOpenID}})
		if err != nil {
			return
		}
		jws, err := jose.ParseSigned(s.tokens.IDToken, []jose.SignatureAlgorithm{w.SigAlg})
		if err != nil {
			return
		}
		keysHandler := w.Net.Hosts["op.sim"]
		w.Net.Hosts["slowkeys.sim"] = http.HandlerFunc(func(rw http.ResponseWriter, r *http.Request) {
			time.Sleep(20 * time.Millisecond)
			r2 := r.Clone(r.Context())
			r2.Host, r2.URL.Host = "op.sim", "op.sim"
			keysHandler.ServeHTTP(rw, r2)
		})
		ks := rp.NewRemoteKeySet(hc, "https://slowkeys.sim/keys")
		n := ch.Range(3, 6)
		for i := 0; i < n; i++ {
			giveUp := time.Duration(ch.Pick("5", "5", "0", "0", "40")[0]-'0') * time.Millisecond
			if i == 0 {
				giveUp = 5 * time.Millisecond
			}
			add(func() {
				cctx := ctx
				if giveUp > 0 {
					var cancel context.CancelFunc
					cctx, cancel = context.WithTimeout(ctx, giveUp)
					defer cancel()
				}
				ks.VerifySignature(cctx, jws)
				time.Sleep(40 * time.Millisecond) // outlive the download
			})
		}
	case "rp-handlers":
		// several browsers log in through one relying party's HTTP handlers at the same time
		node, err := world.BuildRP(ctx, w, world.RPOptions{Client: "web", Secret: "secret-web", Host: "web.sim", Redirect: "https://web.sim/callback", Scopes: []string{oidc.ScopeOpenID},
			PKCE: ch.Bool(2, 3), Cookies: true, KeySeed: 9, AuthStyle: oauth2.AuthStyleInHeader, SigAlgs: []string{string(w.SigAlg)}})
		if err != nil {
			return
		}
		_ = node
		n := ch.Range(3, 6)
		for i := 0; i < n; i++ {
			br := w.Net.NewBrowser(fmt.Sprintf("rb%d", i))
			user := []string{"alice", "bob"}[i%2]
			add(func() {
				r := br.Get("https://web.sim/login")
				if r.Status != 302 {
					return
				}
				ar := br.Get(r.Location)
				if ar.Status != 302 || !strings.Contains(ar.Location, "/login?") {
					return
				}
				lu, _ := url.Parse(ar.Location)
				cb := w.LoginAndCallback(br, lu.Query().Get("authRequestID"), user, userPass[user])
				if cb.Status == 302 {
					br.Get(cb.Location)
				}
			})
		}
	case "construct-issuer":
		// providers for several tenants are created at once; the list of forwarding headers is one shared value
		shared := []string{"x-other", "x-tenant"}
		n := ch.Range(3, 6)
		for i := 0; i < n; i++ {
			kind := ch.Int(3)
			add(func() {
				var iss func(bool) (op.IssuerFromRequest, error)
				switch kind {
				case 0:
					iss = op.IssuerFromForwardedOrHost("", op.WithIssuerFromCustomHeaders(shared...))
				case 1:
					iss = op.IssuerFromForwardedOrHost("")
				default:
					iss = op.IssuerFromHost("")
				}
				if p, err := op.NewProvider(w.Conf, w.OP.Storage, iss, op.WithLogger(world.Discard)); err == nil {
					req := httptest.NewRequest("GET", "https://fp.sim/.well-known/openid-configuration", nil)
					req.Header.Set("X-Tenant", "host=tenant.sim")
					p.ServeHTTP(httptest.NewRecorder(), req)
				}
			})
		}
	case "construct":
		n := ch.Range(3, 6)
		for i := 0; i < n; i++ {
			i := i
			custom := ch.Bool(1, 2)
			add(func() {
				opts := []op.Option{op.WithLogger(world.Discard)}
				if custom {
					opts = append(opts, op.WithCustomTokenEndpoint(op.NewEndpoint(fmt.Sprintf("t%d", i))))
				}
				p, err := op.NewProvider(w.Conf, w.OP.Storage, op.StaticIssuer("https://x.sim"), opts...)
				if err == nil {
					_ = p.TokenEndpoint().Relative()
				}
			})
		}
	}
	// the workers run with one processor (deterministic parts); the race mixes want goroutines that really overlap
	defer runtime.GOMAXPROCS(runtime.GOMAXPROCS(4))
	start := make(chan struct{})
	var wg sync.WaitGroup
	for _, f := range tasks {
		f := f
		wg.Add(1)
		go func() {
			defer wg.Done()
			defer func() { recover() }()
			<-start
			f()
		}()
	}
	close(start)
	wg.Wait()
}

var raceMixes = []string{"provider", "rp", "rp-handlers", "rs-keyset", "construct", "construct-issuer", "provider-storage-down", "keyset-cancel"}

func RunC20(t *testing.T, spec kernel.Spec) *kernel.Outcome {
	out := kernel.NewOutcome(spec)
	// ---- isolation half ----
	iso := inBubble(t, spec, func(o *kernel.Outcome, tape *kernel.Tape) {
		caps := world.Caps{ClientCredentials: true, TokenExchange: true, Device: true}
		w, err := world.NewStd(o, tape, world.StdOptions{Router: spec.Params["router"], ForceCaps: &caps, AllGrants: true})
		if err != nil {
			o.Infra = "world: " + err.Error()
			return
		}
		c := &c20{w: w, o: o}
		c.isolation(tape, 25+tape.Sub("cfg").Int(20))
	})
	if iso.Infra != "" {
		out.Infra = iso.Infra
		return out
	}
	out.Violations, out.Trace, out.StepIDs, out.Steps, out.Log = iso.Violations, iso.Trace, iso.StepIDs, iso.Steps, iso.Log
	for k, v := range iso.Probes {
		out.Probes[k] += v
	}
	out.Probe("isolation-programs")
	// ---- race half (only meaningful in a -race build) ----
	if raceEnabled && !spec.KeepSet {
		for _, mix := range raceMixes {
			mix := mix
			ok := t.Run(fmt.Sprintf("race-%s-%d", mix, spec.Seed), func(t *testing.T) {
				o := inBubble(t, spec, func(o *kernel.Outcome, tape *kernel.Tape) {
					caps := world.Caps{ClientCredentials: true, TokenExchange: true, Device: true}
					w, err := world.NewStd(o, tape, world.StdOptions{Router: spec.Params["router"], ForceCaps: &caps, AllGrants: true})
					if err != nil {
						return
					}
					world.RestoreDefaultEndpoints()
					raceMix(w, tape, mix)
					world.RestoreDefaultEndpoints()
				})
				_ = o
			})
			out.Probe("race-mixes")
			out.Probe("race-mix-" + mix)
			if !ok {
				out.Violate("C20", "data-race", "mix/"+mix, 1000+indexOf(raceMixes, mix), "the race detector reported a data race while goroutines used one shared instance concurrently (mix %q, seed %d); re-run this seed under -race to see the report", mix, spec.Seed)
			}
		}
	}
	out.Nontrivial = out.Steps > 0
	out.Sample = map[string]any{"seed": spec.Seed, "isolation_steps": out.Trace, "race_build": raceEnabled, "race_mixes": raceMixes}
	_ = time.Second
	return out
}

func indexOf(xs []string, x string) int {
	for i, y := range xs {
		if y == x {
			return i
		}
	}
	return -1
}
