//go:build race

package props

const raceEnabled = true
