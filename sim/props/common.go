// Package props holds one simulated workload and oracle set per property.
package props

import (
	"crypto/rsa"
	"crypto/x509"
	"encoding/json"
	"encoding/pem"
	"fmt"
	jose "github.com/go-jose/go-jose/v4"
	oidccrypto "github.com/zitadel/oidc/v3/pkg/crypto"
	"slices"
	"sort"
	"strings"
	"testing"

	"verif/sim/kernel"
	"verif/sim/world"
)

// inBubble runs body inside a synctest bubble with seeded randomness and turns a
// harness panic into infrastructure trouble.
func inBubble(t *testing.T, spec kernel.Spec, body func(o *kernel.Outcome, tape *kernel.Tape)) *kernel.Outcome {
	o := kernel.NewOutcome(spec)
	infra := kernel.Bubble(t, spec.Seed, func(t *testing.T) {
		tape := kernel.NewTape(spec.Seed, spec.Over)
		if spec.SequentialGroups {
			tape.ZeroPrefixes = kernel.GroupStreams
		}
		body(o, tape)
	})
	if infra != "" && o.Infra == "" {
		o.Infra = infra
	}
	return o
}

// steps runs n actor steps, honouring spec.Keep (replay / minimisation). Each step draws from its
// own tape stream, so dropping a step does not change the decisions of the others.
func steps(o *kernel.Outcome, tape *kernel.Tape, n int, do func(i int, ch *kernel.Chooser) string) {
	o.StepIDs = []int{}
	for i := 0; i < n; i++ {
		if o.Spec.KeepSet && !slices.Contains(o.Spec.Keep, i) {
			continue
		}
		kernel.Tick()
		desc := do(i, tape.Sub(fmt.Sprintf("step:%d", i)))
		o.StepIDs = append(o.StepIDs, i)
		o.Trace = append(o.Trace, fmt.Sprintf("%d:%s", i, desc))
		o.Logf("step %d: %s", i, desc)
		o.Steps++
	}
}

func sortedStrings(xs []string) []string {
	out := append([]string(nil), xs...)
	sort.Strings(out)
	return out
}

func sameSet(a, b []string) bool {
	x, y := sortedStrings(a), sortedStrings(b)
	return strings.Join(x, "\x00") == strings.Join(y, "\x00")
}

func subset(a, b []string) bool {
	for _, x := range a {
		if !slices.Contains(b, x) {
			return false
		}
	}
	return true
}

func short(s string) string {
	if len(s) > 24 {
		return s[:10] + ".." + s[len(s)-8:]
	}
	return s
}

// panicCheck records a handler panic as a probe (C09 reports panics; other checks only count them).
func panicProbe(o *kernel.Outcome, r *world.Resp) bool {
	if r != nil && r.Ex != nil && r.Ex.Panic != "" {
		o.Probe("handler-panic-seen")
		return true
	}
	return false
}

func audList(v any) []string {
	switch a := v.(type) {
	case string:
		return []string{a}
	case []any:
		var out []string
		for _, x := range a {
			out = append(out, fmt.Sprint(x))
		}
		return out
	}
	return nil
}

func jsonUnmarshal(s string, v any) error { return json.Unmarshal([]byte(s), v) }

func encryptAES(plain, key string) (string, error) { return oidccrypto.EncryptAES(plain, key) }

// rsaPEM encodes the RSA private key of a fixture JWK as PKCS#1 PEM (what the client helpers take).
func rsaPEM(k jose.JSONWebKey) []byte {
	priv, ok := k.Key.(*rsa.PrivateKey)
	if !ok {
		return nil
	}
	return pem.EncodeToMemory(&pem.Block{Type: "RSA PRIVATE KEY", Bytes: x509.MarshalPKCS1PrivateKey(priv)})
}
