package props

import (
	"encoding/base64"
	"encoding/json"
	"fmt"
	"net/url"
	"slices"
	"strings"
	"testing"
	"time"

	"github.com/zitadel/oidc/v3/pkg/oidc"

	"verif/sim/kernel"
	"verif/sim/world"
)

// The token world: honest clients obtain tokens, then honest and hostile actors use the token,
// introspection, revocation, userinfo and end_session endpoints in seeded histories. It serves
// C05 (client authentication and grants), C07 (refresh binding and scope), C08 (liveness).

type grantedToken struct {
	access   string
	refresh  string
	idToken  string
	client   string
	subject  string
	scopes   []string // scopes of this issuance
	original []string // scopes of the original grant (refresh chains)
	authTime int64
	chain    int
	flow     string
	issuer   string // the tenant (issuer) the tokens were obtained from
}

type tokenWorld struct {
	w    *world.World
	o    *kernel.Outcome
	prop string // the property whose oracle is active
	b    *world.Browser
	pool []*grantedToken
	dead []*grantedToken // tokens known to be revoked, rotated or expired (for "use again")
	n    int
	step int
	// faulty: this world is a faulting configuration (storage calls may fail inside operations); fault-free worlds
	// keep every oracle at full strength
	faulty bool
	// focus: the token whose expiry instant the clock was just moved to; the next focusLeft picks return it
	focus     *grantedToken
	focusLeft int
	// after: set together with focus when the clock was moved to shortly BEFORE a token's end: once the token has been
	// used there, the clock moves on to the instant `at` (shortly after the end) and the next pick returns the token again
	after *struct {
		g  *grantedToken
		at time.Time
	}
	// how the focused token was presented the last time (C15: which of its strings, declared as what), so that the use
	// after the clock moved presents the very same string; focusWhat: the string whose end the clock was moved to
	pickedFocus, sameAgain bool
	lastX                  int
	lastCaller             string
	focusWhat              string
}

func (tw *tokenWorld) site(s string) string { return "router" + tw.w.Router + "/" + s }

func (tw *tokenWorld) viol(prop, rule, site, format string, a ...any) {
	if prop != tw.prop {
		return
	}
	tw.o.Violate(prop, rule, tw.site(site), tw.step, format, a...)
}

var honestClients = []string{"web", "post", "pub", "native", "jwt", "hyb", "odd", "jwt2"}

// foreignHere: the token string is a JWT that names another issuer than the tenant the next request goes to. Such a
// token is not a live token of this provider-tenant, whatever the shared storage says about its id. (Opaque tokens
// name no issuer; whether a storage shared by several tenants honours them everywhere is the storage's business.)
func (tw *tokenWorld) foreignHere(tok string) bool {
	if len(tw.w.Issuers) < 2 || strings.Count(tok, ".") != 2 {
		return false
	}
	pl := world.JWTPayload(tok)
	iss, _ := pl["iss"].(string)
	return iss != "" && iss != tw.w.Issuer
}

// goHome directs the following requests to the tenant the tokens were obtained from (multi-tenant worlds): what the
// statements promise about a token's own client, revocation and refresh is promised at the token's own issuer.
func (tw *tokenWorld) goHome(g *grantedToken) {
	if g == nil || len(tw.w.Issuers) < 2 {
		return
	}
	for i, iss := range tw.w.Issuers {
		if iss == g.issuer {
			tw.w.UseIssuer(i)
		}
	}
}

// obtain runs an honest code flow for a random usable client.
func (tw *tokenWorld) obtain(ch *kernel.Chooser) string {
	w := tw.w
	client := honestClients[ch.Int(len(honestClients))]
	if !usableClient(w, client) {
		client = "web"
	}
	scopes := append([]string{oidc.ScopeOpenID}, ch.Subset([]string{oidc.ScopeProfile, oidc.ScopeEmail, oidc.ScopePhone})...)
	if ch.Bool(3, 4) {
		scopes = append(scopes, oidc.ScopeOfflineAccess)
	}
	if ch.Bool(1, 6) {
		// a client that names a scope twice (legal: the scope parameter is a list, nothing forbids a repeated entry)
		scopes = append(scopes, scopes[ch.Int(len(scopes))])
		tw.o.Probe("authorization-names-a-scope-twice")
	}
	user := ch.Pick("alice", "bob")
	if ch.Bool(1, 8) {
		user = "dave" // a subject with characters that URL escaping rewrites
		tw.o.Probe("subject-with-characters-that-escaping-rewrites")
	}
	if tw.prop == "C08" && ch.Bool(1, 8) {
		user = "carol" // subject with a colon
		tw.o.Probe("subject-with-colon")
	}
	s, err := codeFlow(w, tw.b, flowOpts{client: client, user: user, scopes: scopes})
	if err != nil {
		tw.o.Probe("honest-flow-failed")
		return fmt.Sprintf("obtain %s/%s %v -> failed: %v", client, user, scopes, err)
	}
	g := &grantedToken{access: s.tokens.AccessToken, refresh: s.tokens.RefreshToken, idToken: s.tokens.IDToken, client: client,
		subject: userID[user], scopes: scopes, original: scopes, flow: "code", issuer: w.Issuer}
	if p := world.JWTPayload(g.idToken); p != nil {
		if at, ok := p["auth_time"].(float64); ok {
			g.authTime = int64(at)
		}
	}
	tw.pool = append(tw.pool, g)
	tw.o.Probe("tokens-issued")
	return fmt.Sprintf("obtain %s/%s %v -> ok (refresh=%v)", client, user, scopes, g.refresh != "")
}

func (tw *tokenWorld) pick(ch *kernel.Chooser, needRefresh bool) *grantedToken {
	var c []*grantedToken
	for _, g := range append(append([]*grantedToken(nil), tw.pool...), tw.dead...) {
		if !needRefresh || g.refresh != "" {
			c = append(c, g)
		}
	}
	if len(c) == 0 {
		return nil
	}
	if a := tw.after; a != nil && tw.focusLeft == 0 && (!needRefresh || a.g.refresh != "") && slices.Contains(c, a.g) {
		// the same token again, now shortly after its end
		tw.after = nil
		if d := time.Until(a.at); d > 0 {
			tw.w.Advance(d)
		}
		tw.o.Probe("token-used-shortly-before-and-shortly-after-its-end")
		tw.sameAgain = true
		return a.g
	}
	if f := tw.focus; f != nil && tw.focusLeft > 0 && (!needRefresh || f.refresh != "") && slices.Contains(c, f) {
		// the clock was just moved to an instant that matters for this token: the next operations use it
		tw.focusLeft--
		tw.pickedFocus = true
		return f
	}
	return c[ch.Int(len(c))]
}

// pickPresentation chooses how a caller presents credentials for the client it claims to be.
func (tw *tokenWorld) pickPresentation(ch *kernel.Chooser, target string) presentation {
	w := tw.w
	now := time.Now()
	c := w.Store.Clients[target]
	x := ch.Int(23)
	if c != nil && c.Auth == oidc.AuthMethodPrivateKeyJWT && ch.Bool(1, 3) {
		// a client that authenticates by assertion: more of the assertion variants
		x = []int{13, 14, 15, 16, 17, 18, 22, 22}[ch.Int(8)]
	}
	if tw.prop == "C05" && c != nil && c.Auth != oidc.AuthMethodPrivateKeyJWT && c.Key != nil && ch.Bool(1, 3) {
		// a faultless assertion signed with the key the storage holds for a client that is registered for a secret
		p := mkAssertion(w, target, target, target, "", []string{w.Issuer}, now, now.Add(time.Hour))
		p.label = "assertion-by-a-client-registered-for-a-secret"
		tw.o.Probe("assertions-by-clients-registered-for-a-secret")
		return p
	}
	switch {
	case x == 22:
		// a long-lived assertion that is presented again more than an hour after it was issued: not expired, but older
		// than the provider admits (its verifier's maximum age is one hour)
		age := []time.Duration{61 * time.Minute, 2 * time.Hour, 25 * time.Hour}[ch.Int(3)]
		p := mkAssertion(w, target, target, target, "", []string{w.Issuer}, now.Add(-age), now.Add(time.Hour))
		p.label = "assertion-older-than-an-hour"
		return p
	case x >= 20: // authenticates correctly as itself while the body names another client
		p := rightPresentation(w, target)
		if p.creds.Mode == "basic" || p.creds.Mode == "assertion" {
			others := slices.DeleteFunc(w.SortedClients(), func(s string) bool { return s == target })
			p.creds.BodyClientID = others[ch.Int(len(others))]
			p.label = "right+body-names-" + p.creds.BodyClientID
			p.bodyClient = p.creds.BodyClientID
		}
		return p
	case x < 8:
		return rightPresentation(w, target)
	case x == 8:
		return presentation{creds: world.Creds{Mode: "basic", ID: target, Secret: "wrong-secret"}, label: "wrong-secret"}
	case x == 9:
		return presentation{creds: world.Creds{Mode: "post", ID: target, Secret: c.Secret}, label: "secret-by-post"}
	case x == 10:
		return presentation{creds: world.Creds{Mode: "basic", ID: target, Secret: c.Secret}, label: "secret-by-basic"}
	case x == 11:
		return presentation{creds: world.Creds{Mode: "id-only", ID: target}, label: "id-only"}
	case x == 12:
		if ch.Bool(1, 2) {
			// names the client and announces an assertion that never comes
			tw.o.Probe("assertion-type-without-an-assertion")
			return presentation{creds: world.Creds{Mode: "assertion-type-only", ID: target}, label: "assertion-type-without-assertion"}
		}
		return presentation{creds: world.Creds{Mode: "none"}, label: "none"}
	case x == 13: // assertion signed with an unrelated key, naming the target
		p := mkAssertion(w, target, target, "", "", []string{w.Issuer}, now, now.Add(time.Hour))
		p.label = "assertion-foreign-key"
		return p
	case x == 14: // client jwt signs with its own key but names the target as issuer
		kid := ""
		if c.Key != nil {
			kid = c.Key.KeyID
		}
		p := mkAssertion(w, target, target, "jwt", kid, []string{w.Issuer}, now, now.Add(time.Hour))
		if target == "jwt" {
			p.label = "right-assertion"
		} else {
			p.label = "assertion-other-clients-key"
		}
		return p
	case x == 15:
		p := mkAssertion(w, target, target, target, "", []string{w.Issuer}, now.Add(-2*time.Hour), now.Add(-time.Hour))
		p.label = "assertion-expired"
		return p
	case x == 16:
		// made out to somebody else: an unrelated server, or one whose name merely begins like this issuer's (a
		// look-alike host, another port, a path below it, the issuer plus a slash)
		aud := ch.Pick("https://other.sim", w.Issuer+".evil.example", w.Issuer+":8443", w.Issuer+"/oauth/token", w.Issuer+"/", strings.TrimSuffix(w.Issuer, "m"))
		p := mkAssertion(w, target, target, target, "", []string{aud}, now, now.Add(time.Hour))
		p.label = "assertion-wrong-aud"
		if aud != "https://other.sim" {
			tw.o.Probe("assertion-for-a-look-alike-audience")
		}
		return p
	case x == 17:
		p := mkAssertion(w, target, "someone-else", target, "", []string{w.Issuer}, now, now.Add(time.Hour))
		p.label = "assertion-sub-ne-iss"
		return p
	case x == 18:
		p := mkAssertion(w, target, target, target, "", []string{w.Issuer}, now.Add(10*time.Minute), now.Add(time.Hour))
		p.label = "assertion-future-iat"
		return p
	default:
		sec := c.Secret
		if sec == "" {
			sec = "x"
		}
		return presentation{creds: world.Creds{Mode: "basic", ID: target, Secret: sec + "-nope"}, label: "wrong-secret-2"}
	}
}

func isTokenSuccess(r *world.Resp) (*world.TokenResponse, bool) {
	if r == nil || r.Err != nil || r.Status != 200 {
		return nil, false
	}
	tr, err := world.ParseTokenResponse(r.Body)
	if err != nil {
		return nil, false
	}
	return tr, tr.AccessToken != "" || tr.RefreshToken != "" || tr.IDToken != ""
}

// secretCheckFailed: the storage's secret check was made in this request and failed by injection. A request that
// still acts for the client did so without the client having been authenticated.
func (tw *tokenWorld) secretCheckFailed(r *world.Resp, site, desc string) {
	if r == nil || r.Ex == nil {
		return
	}
	for _, j := range tw.w.Store.JournalFor(r.Ex.ID) {
		if j.Method == "AuthorizeClientIDSecret" && j.Fault != "" {
			tw.viol("C05", "unauthenticated-success", site+"/secret-check-failed", "%s: the endpoint acted for the client although the storage's secret check failed (%s)", desc, j.Fault)
		}
	}
}

// checkRefusal: refusals of the token endpoint must be a non-success status with an OAuth error document.
func (tw *tokenWorld) checkRefusal(r *world.Resp, what string) {
	if r == nil || r.Err != nil || r.Ex == nil || r.Ex.Panic != "" {
		return
	}
	if r.Status >= 200 && r.Status < 300 {
		return
	}
	var m map[string]any
	if r.Status < 400 || jsonUnmarshal(r.Body, &m) != nil || m["error"] == nil || m["error"] == "" {
		tw.viol("C05", "refusal-shape", "token", "%s refused with status %d and body %q, expected an OAuth error document", what, r.Status, firstLine(r.Body))
	}
}

// namesOwner: a caller that is not the artefact's client authenticates correctly as itself and lets the form name the
// artefact's client (client_id=<owner>): the identity the credentials established must not give way to the form's.
func (tw *tokenWorld) namesOwner(ch *kernel.Chooser, caller, owner string) (presentation, bool) {
	if caller == owner || !ch.Bool(1, 2) {
		return presentation{}, false
	}
	p := rightPresentation(tw.w, caller)
	if p.creds.Mode != "basic" && p.creds.Mode != "assertion" {
		return presentation{}, false
	}
	p.creds.BodyClientID, p.bodyClient = owner, owner
	p.label = "right+body-names-" + owner
	tw.o.Probe("foreign-caller-whose-form-names-the-owner")
	return p, true
}

// ---- refresh (C07, C05) ----

func (tw *tokenWorld) refresh(ch *kernel.Chooser) string {
	w := tw.w
	g := tw.pick(ch, true)
	if g == nil {
		return "refresh: no refresh token"
	}
	tw.goHome(g)
	caller := g.client
	if ch.Bool(1, 4) {
		caller = honestClients[ch.Int(len(honestClients))]
	}
	p := tw.pickPresentation(ch, caller)
	if caller == g.client && ch.Bool(2, 3) {
		p = rightPresentation(w, caller)
	}
	if q, ok := tw.namesOwner(ch, caller, g.client); ok {
		p = q
	}
	form := url.Values{"grant_type": {"refresh_token"}, "refresh_token": {g.refresh}}
	var req []string
	scopeKind := "same"
	switch ch.Int(9) {
	case 8:
		// as many entries as were granted, one of them exchanged for a scope that never was
		scopeKind = "superset"
		req = append([]string(nil), g.original...)
		req[ch.Int(len(req))] = ch.Pick("api", oidc.ScopeAddress, "custom:x")
		if subset(req, g.original) {
			scopeKind = "subset"
		}
	case 0:
		scopeKind = "subset"
		for _, s := range g.original {
			if ch.Bool(1, 2) || s == oidc.ScopeOpenID {
				req = append(req, s)
			}
		}
	case 1:
		scopeKind = "superset"
		req = append(append([]string(nil), g.original...), "api")
	case 2:
		scopeKind = "disjoint"
		req = []string{"custom:x"}
	case 3:
		scopeKind = "dup"
		req = append(append([]string(nil), g.original...), g.original[0])
	case 4:
		scopeKind = "explicit-same"
		req = append([]string(nil), g.original...)
	}
	if req != nil {
		form.Set("scope", strings.Join(req, " "))
	}
	switch ch.Int(12) {
	case 0:
		form.Set("refresh_token", "unknown-"+g.refresh)
		scopeKind += "+unknown-token"
	}
	presented := form.Get("refresh_token")
	wasLive := w.Store.RefreshLive(presented)
	snap := w.Store.RefreshSnapshot(presented)
	env := ""
	if tw.faulty && tw.prop == "C07" && ch.Bool(1, 5) {
		// one storage call of this request fails: the request may fail, but an answer that still says success must
		// satisfy every rule below (rotation through the storage, the storage's new refresh token in the response)
		k, kind, fired := ch.Range(1, 8), []string{world.FaultError, world.FaultTimeout}[ch.Int(2)], false
		env = fmt.Sprintf(" storage-%s@%d", kind, k)
		w.Store.Inject = func(n int, method string, rid int) string {
			if n == k && !fired {
				fired = true
				tw.o.Fault(kind)
				env += "(" + method + ")"
				return kind
			}
			return ""
		}
	}
	// in some cases the operator has meanwhile withdrawn the refresh grant from the presenting client's registration
	var restore func()
	regNote := ""
	if cw := w.Store.Clients[p.claimedClient()]; cw != nil && cw.HasGrant(oidc.GrantTypeRefreshToken) && ch.Bool(1, 8) {
		saved := cw.Grants
		cw.Grants = slices.DeleteFunc(append([]oidc.GrantType(nil), saved...), func(x oidc.GrantType) bool { return x == oidc.GrantTypeRefreshToken })
		restore = func() { cw.Grants = saved }
		regNote = " [refresh grant withdrawn from " + cw.ID + "]"
		tw.o.Probe("refresh-after-grant-was-withdrawn")
	}
	r := w.PostForm("/oauth/token", form, p.creds)
	w.Store.Inject = nil
	desc := fmt.Sprintf("refresh token of %s by %s (%s) scope=%s live=%v%s%s -> %d", g.client, caller, p.label, scopeKind, wasLive, env, regNote, statusOf(r))
	if restore != nil {
		// judged with the registration as it was during the request; put back afterwards
		defer restore()
	}
	if panicProbe(tw.o, r) || r.Err != nil {
		return desc
	}
	tr, ok := isTokenSuccess(r)
	if !ok && env != "" {
		return desc // a request that met a storage fault may fail in whatever way C10 admits
	}
	if !ok {
		tw.checkRefusal(r, desc)
		if scopeKind == "superset" || scopeKind == "disjoint" {
			tw.o.Probe("widening-refused")
			// nothing may have been issued
			for _, j := range w.Store.JournalFor(r.Ex.ID) {
				if strings.HasPrefix(j.Method, "CreateAccess") && j.Fault == "" {
					tw.viol("C07", "scope-widening", "refresh", "%s: refused, but the storage was asked to create tokens", desc)
				}
			}
			if caller == g.client && p.label == "right" && wasLive && tw.w.Conf.GrantTypeRefreshToken && w.Store.Clients[caller].HasGrant(oidc.GrantTypeRefreshToken) {
				var m map[string]any
				if jsonUnmarshal(r.Body, &m) == nil && m["error"] != "invalid_scope" {
					tw.viol("C07", "scope-widening", "refresh-error", "%s: expected invalid_scope, got %v", desc, m["error"])
				}
			}
		}
		return desc
	}
	tw.o.Probe("refresh-success")
	tw.secretCheckFailed(r, "token/refresh", desc)
	// ---- C05: authentication and grant ----
	allowed, und, why := authAllowed(w, p, true, w.Conf.AuthMethodPrivateKeyJWT, time.Now())
	if !und && !allowed {
		tw.viol("C05", "unauthenticated-success", "token/refresh/"+why, "%s: tokens issued although the presentation %q does not authenticate client %q (%s)", desc, p.label, caller, why)
		// C07 states the same of the refresh grant itself ("succeeds only for the authenticated, or public and identified, client")
		tw.viol("C07", "unauthenticated-refresh", "refresh/"+why, "%s: refresh succeeded although the presentation %q does not authenticate client %q (%s)", desc, p.label, caller, why)
	}
	cc := w.Store.Clients[p.claimedClient()]
	if cc != nil && !cc.HasGrant(oidc.GrantTypeRefreshToken) {
		tw.viol("C05", "unregistered-grant", "token/refresh", "%s: client %q is not registered for the refresh grant", desc, cc.ID)
		tw.viol("C07", "grant", "refresh", "%s: client %q is not registered for the refresh grant", desc, cc.ID)
	}
	if !w.Conf.GrantTypeRefreshToken {
		tw.viol("C05", "disabled-grant", "token/refresh", "%s: refresh grant is disabled on the provider", desc)
	}
	// ---- C07 ----
	if snap == nil || !wasLive {
		tw.viol("C07", "dead-token", "refresh", "%s: a refresh token that is unknown, rotated or revoked yielded tokens", desc)
		return desc + " TOKENS"
	}
	if p.claimedClient() != snap.Client {
		tw.viol("C07", "client-binding", "refresh", "%s: token belongs to %q, tokens went to %q", desc, snap.Client, p.claimedClient())
	}
	if req != nil && !subset(req, snap.Scopes) {
		tw.viol("C07", "scope-widening", "refresh", "%s: requested %v is not a subset of the original %v", desc, req, snap.Scopes)
	}
	want := snap.Scopes
	if req != nil {
		want = req
	}
	if !sameSet(dedup(tr.ScopeList()), dedup(want)) {
		tw.viol("C07", "response-scope", "refresh", "%s: response scope %v, expected %v", desc, tr.ScopeList(), want)
	}
	if !subset(tr.ScopeList(), g.original) {
		tw.viol("C07", "scope-growth", "refresh", "%s: scope %v grew beyond the original grant %v", desc, tr.ScopeList(), g.original)
	}
	if w.Store.PersistScopes && !subset(tr.ScopeList(), g.scopes) {
		// this storage records a narrowed grant (the narrowing request told it so through SetCurrentScopes): along the
		// chain the scope may only shrink
		tw.viol("C07", "scope-growth", "refresh-chain", "%s: scope %v grew over the chain: the issuance that produced this refresh token granted %v (original grant %v) and the storage records narrowing", desc, tr.ScopeList(), g.scopes, g.original)
	}
	rotated := false
	for _, j := range w.Store.JournalFor(r.Ex.ID) {
		if j.Method == "CreateAccessAndRefreshTokens" && strings.HasSuffix(j.Args, ","+presented) {
			rotated = true
		}
	}
	if !rotated {
		tw.viol("C07", "rotation", "refresh", "%s: the presented refresh token was not handed to the storage for rotation", desc)
	}
	if tr.RefreshToken == "" || tr.RefreshToken == presented || !w.Store.RefreshLive(tr.RefreshToken) {
		tw.viol("C07", "rotation", "refresh-response", "%s: response refresh token %q is not the storage's new token", desc, short(tr.RefreshToken))
	}
	if w.Store.RefreshLive(presented) {
		tw.viol("C07", "rotation", "refresh-old", "%s: presented refresh token is still live after rotation", desc)
	}
	if id, sub, _, ok := w.DecodeAccess(tr.AccessToken); ok {
		t := w.Store.TokenSnapshot(id)
		if sub != snap.Subject || t == nil || t.Subject != snap.Subject || t.Client != snap.Client || !sameSet(t.Audience, snap.Audience) {
			tw.viol("C07", "token-binding", "refresh", "%s: new access token subject/client/audience differ from the refresh token's (%v vs %v)", desc, t, snap)
		}
	}
	if tr.IDToken != "" {
		pl := world.JWTPayload(tr.IDToken)
		if pl["sub"] != snap.Subject || !slices.Contains(audList(pl["aud"]), snap.Client) {
			tw.viol("C07", "token-binding", "refresh-idtoken", "%s: new id_token sub/aud %v/%v, expected %s/%s", desc, pl["sub"], pl["aud"], snap.Subject, snap.Client)
		}
		if at, ok := pl["auth_time"].(float64); ok && g.authTime != 0 && int64(at) != g.authTime {
			tw.viol("C07", "token-binding", "refresh-authtime", "%s: auth_time changed from %d to %d", desc, g.authTime, int64(at))
		}
	}
	// the old pair is dead now, the new one joins the pool
	ng := &grantedToken{access: tr.AccessToken, refresh: tr.RefreshToken, idToken: tr.IDToken, client: snap.Client, subject: snap.Subject,
		scopes: tr.ScopeList(), original: g.original, authTime: g.authTime, chain: g.chain + 1, flow: "refresh", issuer: g.issuer}
	tw.retire(g)
	tw.pool = append(tw.pool, ng)
	if ng.chain >= 2 {
		tw.o.Probe("refresh-chain-2+")
	}
	w.Record(tr, "refresh", snap.Client, r.Ex.ID, "")
	return desc + " TOKENS"
}

// sameJWT: two compact serialisations that decode to the same three byte strings are the same token (base64url
// tolerates differences in the unused trailing bits).
func sameJWT(a, b string) bool {
	pa, pb := strings.Split(a, "."), strings.Split(b, ".")
	if len(pa) != 3 || len(pb) != 3 {
		return false
	}
	for i := range pa {
		x, err1 := base64.RawURLEncoding.DecodeString(pa[i])
		y, err2 := base64.RawURLEncoding.DecodeString(pb[i])
		if err1 != nil || err2 != nil || string(x) != string(y) {
			return false
		}
	}
	return true
}

func dedup(xs []string) []string {
	var out []string
	for _, x := range xs {
		if !slices.Contains(out, x) {
			out = append(out, x)
		}
	}
	return out
}

func (tw *tokenWorld) retire(g *grantedToken) {
	for i, x := range tw.pool {
		if x == g {
			tw.pool = append(tw.pool[:i], tw.pool[i+1:]...)
			tw.dead = append(tw.dead, g)
			return
		}
	}
}

// ---- userinfo / introspection / revocation / end_session (C08, C05) ----

// mangle returns a token string derived from a genuine one: tampered, re-encrypted or garbage.
func (tw *tokenWorld) mangle(ch *kernel.Chooser, tok string) (string, string) {
	if parts := strings.Split(tok, "."); len(parts) == 3 && ch.Bool(1, 3) {
		// a JWT whose payload was edited while header and signature are the genuine ones (which the provider has most
		// likely verified before): another subject, another token id, a later expiry
		if raw, err := base64.RawURLEncoding.DecodeString(parts[1]); err == nil {
			var m map[string]any
			if json.Unmarshal(raw, &m) == nil {
				switch ch.Int(3) {
				case 0:
					m["sub"] = map[bool]string{true: "u2", false: "u1"}[m["sub"] == "u1"]
				case 1:
					m["exp"] = time.Now().Add(1000 * time.Hour).Unix()
				default:
					m["jti"] = "at1"
				}
				if b, err := json.Marshal(m); err == nil {
					return parts[0] + "." + base64.RawURLEncoding.EncodeToString(b) + "." + parts[2], "payload-edited-genuine-signature"
				}
			}
		}
	}
	switch ch.Int(7) {
	case 0:
		if len(tok) > 10 {
			i := 5 + ch.Int(len(tok)-6)
			b := []byte(tok)
			if b[i] == 'A' {
				b[i] = 'B'
			} else {
				b[i] = 'A'
			}
			return string(b), "bit-flip"
		}
	case 1:
		return tok[:len(tok)/2], "truncated"
	case 2:
		return "garbage-" + fmt.Sprint(ch.Int(1000)), "garbage"
	case 3: // re-encryption of a plausible "id:subject" under another key
		if id, sub, jwt, ok := tw.w.DecodeAccess(tok); ok && !jwt {
			key := strings.Repeat("k", 32)
			if c, err := encryptAES(id+":"+sub, key); err == nil {
				return c, "re-encrypted-other-key"
			}
		}
	case 4:
		return tok + "A", "suffix"
	case 5: // a JWT signed with the provider's own key but naming another issuer (a token of another tenant / host)
		key := tw.w.Store.CurrentKey()
		now := time.Now()
		payload, _ := json.Marshal(map[string]any{"iss": "https://other-tenant.sim", "sub": "u1", "aud": []string{"web"}, "exp": now.Add(time.Hour).Unix(), "iat": now.Unix(), "jti": "at1", "client_id": "web"})
		return signRaw(payload, key.Alg, key.Priv, key.KID), "other-issuer-jwt"
	}
	return tok + ".x", "extra-segment"
}

func (tw *tokenWorld) userinfo(ch *kernel.Chooser) string {
	w := tw.w
	g := tw.pick(ch, false)
	if g == nil {
		return "userinfo: no token"
	}
	tok, kind := g.access, "genuine"
	if ch.Bool(1, 4) {
		tok, kind = tw.mangle(ch, g.access)
	}
	if ch.Bool(1, 2) {
		tw.goHome(g)
	}
	id, sub, _, decodes := w.DecodeAccess(tok)
	live := decodes && w.Store.TokenLive(id) && !tw.foreignHere(tok)
	if decodes && tw.foreignHere(tok) {
		tw.o.Probe("jwt-access-token-presented-at-another-tenant")
	}
	torn := tw.prop == "C08" && ch.Bool(1, 8)
	if torn {
		fired := false
		w.Store.Inject = func(n int, method string, rid int) string {
			if method == "SetUserinfoFromToken" && !fired {
				fired = true
				tw.o.Fault(world.FaultTorn)
				return world.FaultTorn
			}
			return ""
		}
	}
	// how the token travels is the client's choice: Authorization header, form of a POST, or URL query
	how := ch.Pick("header", "header", "post-form", "query")
	var r *world.Resp
	switch how {
	case "post-form":
		r = w.PostForm("/userinfo", url.Values{"access_token": {tok}}, world.Creds{Mode: "none"})
	case "query":
		r = rawGet(w, "/userinfo?"+url.Values{"access_token": {tok}}.Encode())
	default:
		r = bearerGet(w, "/userinfo", tok)
	}
	tw.o.Probe("userinfo-token-by-" + how)
	w.Store.Inject = nil
	desc := fmt.Sprintf("userinfo (token by %s) with %s token of %s (live=%v torn=%v) -> %d", how, kind, g.client, live, torn, statusOf(r))
	if torn && r.Ex != nil && r.Ex.Panic == "" {
		if r.Status == 200 || strings.Contains(r.Body, "@sim") {
			tw.viol("C08", "dead-token-honoured", "userinfo-torn", "%s: claims disclosed although the storage call failed: %s", desc, firstLine(r.Body))
		}
		return desc
	}
	if panicProbe(tw.o, r) || r.Err != nil {
		return desc
	}
	if r.Status == 200 {
		tw.o.Probe("userinfo-200")
		t := w.Store.TokenSnapshot(id)
		if !live || t == nil || t.Subject != sub {
			tw.viol("C08", "dead-token-honoured", "userinfo", "%s: claims returned for a token that is not live (%s)", desc, firstLine(r.Body))
		}
		if kind != "genuine" && tok != g.access {
			if !decodes || t == nil || (strings.Count(g.access, ".") == 2 && !sameJWT(tok, g.access)) {
				tw.viol("C08", "forged-token-honoured", "userinfo", "%s: claims returned for a manipulated token", desc)
			}
		}
		var m map[string]any
		if jsonUnmarshal(r.Body, &m) == nil && t != nil {
			// (the storage names the subject for tokens whose scope contains openid; for any other token whatever "sub" the
			// storage's own private claims carry is the storage's answer, not the library's)
			if s, _ := m["sub"].(string); s != "" && s != t.Subject && slices.Contains(t.Scopes, oidc.ScopeOpenID) {
				tw.viol("C08", "wrong-subject", "userinfo", "%s: userinfo sub %q, token subject %q", desc, s, t.Subject)
			}
		}
	} else if kind == "genuine" && live {
		tw.o.Probe("userinfo-live-refused")
	}
	return desc
}

func (tw *tokenWorld) introspect(ch *kernel.Chooser) string {
	w := tw.w
	g := tw.pick(ch, false)
	if g == nil {
		return "introspect: no token"
	}
	caller := g.client
	if ch.Bool(1, 3) {
		caller = honestClients[ch.Int(len(honestClients))]
	}
	p := tw.pickPresentation(ch, caller)
	if ch.Bool(1, 2) {
		p = rightPresentation(w, caller)
	}
	tok, kind := g.access, "genuine"
	if ch.Bool(1, 5) {
		tok, kind = tw.mangle(ch, g.access)
	}
	if ch.Bool(1, 2) {
		tw.goHome(g)
	}
	id, _, _, decodes := w.DecodeAccess(tok)
	live := decodes && w.Store.TokenLive(id) && !tw.foreignHere(tok)
	if decodes && tw.foreignHere(tok) {
		tw.o.Probe("jwt-access-token-presented-at-another-tenant")
	}
	torn := tw.prop == "C08" && ch.Bool(1, 6)
	if torn { // the storage fills the response partially and then fails
		fired := false
		w.Store.Inject = func(n int, method string, rid int) string {
			if method == "SetIntrospectionFromToken" && !fired {
				fired = true
				tw.o.Fault(world.FaultTorn)
				return world.FaultTorn
			}
			return ""
		}
	}
	r := w.PostForm("/oauth/introspect", url.Values{"token": {tok}}, p.creds)
	w.Store.Inject = nil
	desc := fmt.Sprintf("introspect %s token of %s by %s (%s) live=%v torn=%v -> %d", kind, g.client, caller, p.label, live, torn, statusOf(r))
	if panicProbe(tw.o, r) || r.Err != nil {
		return desc
	}
	if r.Status != 200 {
		return desc
	}
	var m map[string]any
	if jsonUnmarshal(r.Body, &m) != nil {
		tw.viol("C08", "introspection-shape", "introspect", "%s: body is not JSON: %q", desc, firstLine(r.Body))
		return desc
	}
	active, _ := m["active"].(bool)
	if !active {
		tw.o.Probe("introspect-inactive")
		if len(m) != 1 {
			tw.viol("C08", "inactive-discloses", "introspect", "%s: inactive answer has more than active:false: %s", desc, firstLine(r.Body))
		}
		return desc + " inactive"
	}
	tw.o.Probe("introspect-active")
	tw.secretCheckFailed(r, "introspect", desc)
	if torn {
		tw.viol("C08", "dead-token-honoured", "introspect-torn", "%s: active:true although the storage call failed", desc)
	}
	t := w.Store.TokenSnapshot(id)
	if kind != "genuine" && tok != g.access && strings.Count(g.access, ".") == 2 && !sameJWT(tok, g.access) {
		tw.viol("C08", "forged-token-honoured", "introspect", "%s: active:true for a manipulated token", desc)
	}
	if !live || t == nil {
		tw.viol("C08", "dead-token-honoured", "introspect", "%s: active:true for a token that is not live", desc)
	} else if !slices.Contains(t.Audience, p.claimedClient()) {
		tw.viol("C08", "audience", "introspect", "%s: active:true although caller %q is not in the token audience %v", desc, p.claimedClient(), t.Audience)
	}
	allowed, und, why := authAllowed(w, p, false, true, time.Now())
	if !und && !allowed {
		tw.viol("C05", "unauthenticated-success", "introspect/"+why, "%s: active:true although presentation %q does not authenticate client %q (%s)", desc, p.label, caller, why)
		tw.viol("C08", "unauthenticated-introspection", "introspect/"+why, "%s: active:true although presentation %q does not authenticate client %q (%s)", desc, p.label, caller, why)
	}
	return desc + " ACTIVE"
}

func (tw *tokenWorld) revoke(ch *kernel.Chooser) string {
	w := tw.w
	g := tw.pick(ch, false)
	if g == nil {
		return "revoke: no token"
	}
	tw.goHome(g)
	caller := g.client
	if ch.Bool(1, 3) {
		caller = honestClients[ch.Int(len(honestClients))]
	}
	p := tw.pickPresentation(ch, caller)
	if ch.Bool(2, 3) {
		p = rightPresentation(w, caller)
	}
	if q, ok := tw.namesOwner(ch, caller, g.client); ok {
		p = q
	}
	tok, what := g.access, "access"
	if g.refresh != "" && ch.Bool(1, 2) {
		tok, what = g.refresh, "refresh"
	}
	kind := "genuine"
	if ch.Bool(1, 5) {
		tok, kind = tw.mangle(ch, tok)
	}
	form := url.Values{"token": {tok}}
	switch ch.Int(4) {
	case 0:
		form.Set("token_type_hint", "access_token")
	case 1:
		form.Set("token_type_hint", "refresh_token")
	}
	liveBefore := tw.isLive(g, what)
	wellBeforeExpiry := tw.liveWithMargin(g, what)
	// an access token the provider does not honour in the first place (see usableAccess) is garbage to it
	recognised := what == "refresh" || kind != "genuine" || !liveBefore || tw.usableAccess(g)
	// a manipulated string is garbage only if it no longer designates any token the provider knows
	garbage := kind != "genuine" && w.Store.RefreshSnapshot(tok) == nil
	if id, _, _, ok := w.DecodeAccess(tok); ok && w.Store.TokenSnapshot(id) != nil {
		garbage = false
	}
	r := w.PostForm("/revoke", form, p.creds)
	desc := fmt.Sprintf("revoke %s %s token of %s by %s (%s) hint=%q -> %d", kind, what, g.client, caller, p.label, form.Get("token_type_hint"), statusOf(r))
	if panicProbe(tw.o, r) || r.Err != nil {
		return desc
	}
	liveAfter := tw.isLive(g, what)
	if liveBefore && !liveAfter && !tw.killed(g, what) {
		// the token merely expired while the request was being served (a stalled storage call lets the clock move)
		liveAfter, liveBefore = false, false
	}
	allowed, und, why := authAllowed(w, p, true, true, time.Now())
	// the positive obligations of revocation are demanded only of callers that authenticate exactly as registered
	authed := allowed && !und && (p.label == "right" || p.label == "right-assertion")
	if liveBefore && !liveAfter {
		tw.o.Probe("revocation-effective")
		tw.secretCheckFailed(r, "revoke", desc)
		// a state change: only the owner, authenticated, may cause it
		if !und && !allowed {
			tw.viol("C05", "unauthenticated-success", "revoke/"+why, "%s: token was revoked although presentation %q does not authenticate client %q (%s)", desc, p.label, caller, why)
			// whoever merely names the owner is not the owner: C08 refuses revocation by anyone else
			tw.viol("C08", "unauthenticated-revocation", "revoke/"+why, "%s: token was revoked although presentation %q does not authenticate client %q (%s)", desc, p.label, caller, why)
		}
		if p.claimedClient() != g.client {
			tw.viol("C08", "foreign-revocation", "revoke", "%s: client %q revoked a token of client %q", desc, p.claimedClient(), g.client)
		}
		if what == "refresh" || liveAfter == false {
			tw.retire(g)
		}
	}
	if authed && kind == "genuine" && p.claimedClient() == g.client && wellBeforeExpiry {
		// revocation by the owning client makes the token unusable
		if r.Status == 200 && liveAfter && (what == "refresh" || tw.usableAccess(g)) {
			tw.viol("C08", "revocation-ineffective", "revoke", "%s: answered 200 but the token is still live and honoured", desc)
		}
	}
	if authed && p.claimedClient() != g.client && kind == "genuine" && wellBeforeExpiry && recognised {
		tw.o.Probe("foreign-revocation-attempt")
		if r.Status < 400 {
			tw.viol("C08", "foreign-revocation", "revoke-status", "%s: revocation by another client was not refused", desc)
		}
	}
	if authed && garbage {
		tw.o.Probe("garbage-revocation")
		if r.Status != 200 {
			tw.viol("C08", "garbage-revocation", "revoke", "%s: revoking an unknown or garbage token must answer 200, got %d %s", desc, r.Status, firstLine(r.Body))
		}
	}
	return desc
}

// liveWithMargin: live and more than a few seconds (plus the client's clock skew) away from expiry, so that
// the library's own expiry check of a JWT access token cannot disagree with the storage about "now".
func (tw *tokenWorld) liveWithMargin(g *grantedToken, what string) bool {
	if !tw.isLive(g, what) {
		return false
	}
	if what == "refresh" {
		r := tw.w.Store.RefreshSnapshot(g.refresh)
		return r != nil && time.Until(r.Exp) > 3*time.Second
	}
	id, _, _, _ := tw.w.DecodeAccess(g.access)
	t := tw.w.Store.TokenSnapshot(id)
	return t != nil && time.Until(t.Exp) > 3*time.Second
}

// killed: the storage marks the token revoked / dead (as opposed to merely past its expiry).
func (tw *tokenWorld) killed(g *grantedToken, what string) bool {
	if what == "refresh" {
		r := tw.w.Store.RefreshSnapshot(g.refresh)
		return r != nil && r.Dead
	}
	id, _, _, ok := tw.w.DecodeAccess(g.access)
	if !ok {
		return false
	}
	t := tw.w.Store.TokenSnapshot(id)
	return t != nil && t.Revoked
}

func (tw *tokenWorld) isLive(g *grantedToken, what string) bool {
	if what == "refresh" {
		return tw.w.Store.RefreshLive(g.refresh)
	}
	id, _, _, ok := tw.w.DecodeAccess(g.access)
	return ok && tw.w.Store.TokenLive(id)
}

// usableAccess: the access token is live in the storage AND the provider still honours it at userinfo. "Unusable at
// the endpoints" is what the statement demands of a revocation; a token the provider never honours (it cannot parse
// its own opaque token when the subject contains a colon) is unusable whatever the storage says.
func (tw *tokenWorld) usableAccess(g *grantedToken) bool {
	if !tw.isLive(g, "access") {
		return false
	}
	r := bearerGet(tw.w, "/userinfo", g.access)
	if r.Err == nil && r.Status == 200 {
		return true
	}
	tw.o.Probe("live-in-storage-but-refused")
	return false
}

func (tw *tokenWorld) endSession(ch *kernel.Chooser) string {
	w := tw.w
	g := tw.pick(ch, false)
	if g == nil || g.idToken == "" {
		return "end_session: no id token"
	}
	tw.goHome(g)
	q := url.Values{"id_token_hint": {g.idToken}}
	r := rawGet(w, "/end_session?"+q.Encode())
	desc := fmt.Sprintf("end_session for %s/%s -> %d", g.client, g.subject, statusOf(r))
	if panicProbe(tw.o, r) || r.Err != nil {
		return desc
	}
	if r.Status == 302 {
		tw.o.Probe("logout")
		// afterwards the session's tokens are dead everywhere
		for _, x := range append([]*grantedToken(nil), tw.pool...) {
			if x.client == g.client && x.subject == g.subject {
				if tw.usableAccess(x) || (x.refresh != "" && tw.isLive(x, "refresh")) {
					tw.viol("C08", "logout-ineffective", "end_session", "%s: tokens of the terminated session are still live", desc)
				}
				tw.retire(x)
			}
		}
	}
	return desc
}

// exchangeUse: a token exchange that presents an access token as subject and, in half of the cases, another one as
// actor (delegation). Success implies that both are live tokens of this provider (C08).
func (tw *tokenWorld) exchangeUse(ch *kernel.Chooser) string {
	w := tw.w
	if !w.Caps.TokenExchange {
		return "exchange: storage has no token-exchange capability"
	}
	var callers []string
	for _, id := range honestClients {
		if c := w.Store.Clients[id]; usableClient(w, id) && c.HasGrant(oidc.GrantTypeTokenExchange) && !c.Public() {
			callers = append(callers, id)
		}
	}
	subj := tw.pick(ch, false)
	if len(callers) == 0 || subj == nil {
		return "exchange: no caller or no token"
	}
	caller := callers[ch.Int(len(callers))]
	stok, skind := subj.access, "genuine"
	if ch.Bool(1, 6) {
		stok, skind = tw.mangle(ch, subj.access)
	}
	form := url.Values{"grant_type": {string(oidc.GrantTypeTokenExchange)}, "subject_token": {stok}, "subject_token_type": {string(oidc.AccessTokenType)}, "requested_token_type": {string(oidc.AccessTokenType)}}
	sid, _, _, sdec := w.DecodeAccess(stok)
	if ch.Bool(1, 2) {
		tw.goHome(subj)
	}
	if sdec && tw.foreignHere(stok) {
		tw.o.Probe("jwt-access-token-presented-at-another-tenant")
	}
	slive := sdec && w.Store.TokenLive(sid) && !tw.foreignHere(stok) && (skind == "genuine" || stok == subj.access || strings.Count(subj.access, ".") != 2 || sameJWT(stok, subj.access))
	// an ID token of the provider may serve as subject or actor too: it is live as long as it has not expired (the
	// provider keeps no record of ID tokens; its own expiry check is all there is)
	// exact: an ID token is dead from the instant exp names; a request that began before that instant and ended after
	// it may be answered either way (idEnds holds the instants to compare the request's end with)
	var idEnds []time.Time
	idLive := func(g *grantedToken) (live, undecided bool) {
		pl := world.JWTPayload(g.idToken)
		exp, ok := pl["exp"].(float64)
		if !ok {
			return false, false
		}
		end := time.Unix(int64(exp), 0)
		if time.Now().Before(end) {
			idEnds = append(idEnds, end)
			return true, false
		}
		return false, false
	}
	sUndecided := false
	if subj.idToken != "" && ch.Bool(1, 3) {
		stok, skind = subj.idToken, "id-token"
		form.Set("subject_token", stok)
		form.Set("subject_token_type", string(oidc.IDTokenType))
		slive, sUndecided = idLive(subj)
		if subj.issuer != "" && subj.issuer != w.Issuer {
			slive = false
		}
	}
	var actor *grantedToken
	alive := true
	aUndecided := false
	if ch.Bool(1, 2) {
		actor = tw.pick(ch, false)
		if actor.idToken != "" && ch.Bool(1, 3) {
			form.Set("actor_token", actor.idToken)
			form.Set("actor_token_type", string(oidc.IDTokenType))
			alive, aUndecided = idLive(actor)
			if actor.issuer != "" && actor.issuer != w.Issuer {
				alive = false
			}
		} else {
			form.Set("actor_token", actor.access)
			form.Set("actor_token_type", string(oidc.AccessTokenType))
			aid, _, _, adec := w.DecodeAccess(actor.access)
			alive = adec && w.Store.TokenLive(aid) && !tw.foreignHere(actor.access)
		}
	}
	r := w.PostForm("/oauth/token", form, rightPresentation(w, caller).creds)
	desc := fmt.Sprintf("exchange by %s: subject %s token of %s (live=%v) actor=%v (live=%v) -> %d", caller, skind, subj.client, slive, actor != nil, alive, statusOf(r))
	if panicProbe(tw.o, r) || r.Err != nil {
		return desc
	}
	if _, ok := isTokenSuccess(r); !ok {
		return desc
	}
	tw.o.Probe("exchange-success")
	for _, end := range idEnds {
		if !time.Now().Before(end) {
			// an ID token ended while the request was being served
			sUndecided, aUndecided = true, true
		}
	}
	if skind == "id-token" {
		tw.o.Probe("exchange-id-token-subject-success")
	}
	if !slive && !sUndecided {
		tw.viol("C08", "dead-token-honoured", "exchange-subject", "%s: the exchange accepted a subject token that is not a live token of this provider", desc)
	}
	if actor != nil {
		tw.o.Probe("exchange-with-actor-success")
		if !alive && !aUndecided {
			tw.viol("C08", "dead-token-honoured", "exchange-actor", "%s: the exchange accepted an actor token that is not live", desc)
		}
	}
	return desc + " TOKENS"
}

func (tw *tokenWorld) advance(ch *kernel.Chooser) string {
	var d time.Duration
	switch ch.Int(6) {
	case 5:
		// to shortly before the end of a token; the next operation uses that token, then the clock moves to shortly
		// after its end and the token is used again (whatever the first use made anybody remember is seconds old)
		if len(tw.pool) == 0 {
			return "advance: no token"
		}
		g := tw.pool[ch.Int(len(tw.pool))]
		var end time.Time
		what := "access token"
		if exp, ok := world.JWTPayload(g.idToken)["exp"].(float64); ok && g.idToken != "" && ch.Bool(1, 2) {
			end, what = time.Unix(int64(exp), 0), "ID token"
		} else if id, _, _, ok := tw.w.DecodeAccess(g.access); ok {
			if t := tw.w.Store.TokenSnapshot(id); t != nil {
				end = t.Exp
			}
		}
		before := []time.Duration{time.Second, 10 * time.Second, 30 * time.Second, 50 * time.Second}[ch.Int(4)]
		past := []time.Duration{0, time.Millisecond, time.Second, 5 * time.Second, 20 * time.Second, 45 * time.Second}[ch.Int(6)]
		if end.IsZero() || time.Until(end) <= before || time.Until(end) > 3*time.Hour {
			return "advance: no token about to end"
		}
		d = time.Until(end) - before
		tw.w.Advance(d)
		tw.focus, tw.focusLeft = g, 1
		tw.focusWhat = what
		tw.after = &struct {
			g  *grantedToken
			at time.Time
		}{g, end.Add(past)}
		return fmt.Sprintf("advance clock %v: %v before the end of the %s of %s/%s (to be used now and again %v after its end)", d, before, what, g.client, g.subject, past)
	case 4:
		// to the very instant at which a token of the pool ends (its ID token's exp, or the access token's expiry), or a
		// few hundred milliseconds past it - still inside the second that exp names
		if len(tw.pool) == 0 {
			return "advance: no token"
		}
		g := tw.pool[ch.Int(len(tw.pool))]
		var end time.Time
		what := "access token"
		if exp, ok := world.JWTPayload(g.idToken)["exp"].(float64); ok && g.idToken != "" && ch.Bool(1, 2) {
			end, what = time.Unix(int64(exp), 0), "ID token"
		} else if id, _, _, ok := tw.w.DecodeAccess(g.access); ok {
			if t := tw.w.Store.TokenSnapshot(id); t != nil {
				end = t.Exp
			}
		}
		delta := []time.Duration{0, time.Millisecond, 400 * time.Millisecond, 999 * time.Millisecond, -time.Millisecond}[ch.Int(5)]
		if end.IsZero() || time.Until(end)+delta <= 0 || time.Until(end) > 3*time.Hour {
			return "advance: no token about to end"
		}
		d = time.Until(end) + delta
		tw.w.Advance(d)
		tw.focus, tw.focusLeft = g, 2
		tw.focusWhat = what
		tw.o.Probe("clock-at-a-token's-expiry-instant")
		return fmt.Sprintf("advance clock %v: %v relative to the end of the %s of %s/%s", d, delta, what, g.client, g.subject)
	case 0:
		d = time.Duration(ch.Range(1, 50)) * time.Second
	case 1:
		d = tw.w.Store.AccessLifetime + time.Second // past access-token expiry
	case 2:
		d = tw.w.Store.AccessLifetime - time.Second
	default:
		d = time.Duration(ch.Range(1, 30)) * time.Minute
	}
	tw.w.Advance(d)
	return fmt.Sprintf("advance clock %v", d)
}

// otherGrants: token endpoint requests with grants the client may or may not be registered for (C05).
func (tw *tokenWorld) otherGrant(ch *kernel.Chooser) string {
	w := tw.w
	caller := honestClients[ch.Int(len(honestClients))]
	p := tw.pickPresentation(ch, caller)
	if ch.Bool(1, 2) {
		p = rightPresentation(w, caller)
	}
	c := w.Store.Clients[caller]
	var form url.Values
	var grant oidc.GrantType
	publicOK := false
	switch ch.Int(4) {
	case 0:
		grant = oidc.GrantTypeClientCredentials
		form = url.Values{"grant_type": {string(grant)}, "scope": {"api"}}
	case 1:
		grant = oidc.GrantTypeTokenExchange
		g := tw.pick(ch, true)
		if g == nil {
			return "token-exchange: no subject token"
		}
		tw.goHome(g)
		form = url.Values{"grant_type": {string(grant)}, "subject_token": {g.refresh}, "subject_token_type": {string(oidc.RefreshTokenType)}, "requested_token_type": {string(oidc.AccessTokenType)}}
	case 2:
		grant = oidc.GrantTypeDeviceCode
		publicOK = true
		r := w.PostForm("/device_authorization", url.Values{"scope": {"openid"}}, p.creds)
		desc := fmt.Sprintf("device_authorization by %s (%s) -> %d", caller, p.label, statusOf(r))
		if panicProbe(tw.o, r) || r.Err != nil {
			return desc
		}
		var da struct {
			DeviceCode string `json:"device_code"`
		}
		if r.Status == 200 && jsonUnmarshal(r.Body, &da) == nil && da.DeviceCode != "" {
			tw.o.Probe("device-code-issued")
			cc := w.Store.Clients[p.claimedClient()]
			if cc == nil {
				tw.viol("C05", "unknown-client", "device_authorization", "%s: device code issued for an unknown client", desc)
			} else if !cc.HasGrant(oidc.GrantTypeDeviceCode) {
				tw.viol("C05", "unregistered-grant", "device_authorization", "%s: client %q is not registered for the device grant", desc, cc.ID)
			}
			if !w.Caps.Device {
				tw.viol("C05", "disabled-grant", "device_authorization", "%s: storage has no device capability", desc)
			}
			// the endpoint acted for the client the flow is stored for: that must be the client that was checked
			if dev := w.Store.Devices[da.DeviceCode]; dev != nil && dev.State != nil {
				sc := w.Store.Clients[dev.State.ClientID]
				if sc == nil || !sc.HasGrant(oidc.GrantTypeDeviceCode) {
					tw.viol("C05", "unregistered-grant", "device_authorization/stored-client", "%s: the device flow was stored for client %q, which is unknown or not registered for the device grant", desc, dev.State.ClientID)
				} else if dev.State.ClientID != p.claimedClient() {
					tw.viol("C05", "unauthenticated-success", "device_authorization/stored-client", "%s: the request authenticated client %q but the device flow was stored for client %q", desc, p.claimedClient(), dev.State.ClientID)
				}
			}
		}
		return desc
	default:
		grant = "urn:example:unknown"
		form = url.Values{"grant_type": {string(grant)}}
	}
	r := w.PostForm("/oauth/token", form, p.creds)
	desc := fmt.Sprintf("grant %s by %s (%s) -> %d", grant, caller, p.label, statusOf(r))
	if panicProbe(tw.o, r) || r.Err != nil {
		return desc
	}
	if _, ok := isTokenSuccess(r); !ok {
		tw.checkRefusal(r, desc)
		return desc
	}
	tw.o.Probe("other-grant-success")
	tw.secretCheckFailed(r, "token/"+grantName(grant), desc)
	allowed, und, why := authAllowed(w, p, publicOK, w.Conf.AuthMethodPrivateKeyJWT, time.Now())
	if !und && !allowed {
		tw.viol("C05", "unauthenticated-success", "token/"+grantName(grant)+"/"+why, "%s: tokens issued although presentation %q does not authenticate client %q (%s)", desc, p.label, caller, why)
	}
	if cc := w.Store.Clients[p.claimedClient()]; cc != nil && !cc.HasGrant(grant) {
		tw.viol("C05", "unregistered-grant", "token/"+grantName(grant), "%s: client %q is not registered for grant %s", desc, cc.ID, grant)
	}
	_ = c
	return desc + " TOKENS"
}

// codeGrant: an honest authorization, then the code is redeemed with an arbitrary credential presentation (C05).
func (tw *tokenWorld) codeGrant(ch *kernel.Chooser) string {
	w := tw.w
	client := honestClients[ch.Int(len(honestClients))]
	pk := ""
	if w.Store.Clients[client].Public() || ch.Bool(1, 2) {
		pk = "S256"
	}
	s, err := authorizeToCode(w, tw.b, flowOpts{client: client, pkce: map[bool]string{true: pk, false: "none"}[pk != ""]})
	if err != nil || s.code == "" {
		return fmt.Sprintf("code grant %s: no code (%v)", client, err)
	}
	p := tw.pickPresentation(ch, client)
	// in some cases the operator has meanwhile taken the code grant (or every grant: an empty list is a legal
	// registration) away from the client
	cl := w.Store.Clients[client]
	regNote, saved := "", cl.Grants
	if ch.Bool(1, 6) {
		if ch.Bool(1, 2) {
			cl.Grants, regNote = nil, " [registration now lists no grant at all]"
		} else {
			cl.Grants = slices.DeleteFunc(append([]oidc.GrantType(nil), saved...), func(g oidc.GrantType) bool { return g == oidc.GrantTypeCode })
			regNote = " [registration no longer lists authorization_code]"
		}
		tw.o.Probe("code-redeemed-after-grant-was-withdrawn")
	}
	r := w.PostForm("/oauth/token", codeForm(s), p.creds)
	registered := cl.HasGrant(oidc.GrantTypeCode)
	cl.Grants = saved
	desc := fmt.Sprintf("code grant of %s pkce=%q redeemed with %s%s -> %d", client, pk, p.label, regNote, statusOf(r))
	if panicProbe(tw.o, r) || r.Err != nil {
		return desc
	}
	tr, ok := isTokenSuccess(r)
	if !ok {
		tw.checkRefusal(r, desc)
		return desc
	}
	tw.o.Probe("other-grant-success")
	if !registered {
		tw.viol("C05", "unregistered-grant", "token/authorization_code", "%s: client %q is not registered for the authorization_code grant", desc, client)
	}
	tw.secretCheckFailed(r, "token/authorization_code", desc)
	allowed, und, why := authAllowed(w, p, true, w.Conf.AuthMethodPrivateKeyJWT, time.Now())
	if !und && !allowed {
		tw.viol("C05", "unauthenticated-success", "token/authorization_code/"+why, "%s: tokens issued although presentation %q does not authenticate client %q (%s)", desc, p.label, client, why)
	}
	if p.claimedClient() != client {
		tw.viol("C05", "unauthenticated-success", "token/authorization_code/other-client", "%s: tokens issued to a caller that presented itself as %q", desc, p.claimedClient())
	}
	tw.pool = append(tw.pool, &grantedToken{access: tr.AccessToken, refresh: tr.RefreshToken, idToken: tr.IDToken, client: client, subject: "u1", scopes: []string{oidc.ScopeOpenID}, original: []string{oidc.ScopeOpenID}, flow: "code", issuer: w.Issuer})
	return desc + " TOKENS"
}

func grantName(g oidc.GrantType) string {
	s := string(g)
	if i := strings.LastIndexAny(s, ":"); i >= 0 {
		s = s[i+1:]
	}
	return s
}

func runTokenWorld(t *testing.T, spec kernel.Spec, prop string, weights map[string]int) *kernel.Outcome {
	return inBubble(t, spec, func(o *kernel.Outcome, tape *kernel.Tape) {
		tenants := 0
		if tc := tape.Sub("cfg-tenants"); prop == "C08" && tc.Bool(1, 3) {
			// one provider, several issuers (from the Host or Forwarded header), one storage: a JWT access token is a
			// token of the tenant that issued it and of no other
			tenants = 2 + tc.Int(2)
		}
		w, err := world.NewStd(o, tape, world.StdOptions{Router: spec.Params["router"], Tenants: tenants})
		if err != nil {
			o.Infra = "world: " + err.Error()
			return
		}
		tw := &tokenWorld{w: w, o: o, prop: prop, b: w.Net.NewBrowser("b1"), faulty: tape.Sub("cfg-faulty").Bool(1, 2)}
		if tw.faulty {
			o.Probe("faulting-world")
		} else {
			o.Probe("fault-free-world")
		}
		type op struct {
			name string
			f    func(*kernel.Chooser) string
		}
		ops := []op{{"obtain", tw.obtain}, {"refresh", tw.refresh}, {"userinfo", tw.userinfo}, {"introspect", tw.introspect},
			{"revoke", tw.revoke}, {"end_session", tw.endSession}, {"advance", tw.advance}, {"other", tw.otherGrant}, {"code", tw.codeGrant}, {"race", tw.race}, {"exchange", tw.exchangeUse}}
		total := 0
		for _, op := range ops {
			total += weights[op.name]
		}
		n := 40 + tape.Sub("cfg").Int(40)
		steps(o, tape, n, func(i int, ch *kernel.Chooser) string {
			tw.step = i
			if len(w.Issuers) > 1 {
				w.UseIssuer(ch.Int(len(w.Issuers)))
				o.Probe("multi-tenant-steps")
			}
			if i < 2 {
				return tw.obtain(ch)
			}
			// where the parameters travel is the client's choice: in about one step of six some of them go into the URL
			// query instead of the body; the endpoint must decide the same way
			w.QueryKeys = nil
			inQuery := ""
			if ch.Bool(1, 6) {
				w.QueryKeys = ch.Subset([]string{"grant_type", "scope", "client_id", "refresh_token", "code", "token", "token_type_hint", "device_code", "subject_token", "requested_token_type"})
				if ch.Bool(1, 2) && !slices.Contains(w.QueryKeys, "grant_type") {
					w.QueryKeys = append(w.QueryKeys, "grant_type")
				}
				inQuery = fmt.Sprintf(" [in URL query: %s]", strings.Join(w.QueryKeys, ","))
				o.Probe("parameters-in-url-query")
			}
			defer func() { w.QueryKeys = nil }()
			if tw.prop == "C05" && tw.faulty && ch.Bool(1, 6) {
				// the storage's secret check itself fails in this step (cancelled inside the storage, or timed out on its
				// own or with the request): a failed check authenticates nobody, whatever kind of failure it was
				kind := ch.Pick(world.FaultCanceled, world.FaultTimeoutFast, world.FaultTimeout, world.FaultError)
				w.Store.Inject = func(n int, method string, rid int) string {
					if method == "AuthorizeClientIDSecret" {
						o.Fault(kind)
						o.Probe("secret-check-fails")
						return kind
					}
					return ""
				}
				defer func() { w.Store.Inject = nil }()
				inQuery += " [storage: secret check answers " + kind + "]"
			}
			x := ch.Int(total)
			for _, op := range ops {
				if x < weights[op.name] {
					return op.f(ch) + inQuery
				}
				x -= weights[op.name]
			}
			return "noop"
		})
		o.Log = append([]string{fmt.Sprintf("config: router=%s alg=%s post=%v pkjwt=%v refresh=%v caps=%+v", w.Router, w.SigAlg, w.Conf.AuthMethodPost, w.Conf.AuthMethodPrivateKeyJWT, w.Conf.GrantTypeRefreshToken, w.Caps)}, o.Log...)
		o.Sample = map[string]any{"seed": spec.Seed, "router": w.Router, "steps": o.Trace}
	})
}

func RunC07(t *testing.T, spec kernel.Spec) *kernel.Outcome {
	o := runTokenWorld(t, spec, "C07", map[string]int{"obtain": 3, "refresh": 10, "revoke": 1, "advance": 1, "end_session": 1, "race": 3})
	o.Nontrivial = o.Probes["refresh-success"] > 0
	return o
}

func RunC08(t *testing.T, spec kernel.Spec) *kernel.Outcome {
	o := runTokenWorld(t, spec, "C08", map[string]int{"obtain": 3, "refresh": 1, "userinfo": 5, "introspect": 5, "revoke": 4, "end_session": 1, "advance": 2, "race": 4, "exchange": 4})
	o.Nontrivial = o.Probes["userinfo-200"]+o.Probes["introspect-active"] > 0 && o.Probes["revocation-effective"]+o.Probes["logout"] > 0
	return o
}

func RunC05(t *testing.T, spec kernel.Spec) *kernel.Outcome {
	o := runTokenWorld(t, spec, "C05", map[string]int{"obtain": 3, "refresh": 4, "introspect": 4, "revoke": 3, "other": 8, "advance": 1, "code": 5})
	o.Nontrivial = o.Probes["refresh-success"]+o.Probes["introspect-active"]+o.Probes["other-grant-success"]+o.Probes["device-code-issued"] > 0
	return o
}
