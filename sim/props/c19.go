package props

import (
	"context"
	"fmt"
	"net/http"
	"net/http/httptest"
	"net/url"
	"slices"
	"strings"
	"sync"
	"testing"

	"github.com/zitadel/oidc/v3/pkg/client"
	"github.com/zitadel/oidc/v3/pkg/oidc"
	"github.com/zitadel/oidc/v3/pkg/op"

	"verif/sim/kernel"
	"verif/sim/world"
)

// C19: the discovery document is truthful about the provider in every configuration. Apart from the
// interleaving of requests for different hosts this is a configuration sweep executed inside the simulator.

type c19 struct {
	w    *world.World
	o    *kernel.Outcome
	eps  op.Endpoints
	abs  map[string]string // endpoint name -> absolute URL override
	mode string
	path string
}

func (c *c19) viol(rule, site, format string, a ...any) {
	c.o.Violate("C19", rule, "router"+c.w.Router+"/"+site, 0, format, a...)
}

func RunC19(t *testing.T, spec kernel.Spec) *kernel.Outcome {
	o := inBubble(t, spec, func(o *kernel.Outcome, tape *kernel.Tape) {
		world.RestoreDefaultEndpoints()
		cfg := tape.Sub("cfg19")
		c := &c19{o: o, abs: map[string]string{}}
		// custom endpoints: relative paths and absolute URLs
		eps := *op.DefaultEndpoints
		var opts []op.Option
		var disable []func() // applied once the router is known to be the LegacyServer
		custom := func(name string, set func(e *op.Endpoint), with func(*op.Endpoint) op.Option) {
			switch cfg.Int(5) {
			case 4:
				// switched off on the LegacyServer (a nil entry of its Endpoints: "nil endpoints are disabled"); only
				// endpoints that no other part of this check needs
				if name == "introspect" || name == "revoke" || name == "end" || name == "device" {
					disable = append(disable, func() { set(nil) })
				}
			case 0:
				e := op.NewEndpoint("custom/" + name)
				set(e)
				opts = append(opts, with(e))
			case 1:
				if name == "userinfo" || name == "introspect" { // absolute URLs make sense for endpoints other parties call
					u := "https://api.sim/ext/" + name
					e := op.NewEndpointWithURL("ext/"+name, u)
					c.abs[name] = u
					set(e)
					opts = append(opts, with(e))
				}
			}
		}
		custom("auth", func(e *op.Endpoint) { eps.Authorization = e }, op.WithCustomAuthEndpoint)
		custom("token", func(e *op.Endpoint) { eps.Token = e }, op.WithCustomTokenEndpoint)
		custom("introspect", func(e *op.Endpoint) { eps.Introspection = e }, op.WithCustomIntrospectionEndpoint)
		custom("userinfo", func(e *op.Endpoint) { eps.Userinfo = e }, op.WithCustomUserinfoEndpoint)
		custom("revoke", func(e *op.Endpoint) { eps.Revocation = e }, op.WithCustomRevocationEndpoint)
		custom("end", func(e *op.Endpoint) { eps.EndSession = e }, op.WithCustomEndSessionEndpoint)
		custom("jwks", func(e *op.Endpoint) { eps.JwksURI = e }, op.WithCustomKeysEndpoint)
		custom("device", func(e *op.Endpoint) { eps.DeviceAuthorization = e }, op.WithCustomDeviceAuthorizationEndpoint)
		c.eps = eps
		c.mode = cfg.Pick("static", "static", "host", "forwarded")
		// the issuer may have a path; the handler is then mounted below it
		c.path = cfg.Pick("", "", "/oidc", "/tenants/t1")
		tenants := 1
		if c.mode != "static" {
			// one provider, several public names: by Host, or behind a reverse proxy that keeps one internal Host and
			// names the tenant in the Forwarded header
			tenants = 2 + cfg.Int(2)
		}
		w, err := world.NewStd(o, tape, world.StdOptions{Router: spec.Params["router"], AllGrants: true, IssuerMode: c.mode, IssuerPath: c.path, Options: opts, Algs: []int{0, 4}, Tenants: tenants,
			EndpointsFor: func(router string) *op.Endpoints {
				if router == "B" {
					for _, f := range disable {
						f()
						o.Probe("endpoints-disabled-on-the-server")
					}
					c.eps = eps
				}
				return &eps
			}})
		if err != nil {
			o.Infra = "world: " + err.Error()
			return
		}
		c.w = w
		issuers := append([]string(nil), w.Issuers...)
		// a history: every tenant is visited, in a seeded order, some of them twice
		order := append([]string(nil), issuers...)
		for i := len(order) - 1; i > 0; i-- {
			j := cfg.Int(i + 1)
			order[i], order[j] = order[j], order[i]
		}
		if len(order) > 1 {
			order = append(order, order[0])
			o.Probe("multi-tenant-worlds")
		}
		for _, iss := range order {
			c.checkIssuer(iss)
			o.Steps++
		}
		if len(issuers) > 1 {
			c.interleaved(issuers)
		}
		c.sibling(tape.Sub("sibling"))
		c.sharedStrategy(tape.Sub("shared-strategy"))
		c.issuerTable(tape.Sub("table"))
		c.hostileDiscovery()
		o.Log = append([]string{fmt.Sprintf("config: router=%s mode=%s path=%q flags{s256=%v post=%v pkjwt=%v refresh=%v reqobj=%v} caps=%+v endpoints{auth=%s token=%s introspect=%s userinfo=%s revoke=%s end=%s jwks=%s device=%s} abs=%v",
			w.Router, c.mode, c.path, w.Conf.CodeMethodS256, w.Conf.AuthMethodPost, w.Conf.AuthMethodPrivateKeyJWT, w.Conf.GrantTypeRefreshToken, w.Conf.RequestObjectSupported, w.Caps,
			eps.Authorization.Relative(), eps.Token.Relative(), eps.Introspection.Relative(), eps.Userinfo.Relative(), eps.Revocation.Relative(), eps.EndSession.Relative(), eps.JwksURI.Relative(), eps.DeviceAuthorization.Relative(), c.abs)}, o.Log...)
		o.Sample = map[string]any{"seed": spec.Seed, "config": o.Log[0]}
		o.Trace = []string{o.Log[0]}
		o.Distinct(o.Log[0])
	})
	o.Nontrivial = o.Probes["discovery-fetched"] > 0 && o.Probes["grant-probes"] > 0
	return o
}

func (c *c19) post(rawurl string, form url.Values, basicUser, basicPass string) *world.Resp {
	req, err := http.NewRequest("POST", rawurl, strings.NewReader(form.Encode()))
	if err != nil {
		return &world.Resp{Err: err}
	}
	req.Header.Set("Content-Type", "application/x-www-form-urlencoded")
	if basicUser != "" {
		req.SetBasicAuth(basicUser, basicPass)
	}
	return c.w.DoRaw(req)
}

func (c *c19) get(rawurl string) *world.Resp {
	req, err := http.NewRequest("GET", rawurl, nil)
	if err != nil {
		return &world.Resp{Err: err}
	}
	return c.w.DoRaw(req)
}

func (c *c19) checkIssuer(issuer string) {
	w := c.w
	hc := w.Net.Client("discoverer", nil, false)
	doc, err := client.Discover(context.Background(), issuer, hc)
	if err != nil {
		c.viol("discovery-failed", "discovery", "client.Discover(%s) failed: %v", issuer, err)
		return
	}
	c.o.Probe("discovery-fetched")
	if doc.Issuer != issuer {
		c.viol("issuer", "discovery", "document issuer %q for %q", doc.Issuer, issuer)
	}
	// every advertised endpoint is the issuer-relative address of a served route (or the configured absolute URL)
	type ep struct {
		name, advertised string
		e                *op.Endpoint
		method           string
	}
	list := []ep{{"auth", doc.AuthorizationEndpoint, c.eps.Authorization, "GET"}, {"token", doc.TokenEndpoint, c.eps.Token, "POST"}, {"introspect", doc.IntrospectionEndpoint, c.eps.Introspection, "POST"},
		{"userinfo", doc.UserinfoEndpoint, c.eps.Userinfo, "GET"}, {"revoke", doc.RevocationEndpoint, c.eps.Revocation, "POST"}, {"end", doc.EndSessionEndpoint, c.eps.EndSession, "GET"},
		{"jwks", doc.JwksURI, c.eps.JwksURI, "GET"}, {"device", doc.DeviceAuthorizationEndpoint, c.eps.DeviceAuthorization, "POST"}}
	for _, e := range list {
		if u, ok := c.abs[e.name]; ok {
			if e.advertised != u {
				c.viol("endpoint-url", "discovery/"+e.name, "endpoint %s configured with absolute URL %q is advertised as %q", e.name, u, e.advertised)
			}
			continue
		}
		if e.e == nil {
			// disabled: no route; then nothing may be advertised for it
			if e.advertised != "" {
				r := c.post(e.advertised, url.Values{}, "", "")
				c.viol("endpoint-not-served", "discovery/"+e.name+"/disabled", "endpoint %s is switched off on this server (no route) but advertised as %q (answers %d)", e.name, e.advertised, statusOf(r))
			}
			continue
		}
		want := issuer + e.e.Relative()
		if e.advertised != want {
			c.viol("endpoint-url", "discovery/"+e.name, "endpoint %s advertised as %q, the issuer-relative address of the route is %q", e.name, e.advertised, want)
			continue
		}
		var r *world.Resp
		if e.method == "GET" {
			r = c.get(e.advertised)
		} else {
			r = c.post(e.advertised, url.Values{}, "", "")
		}
		c.o.Probe("endpoint-probes")
		if r.Err == nil && (r.Status == 404 || r.Status == 405) && r.Ex != nil && r.Ex.Panic == "" {
			c.viol("endpoint-not-served", "discovery/"+e.name, "advertised endpoint %s answers %d", e.advertised, r.Status)
		}
	}
	// grant types: advertised exactly when the token endpoint does not answer unsupported_grant_type
	advertised := map[oidc.GrantType]bool{}
	for _, g := range doc.GrantTypesSupported {
		advertised[g] = true
	}
	if _, abs := c.abs["token"]; !abs {
		web := w.Store.Clients["web"]
		for _, g := range []oidc.GrantType{oidc.GrantTypeCode, oidc.GrantTypeRefreshToken, oidc.GrantTypeClientCredentials, oidc.GrantTypeBearer, oidc.GrantTypeTokenExchange, oidc.GrantTypeDeviceCode, "urn:example:unknown"} {
			form := url.Values{"grant_type": {string(g)}, "code": {"c"}, "redirect_uri": {web.Redirects[0]}, "refresh_token": {"r"}, "scope": {"api"}, "assertion": {w.RightCreds("jwt").Assertion},
				"subject_token": {"s"}, "subject_token_type": {string(oidc.AccessTokenType)}, "device_code": {"d"}}
			r := c.post(doc.TokenEndpoint, form, "web", web.Secret)
			if r.Err != nil || (r.Ex != nil && r.Ex.Panic != "") {
				continue
			}
			c.o.Probe("grant-probes")
			var m map[string]any
			_ = jsonUnmarshal(r.Body, &m)
			unsupported := m["error"] == "unsupported_grant_type"
			if advertised[g] && unsupported {
				c.viol("grant-advertised-not-served", "token/"+grantName(g), "grant %s is advertised but the token endpoint answers unsupported_grant_type", g)
			}
			if !advertised[g] && !unsupported {
				c.viol("grant-served-not-advertised", "token/"+grantName(g), "grant %s is not advertised but the token endpoint answers %d %v", g, r.Status, m["error"])
			}
		}
	}
	// advertised S256 / request objects are honoured; the issuer of issued tokens equals the document's
	b := w.Net.NewBrowser("b-" + issuer)
	if _, abs := c.abs["token"]; !abs {
		c.flow(b, issuer, doc, slices.Contains(doc.CodeChallengeMethodsSupported, oidc.CodeChallengeMethodS256), doc.RequestParameterSupported)
	}
}

// flow runs a code flow using only what the document advertises.
func (c *c19) flow(b *world.Browser, issuer string, doc *oidc.DiscoveryConfiguration, s256, requestObject bool) {
	w := c.w
	clientID := "web"
	cl := w.Store.Clients[clientID]
	cl.LoginBase = issuer + "/login"
	verifier := "verifier.0123456789_abcdefghijklmnopqrstuvwxyz~ABCDEFGHIJ-x" // every kind of unreserved character (RFC 7636 4.1)
	q := url.Values{"client_id": {clientID}, "redirect_uri": {cl.Redirects[0]}, "response_type": {"code"}, "scope": {"openid"}, "state": {"s"}, "nonce": {"n"}}
	if s256 {
		q.Set("code_challenge", world.S256(verifier))
		q.Set("code_challenge_method", "S256")
	}
	r := b.Get(doc.AuthorizationEndpoint + "?" + q.Encode())
	if r.Status != 302 || !strings.Contains(r.Location, "/login?") {
		c.viol("flow", "authorize", "a well-formed authorization request at the advertised endpoint %s was answered %d %s", doc.AuthorizationEndpoint, r.Status, firstLine(r.Body))
		return
	}
	lu, _ := url.Parse(r.Location)
	lr := b.PostForm(cl.LoginBase, url.Values{"authRequestID": {lu.Query().Get("authRequestID")}, "username": {"alice"}, "password": {"pw-alice"}})
	if lr.Status != 302 {
		c.viol("flow", "login", "login stub failed: %d", lr.Status)
		return
	}
	cb := b.Get(lr.Location)
	ar, err := world.DecodeAuthzResponse(cb)
	if err != nil || ar.Params.Get("code") == "" {
		c.viol("flow", "callback", "no code from the callback at %s: %v (status %d)", lr.Location, err, cb.Status)
		return
	}
	form := url.Values{"grant_type": {"authorization_code"}, "code": {ar.Params.Get("code")}, "redirect_uri": {cl.Redirects[0]}}
	// a wrong verifier must be refused when S256 is advertised (the method is honoured, not ignored)
	if s256 {
		bad := url.Values{}
		for k, v := range form {
			bad[k] = v
		}
		bad.Set("code_verifier", "wrong-verifier-0123456789abcdefghijklmnopqrstuvwxyz-ABCDEFG")
		if tr, ok := isTokenSuccess(c.post(doc.TokenEndpoint, bad, clientID, cl.Secret)); ok && tr != nil {
			c.viol("pkce-not-honoured", "token", "S256 is advertised but a wrong code_verifier was accepted")
			return
		}
		form.Set("code_verifier", verifier)
	}
	tr, ok := isTokenSuccess(c.post(doc.TokenEndpoint, form, clientID, cl.Secret))
	if !ok {
		c.viol("flow", "token", "code exchange at the advertised token endpoint failed (S256 advertised=%v)", s256)
		return
	}
	c.o.Probe("flows-completed")
	if p := world.JWTPayload(tr.IDToken); p == nil || p["iss"] != doc.Issuer {
		c.viol("issuer", "id_token", "issued id_token iss %v, discovery issuer %q", p["iss"], doc.Issuer)
	}
	if p := world.JWTPayload(tr.AccessToken); p != nil && p["iss"] != doc.Issuer {
		c.viol("issuer", "access_token", "issued access token iss %v, discovery issuer %q", p["iss"], doc.Issuer)
	}
	if requestObject {
		key := w.ClientKeys["jwt"]
		jc := w.Store.Clients["jwt"]
		payload := fmt.Sprintf(`{"iss":"jwt","aud":[%q],"client_id":"jwt","response_type":"code","state":"from-object","scope":"openid email"}`, issuer)
		if s256 {
			// both advertised: an S256 challenge carried inside the object must be recorded as such
			payload = strings.TrimSuffix(payload, "}") + fmt.Sprintf(`,"code_challenge":%q,"code_challenge_method":"S256"}`, world.S256(verifier))
		}
		// the redirect URI may travel inside the object only (OIDC Core 6.1 requires client_id and response_type outside,
		// nothing else)
		uriInObjectOnly := w.Tape.Sub("ro-shape").Bool(1, 2)
		if uriInObjectOnly {
			payload = strings.TrimSuffix(payload, "}") + fmt.Sprintf(`,"redirect_uri":%q}`, jc.Redirects[0])
			c.o.Probe("request-objects-that-alone-carry-the-redirect-uri")
		}
		tok := signRaw([]byte(payload), "RS256", key.Key, key.KeyID)
		jc.LoginBase = issuer + "/login"
		q := url.Values{"client_id": {"jwt"}, "redirect_uri": {jc.Redirects[0]}, "response_type": {"code"}, "scope": {"openid"}, "state": {"plain"}, "request": {tok}}
		if uriInObjectOnly {
			q.Del("redirect_uri")
		}
		r := b.Get(doc.AuthorizationEndpoint + "?" + q.Encode())
		honoured := false
		if r.Status == 302 && strings.Contains(r.Location, "/login?") {
			u, _ := url.Parse(r.Location)
			if a := w.Store.AuthReqSnapshot(u.Query().Get("authRequestID")); a != nil && a.State == "from-object" {
				honoured = true
				if s256 && (a.Challenge == nil || a.Challenge.Challenge != world.S256(verifier) || a.Challenge.Method != oidc.CodeChallengeMethodS256) {
					c.viol("request-object-not-honoured", "authorize/pkce", "S256 and request objects are advertised but the S256 challenge inside a valid request object was recorded as %+v", a.Challenge)
				}
			}
		}
		c.o.Probe("request-object-probes")
		if !honoured {
			c.viol("request-object-not-honoured", "authorize", "request_parameter_supported is advertised but a valid signed request object was not honoured (%d %s)", r.Status, firstLine(r.Body))
		}
		// a history: the next object carries nothing but what is required; the request must then be exactly the outer
		// parameters plus this object - nothing of the object sent before
		bare := signRaw([]byte(fmt.Sprintf(`{"iss":"jwt","aud":[%q],"client_id":"jwt","response_type":"code"}`, issuer)), "RS256", key.Key, key.KeyID)
		q2 := url.Values{"client_id": {"jwt"}, "redirect_uri": {jc.Redirects[0]}, "response_type": {"code"}, "scope": {"openid"}, "state": {"outer-2"}, "nonce": {"outer-nonce-2"}, "request": {bare}}
		r2 := b.Get(doc.AuthorizationEndpoint + "?" + q2.Encode())
		if r2.Status == 302 && strings.Contains(r2.Location, "/login?") {
			u, _ := url.Parse(r2.Location)
			if a := w.Store.AuthReqSnapshot(u.Query().Get("authRequestID")); a != nil {
				c.o.Probe("request-object-history-probes")
				if a.State != "outer-2" || a.Nonce != "outer-nonce-2" || a.Challenge != nil || !sameSet(a.Scopes, []string{"openid"}) {
					c.viol("request-object-not-honoured", "authorize/history", "a request object with only the required members, sent after a fuller one, produced a request with state=%q nonce=%q challenge=%+v scopes=%v (outer parameters: state=outer-2 nonce=outer-nonce-2, no challenge, scope openid)", a.State, a.Nonce, a.Challenge, a.Scopes)
				}
			}
		} else {
			c.viol("request-object-not-honoured", "authorize/bare", "a valid signed request object with only the required members was refused (%d %s)", r2.Status, firstLine(r2.Body))
		}
	}
}

// sibling: a second provider lives in the same process (another tenant with other optional grants: refresh flipped,
// other storage capabilities). Discovery requests to both are served at the same time, interleaved by the seeded
// scheduler at every storage call; each document must be what that provider answers when asked alone.
func (c *c19) sibling(ch *kernel.Chooser) {
	w := c.w
	conf := *w.Conf
	conf.GrantTypeRefreshToken = !conf.GrantTypeRefreshToken
	caps := world.Caps{ClientCredentials: !w.Caps.ClientCredentials, TokenExchange: !w.Caps.TokenExchange, Device: !w.Caps.Device, FromRequest: w.Caps.FromRequest}
	node, err := world.BuildOP(w.Store, world.OPConfig{Router: w.Router, Issuer: "https://sib.sim", Config: &conf, Caps: caps,
		Options: []op.Option{op.WithAccessTokenVerifierOpts(op.WithSupportedAccessTokenSigningAlgorithms(string(w.SigAlg)))}})
	world.RestoreDefaultEndpoints()
	if err != nil {
		c.o.Logf("sibling provider: %v", err)
		return
	}
	w.Net.Hosts["sib.sim"] = node.Handler
	fetch := func(issuer string) func(ctx context.Context) *world.Resp {
		return func(ctx context.Context) *world.Resp {
			req, _ := http.NewRequestWithContext(ctx, "GET", issuer+"/.well-known/openid-configuration", nil)
			return w.DoRaw(req)
		}
	}
	targets := []string{w.Issuers[0], "https://sib.sim"}
	var gops []*groupOp
	var want []string
	n := 2 + ch.Int(3)
	for k := 0; k < n; k++ {
		iss := targets[k%2]
		if k >= 2 {
			iss = targets[ch.Int(2)]
		}
		do := fetch(iss)
		ref := do(context.Background())
		want = append(want, fmt.Sprintf("%d %s", ref.Status, ref.Body))
		gops = append(gops, &groupOp{label: iss, do: do})
	}
	trace := runGroup(w, c.o, "sibling", gops, 0)
	c.o.Probe("sibling-provider-groups")
	for k, g := range gops {
		if g.resp == nil || g.resp.Err != nil {
			continue
		}
		if got := fmt.Sprintf("%d %s", g.resp.Status, g.resp.Body); got != want[k] {
			c.viol("not-truthful-under-concurrency", "discovery/sibling-provider", "the discovery document of %s, served while another provider of the same process was answering discovery (schedule %v), differs from what it answers alone:\n  alone:      %s\n  concurrent: %s", g.label, trace, firstLine(want[k]), firstLine(got))
		}
	}
}

// sharedStrategy: an application builds ONE issuer strategy value (op.IssuerFromHost / op.IssuerFromForwardedOrHost)
// and hands it to two providers: a public one and one for local development that allows plain http. In either order of
// construction each provider's document is the one it gives when it has a strategy value of its own.
func (c *c19) sharedStrategy(ch *kernel.Chooser) {
	w := c.w
	mk := func() func(bool) (op.IssuerFromRequest, error) {
		if ch.Bool(1, 2) {
			return op.IssuerFromHost("")
		}
		return op.IssuerFromForwardedOrHost("")
	}
	build := func(strategy func(bool) (op.IssuerFromRequest, error), insecure bool) (http.Handler, error) {
		conf := *w.Conf
		node, err := world.BuildOP(w.Store, world.OPConfig{Router: w.Router, Issuer: "https://unused.sim", Config: &conf, Caps: w.Caps, Strategy: strategy, AllowInsecure: insecure,
			Options: []op.Option{op.WithAccessTokenVerifierOpts(op.WithSupportedAccessTokenSigningAlgorithms(string(w.SigAlg)))}})
		world.RestoreDefaultEndpoints()
		if err != nil {
			return nil, err
		}
		return node.Handler, nil
	}
	doc := func(h http.Handler, url string) string {
		rec := httptest.NewRecorder()
		h.ServeHTTP(rec, httptest.NewRequest("GET", url+"/.well-known/openid-configuration", nil))
		return fmt.Sprintf("%d %s", rec.Code, rec.Body.String())
	}
	refPub, err1 := build(mk(), false)
	refDev, err2 := build(mk(), true)
	if err1 != nil || err2 != nil {
		c.o.Logf("shared strategy: %v %v", err1, err2)
		return
	}
	wantPub, wantDev := doc(refPub, "https://pub.sim"), doc(refDev, "http://dev.sim")
	shared := mk()
	var pub, dev http.Handler
	order := "public first"
	if ch.Bool(1, 2) {
		pub, err1 = build(shared, false)
		dev, err2 = build(shared, true)
	} else {
		order = "development first"
		dev, err2 = build(shared, true)
		pub, err1 = build(shared, false)
	}
	if err1 != nil || err2 != nil {
		c.o.Logf("shared strategy: %v %v", err1, err2)
		return
	}
	c.o.Probe("providers-built-from-one-issuer-strategy")
	for i := 0; i < 2; i++ { // each asked twice, alternating
		if got := doc(pub, "https://pub.sim"); got != wantPub {
			c.viol("instance-not-isolated", "discovery/shared-issuer-strategy/public", "two providers built from one issuer strategy value (%s; the second with AllowInsecure): the public provider's document differs from the one it gives with a strategy of its own:\n  own:    %s\n  shared: %s", order, firstLine(wantPub), firstLine(got))
			break
		}
		if got := doc(dev, "http://dev.sim"); got != wantDev {
			c.viol("instance-not-isolated", "discovery/shared-issuer-strategy/development", "two providers built from one issuer strategy value (%s): the development provider's document differs from the one it gives with a strategy of its own:\n  own:    %s\n  shared: %s", order, firstLine(wantDev), firstLine(got))
			break
		}
	}
}

// interleaved: requests for different hosts run concurrently on one provider; each must see its own issuer.
func (c *c19) interleaved(issuers []string) {
	w := c.w
	var wg sync.WaitGroup
	results := make([][]string, len(issuers))
	for i, iss := range issuers {
		i, iss := i, iss
		wg.Add(1)
		go func() {
			defer wg.Done()
			hc := w.Net.Client("host-"+iss, nil, false)
			for k := 0; k < 5; k++ {
				doc, err := client.Discover(context.Background(), iss, hc)
				if err != nil {
					results[i] = append(results[i], "error: "+err.Error())
					continue
				}
				results[i] = append(results[i], doc.Issuer+"|"+doc.TokenEndpoint)
			}
		}()
	}
	wg.Wait()
	for i, iss := range issuers {
		for _, r := range results[i] {
			c.o.Probe("interleaved-discoveries")
			if !strings.HasPrefix(r, iss+"|") {
				c.viol("issuer-mixup", "discovery", "a request for %s saw %q", iss, r)
			}
		}
	}
}

func (c *c19) issuerTable(ch *kernel.Chooser) {
	type row struct {
		issuer   string
		insecure bool
		ok       bool
	}
	rows := []row{{"", false, false}, {"https://", false, false}, {"op.sim", false, false}, {"https://op.sim?x=1", false, false}, {"https://op.sim#frag", false, false},
		{"http://op.sim", false, false}, {"http://op.sim", true, true}, {"https://op.sim", false, true}, {"https://op.sim/custom/path", false, true}, {"https://op.sim:8443", false, true},
		{"https:///path-only", false, false}, {"https://op.sim/p?q=1#f", true, false}, {"http://op.sim?x=1", true, false}, {"ftp://op.sim", true, false}}
	for _, r := range rows {
		var opts []op.Option
		if r.insecure {
			opts = append(opts, op.WithAllowInsecure())
		}
		opts = append(opts, op.WithLogger(world.Discard))
		_, err := op.NewProvider(c.w.Conf, c.w.OP.Storage, op.StaticIssuer(r.issuer), opts...)
		c.o.Probe("issuer-table-rows")
		if r.ok && err != nil {
			c.viol("issuer-validation", "construction/rejected", "issuer %q (insecure opt-in=%v) was rejected: %v", r.issuer, r.insecure, err)
		}
		if !r.ok && err == nil {
			c.viol("issuer-validation", "construction/accepted", "issuer %q (insecure opt-in=%v) was accepted", r.issuer, r.insecure)
		}
	}
	world.RestoreDefaultEndpoints()
}

// hostileDiscovery: the RP's discovery client rejects a document whose issuer differs from the one asked for.
func (c *c19) hostileDiscovery() {
	w := c.w
	asked := "https://mirror.sim"
	for _, other := range []string{"https://evil.sim", "https://op.sim/", "https://OP.sim", "https://op.sim.evil.sim", "", asked + ".evil.sim", asked + "/", asked + "/tenant", asked + ":443",
		"https://MIRROR.sim", asked[:len(asked)-1], " " + asked, asked + "?x=1", asked + "#f", "http://mirror.sim"} {
		other := other
		w.Net.Hosts["mirror.sim"] = http.HandlerFunc(func(rw http.ResponseWriter, r *http.Request) {
			rw.Header().Set("Content-Type", "application/json")
			fmt.Fprintf(rw, `{"issuer":%q,"authorization_endpoint":"https://evil.sim/a","token_endpoint":"https://evil.sim/t","jwks_uri":"https://evil.sim/k"}`, other)
		})
		_, err := client.Discover(context.Background(), "https://mirror.sim", w.Net.Client("victim", nil, false))
		c.o.Probe("hostile-documents")
		if err == nil {
			c.viol("foreign-issuer-accepted", "client.Discover", "a document with issuer %q was accepted for https://mirror.sim", other)
		}
	}
}
