package props

import (
	"context"
	"fmt"
	"net/http"
	"net/url"
	"strings"
	"testing"
	"time"

	jose "github.com/go-jose/go-jose/v4"
	"github.com/gorilla/securecookie"
	"github.com/zitadel/oidc/v3/pkg/oidc"
	"golang.org/x/oauth2"

	"verif/sim/kernel"
	"verif/sim/world"
)

// C17: the RP callback exchanges a code only if state matches its signed cookie; PKCE is bound.

type attempt struct {
	n         int
	browser   *world.Browser
	state     string
	verifier  string // plaintext of the pkce cookie set at start ("" without PKCE)
	stateCk   *http.Cookie
	pkceCk    *http.Cookie
	callback  string // the callback URL the OP produced (code + state)
	startedAt time.Time
	delivered int
	subject   string // the user who logged in at the provider in this attempt
}

type c17 struct {
	w        *world.World
	o        *kernel.Outcome
	step     int
	rp       *world.RPNode
	other    *world.RPNode // same client, other cookie keys (another RP instance)
	browsers []*world.Browser
	attempts []*attempt
	maxAge   int
	n        int
	client   string // the client this RP acts for ("web", or "jwt" with JWT-profile client authentication)
}

func (c *c17) host() string { return c.client + ".sim" }

func (c *c17) viol(rule, site, format string, a ...any) {
	c.o.Violate("C17", rule, site, c.step, format, a...)
}

func decodeCookie(n *world.RPNode, name, value string, maxAge int) (string, bool) {
	sc := securecookie.New(n.HashKey, n.BlockKey)
	if maxAge > 0 {
		sc.MaxAge(maxAge)
	}
	var out string
	if err := sc.Decode(name, value, &out); err != nil {
		return "", false
	}
	return out, true
}

func findCookie(h http.Header, name string) *http.Cookie {
	resp := http.Response{Header: h}
	for _, ck := range resp.Cookies() {
		if ck.Name == name {
			return ck
		}
	}
	return nil
}

func (c *c17) start(ch *kernel.Chooser) string {
	b := c.browsers[ch.Int(len(c.browsers))]
	r := b.Get("https://" + c.host() + "/login")
	return c.afterLogin(ch, b, r)
}

// concurrentStart: two browsers start a login at the same time; the scheduler interleaves the two handler
// invocations at the point where the handler evaluates its URL parameter options.
func (c *c17) concurrentStart(ch *kernel.Chooser) string {
	sched := kernel.NewSched(c.w.Tape, fmt.Sprintf("pair:%d", c.step), 400)
	c.rp.ParamHook = func() { sched.Park(sched.Current, "rp.urlparam", nil) }
	// the two handler invocations may also switch wherever the handler reaches for its response headers (cookies,
	// Location): between any two of its effects
	c.w.Net.OnHeader = func(_ context.Context, ex *world.Exchange) {
		if ex.Host == c.host() {
			sched.Park(sched.Current, "rp.header", nil)
		}
	}
	defer func() { c.rp.ParamHook, c.w.Net.OnHeader = nil, nil }()
	resps := make([]*world.Resp, 2)
	for i := 0; i < 2; i++ {
		i := i
		name := fmt.Sprintf("t%d", i)
		go func() {
			if sched.Park(name, "start", nil) != "go" {
				return
			}
			resps[i] = c.browsers[i].Get("https://" + c.host() + "/login")
		}()
	}
	if err := sched.Run(func(bool) []kernel.Event {
		var evs []kernel.Event
		for _, p := range sched.ParkedTasks() {
			p := p
			evs = append(evs, kernel.Event{Name: "wake:" + p.Task + "@" + p.Point, Task: p.Task, Drain: true, Apply: func() { sched.Release(p.Task, "go") }})
		}
		return evs
	}, nil); err != nil {
		c.o.Infra = err.Error()
	}
	c.o.Probe("concurrent-starts")
	c.o.Trace = append(c.o.Trace, strings.Join(sched.Trace, ","))
	out := "concurrent start [" + strings.Join(sched.Trace, " ") + "]:"
	for i, r := range resps {
		if r != nil {
			out += " | " + c.afterLogin(ch, c.browsers[i], r)
		}
	}
	return out
}

func (c *c17) afterLogin(ch *kernel.Chooser, b *world.Browser, r *world.Resp) string {
	w := c.w
	if r.Err != nil || r.Status != http.StatusFound {
		return fmt.Sprintf("start in %s -> %d %v", b.Name, r.Status, r.Err)
	}
	c.n++
	a := &attempt{n: c.n, browser: b, startedAt: time.Now()}
	u, err := url.Parse(r.Location)
	if err != nil {
		c.viol("auth-url", "rp/login", "unparsable authorization URL %q", r.Location)
		return "start: bad url"
	}
	q := u.Query()
	a.state = q.Get("state")
	a.stateCk = findCookie(r.Header, "state")
	a.pkceCk = findCookie(r.Header, "pkce")
	// the authorization URL always carries the configured client, redirect URI, scopes and that state
	cfg := c.rp.RP.OAuthConfig()
	if q.Get("client_id") != cfg.ClientID || q.Get("redirect_uri") != cfg.RedirectURL || q.Get("scope") != strings.Join(cfg.Scopes, " ") || q.Get("response_type") != "code" || !strings.HasPrefix(r.Location, w.Issuer+"/authorize?") {
		c.viol("auth-url", "rp/login", "authorization URL %q does not carry the configured client/redirect/scopes", r.Location)
	}
	if a.stateCk == nil {
		c.viol("auth-url", "rp/login-cookie", "no state cookie was set")
	} else if plain, ok := decodeCookie(c.rp, "state", a.stateCk.Value, c.maxAge); !ok || plain != a.state {
		c.viol("auth-url", "rp/login-state", "state cookie decodes to %q, the authorization URL carries state %q", plain, a.state)
	}
	if c.rp.PKCE {
		if a.pkceCk == nil {
			c.viol("pkce", "rp/login", "PKCE is enabled but no pkce cookie was set")
		} else {
			v, ok := decodeCookie(c.rp, "pkce", a.pkceCk.Value, c.maxAge)
			a.verifier = v
			if !ok || q.Get("code_challenge") != world.S256(v) || q.Get("code_challenge_method") != "S256" {
				c.viol("pkce", "rp/login-challenge", "authorization URL challenge %q (%s) is not S256 of the verifier stored in the cookie", q.Get("code_challenge"), q.Get("code_challenge_method"))
			}
		}
	} else if q.Get("code_challenge") != "" {
		c.o.Probe("challenge-without-pkce")
	}
	// user agent goes to the provider, logs in, and comes back with the callback URL (not delivered yet)
	ar := b.Get(r.Location)
	if ar.Status != http.StatusFound || !strings.Contains(ar.Location, "/login?") {
		return fmt.Sprintf("start #%d in %s: authorize refused %d", a.n, b.Name, ar.Status)
	}
	lu, _ := url.Parse(ar.Location)
	user := ch.Pick("alice", "bob")
	cb := w.LoginAndCallback(b, lu.Query().Get("authRequestID"), user, userPass[user])
	if cb.Status != http.StatusFound || !strings.HasPrefix(cb.Location, "https://"+c.host()+"/callback") {
		return fmt.Sprintf("start #%d in %s: no callback (%d)", a.n, b.Name, cb.Status)
	}
	a.callback = cb.Location
	a.subject = userID[user]
	c.attempts = append(c.attempts, a)
	c.o.Probe("attempt-started")
	return fmt.Sprintf("start #%d in %s state=%s pkce=%v -> callback ready", a.n, b.Name, a.state, a.verifier != "")
}

func forgeCookie(n *world.RPNode, name, plain string) *http.Cookie {
	sc := securecookie.New(n.HashKey, n.BlockKey)
	v, err := sc.Encode(name, plain)
	if err != nil {
		return nil
	}
	return &http.Cookie{Name: name, Value: v}
}

func (c *c17) deliver(ch *kernel.Chooser) string {
	w := c.w
	if len(c.attempts) == 0 {
		return "deliver: nothing pending"
	}
	a := c.attempts[ch.Int(len(c.attempts))]
	cbURL := a.callback
	variant := "honest"
	var cookies []*http.Cookie // nil: use the browser's jar
	useJar := true
	x := ch.Int(22)
	junk := func(name, plain string) *http.Cookie {
		switch ch.Int(3) {
		case 0:
			return forgeCookie(c.other, name, plain) // minted by the other application
		case 1:
			return &http.Cookie{Name: name, Value: "garbage-" + plain}
		default:
			if g := forgeCookie(c.rp, name, plain); g != nil && len(g.Value) > 8 {
				return &http.Cookie{Name: name, Value: g.Value[:len(g.Value)-6]} // cut short
			}
			return &http.Cookie{Name: name, Value: "x"}
		}
	}
	switch {
	case x == 18 || x == 19:
		// a state cookie that does not verify together with a callback that has no (or an empty) state parameter:
		// "nothing" on both sides is not a match
		variant, useJar = "junk-state-cookie+no-state-param", false
		cookies = []*http.Cookie{junk("state", a.state)}
		if a.pkceCk != nil {
			cookies = append(cookies, a.pkceCk)
		}
		u, _ := url.Parse(cbURL)
		q := u.Query()
		if x == 18 {
			q.Del("state")
		} else {
			q.Set("state", "")
		}
		u.RawQuery = q.Encode()
		cbURL = u.String()
	case x == 21:
		// the genuine state cookie and no pkce cookie at all (dropped by the browser, or the login was started where PKCE
		// is not used): with PKCE enabled there is then no verifier this callback could be bound to
		variant, useJar = "state-cookie-only", false
		if a.stateCk != nil {
			cookies = append(cookies, a.stateCk)
		}
	case x == 20:
		// the genuine state cookie, and a pkce cookie that does not verify
		variant, useJar = "junk-pkce-cookie", false
		if a.stateCk != nil {
			cookies = append(cookies, a.stateCk)
		}
		cookies = append(cookies, junk("pkce", a.verifier))
	case x < 5:
	case x >= 16: // the state parameter is another spelling of the cookie's state: equal only after a further decoding step
		variant = "respelled-state-param"
		u, _ := url.Parse(cbURL)
		q := u.Query()
		st := a.state
		re := st
		switch ch.Int(5) {
		case 0: // every byte percent-encoded (arrives at the handler as the literal %XX text)
			var sb strings.Builder
			for i := 0; i < len(st); i++ {
				fmt.Fprintf(&sb, "%%%02X", st[i])
			}
			re = sb.String()
		case 1: // one character percent-encoded
			if len(st) > 0 {
				i := ch.Int(len(st))
				re = st[:i] + fmt.Sprintf("%%%02x", st[i]) + st[i+1:]
			}
		case 2:
			re = url.QueryEscape(st)
			if re == st {
				re = strings.ReplaceAll(st, "-", "%2D")
			}
		case 3:
			re = strings.ToUpper(st)
			if re == st {
				re = strings.ToLower(st)
			}
		default:
			re = st + "+"
		}
		if re == st {
			re = st + "%20"
		}
		q.Set("state", re)
		u.RawQuery = q.Encode()
		cbURL = u.String()
	case x == 5:
		variant, useJar = "no-cookies", false
	case x == 6: // cookies minted by another RP instance (other keys) for the right names and values
		variant, useJar = "other-instance-cookies", false
		cookies = []*http.Cookie{forgeCookie(c.other, "state", a.state), forgeCookie(c.other, "pkce", a.verifier)}
	case x == 7: // cookie minted for the other name: the pkce cookie presented as state cookie and vice versa
		variant, useJar = "swapped-cookie-names", false
		if a.stateCk != nil {
			cookies = append(cookies, &http.Cookie{Name: "pkce", Value: a.stateCk.Value})
		}
		if a.pkceCk != nil {
			cookies = append(cookies, &http.Cookie{Name: "state", Value: a.pkceCk.Value})
		}
	case x == 8:
		variant, useJar = "truncated-cookie", false
		if a.stateCk != nil {
			cookies = append(cookies, &http.Cookie{Name: "state", Value: a.stateCk.Value[:len(a.stateCk.Value)/2]})
		}
		if a.pkceCk != nil {
			cookies = append(cookies, a.pkceCk)
		}
	case x == 9:
		variant, useJar = "bit-flipped-cookie", false
		if a.stateCk != nil {
			v := []byte(a.stateCk.Value)
			i := ch.Int(len(v))
			if v[i] == 'A' {
				v[i] = 'B'
			} else {
				v[i] = 'A'
			}
			cookies = append(cookies, &http.Cookie{Name: "state", Value: string(v)})
		}
		if a.pkceCk != nil {
			cookies = append(cookies, a.pkceCk)
		}
	case x == 10: // the state parameter of this attempt with the cookies of another attempt
		variant, useJar = "cookies-of-other-attempt", false
		o := c.attempts[ch.Int(len(c.attempts))]
		if o.stateCk != nil {
			cookies = append(cookies, o.stateCk)
		}
		if o.pkceCk != nil {
			cookies = append(cookies, o.pkceCk)
		}
		variant += fmt.Sprintf("(#%d)", o.n)
	case x == 11:
		variant = "tampered-state-param"
		u, _ := url.Parse(cbURL)
		q := u.Query()
		q.Set("state", a.state+"x")
		u.RawQuery = q.Encode()
		cbURL = u.String()
	case x == 12:
		variant = "state-param-missing"
		u, _ := url.Parse(cbURL)
		q := u.Query()
		q.Del("state")
		u.RawQuery = q.Encode()
		cbURL = u.String()
	case x == 13: // only the genuine cookies of this attempt, replayed from outside the jar (possibly after MaxAge)
		variant, useJar = "replayed-own-cookies", false
		if a.stateCk != nil {
			cookies = append(cookies, a.stateCk)
		}
		if a.pkceCk != nil {
			cookies = append(cookies, a.pkceCk)
		}
	case x == 14:
		variant, useJar = "forged-plain-cookie", false
		cookies = []*http.Cookie{{Name: "state", Value: a.state}, {Name: "pkce", Value: a.verifier}}
	default:
		variant = "other-browser"
	}
	b := a.browser
	if variant == "other-browser" {
		for _, ob := range c.browsers {
			if ob != a.browser {
				b = ob
			}
		}
	}
	// what will be presented
	var presented []*http.Cookie
	if useJar {
		u, _ := url.Parse(cbURL)
		presented = b.Jar.Cookies(u)
	} else {
		for _, ck := range cookies {
			if ck != nil {
				presented = append(presented, ck)
			}
		}
	}
	cu, _ := url.Parse(cbURL)
	stateParam := cu.Query().Get("state")
	_, unauthBefore, _ := c.rp.Snapshot()
	cbBefore, _, _ := c.rp.Snapshot()
	before := w.Net.Len()
	// now and then the provider's token endpoint cannot be reached or fails while the RP handles this callback; the
	// browser may come back with the same callback later (a retry is just another delivery)
	tokenFault := ""
	if ch.Bool(1, 8) {
		tokenFault = ch.Pick("drop-req", "drop-resp", "500")
		w.Net.Fault = func(ex *world.Exchange) string {
			if ex.From == "rp:"+c.client && ex.Path == "/oauth/token" && tokenFault != "500" {
				return tokenFault
			}
			return ""
		}
		if tokenFault == "500" {
			w.Net.Corrupt = func(ex *world.Exchange) (int, string, bool) {
				if ex.From == "rp:"+c.client && ex.Path == "/oauth/token" {
					return 500, `{"error":"server_error"}`, true
				}
				return 0, "", false
			}
		}
		c.o.Fault("token-endpoint-" + tokenFault)
	}
	var r *world.Resp
	// the response may reach the callback as a POST (response_mode=form_post: the provider's page posts code and state)
	byPost := ch.Bool(1, 5)
	postURL, postForm := cbURL, url.Values{}
	if byPost {
		if pu, err := url.Parse(cbURL); err == nil {
			postForm = pu.Query()
			pu.RawQuery = ""
			postURL = pu.String()
		}
		variant += "+by-post"
		c.o.Probe("callbacks-delivered-by-post")
	}
	switch {
	case byPost && useJar:
		r = b.PostForm(postURL, postForm)
	case byPost:
		r = b.PostFormWithCookies(postURL, postForm, presented)
	case useJar:
		r = b.Get(cbURL)
	default:
		r = b.GetWithCookies(cbURL, presented)
	}
	w.Net.Fault, w.Net.Corrupt = nil, nil
	a.delivered++
	desc := fmt.Sprintf("deliver #%d (%s) in %s age=%v token-endpoint-fault=%q -> %d", a.n, variant, b.Name, time.Since(a.startedAt), tokenFault, r.Status)
	// what did the RP send to the provider while handling this callback?
	var tokenReqs []*world.Exchange
	for _, ex := range w.Net.Since(before) {
		if ex.From == "rp:"+c.client && ex.Host == "op.sim" {
			if ex.Path == "/oauth/token" {
				tokenReqs = append(tokenReqs, ex)
			}
		}
	}
	cbAfter, unauthAfter, _ := c.rp.Snapshot()
	var stateCookiePlain, pkcePlain string
	var stateOK, pkceOK bool
	for _, ck := range presented {
		switch ck.Name {
		case "state":
			stateCookiePlain, stateOK = decodeCookie(c.rp, "state", ck.Value, c.maxAge)
		case "pkce":
			pkcePlain, pkceOK = decodeCookie(c.rp, "pkce", ck.Value, c.maxAge)
		}
	}
	if len(tokenReqs) > 0 {
		c.o.Probe("code-sent-to-provider")
		if !stateOK || stateCookiePlain != stateParam {
			c.viol("state-binding", "rp/callback/"+strings.Split(variant, "(")[0], "%s: the RP sent the code to the provider although the state parameter %q does not equal the state of a cookie this RP signed (%q, valid=%v)", desc, stateParam, stateCookiePlain, stateOK)
		}
		if c.rp.PKCE {
			sent := tokenReqs[0].Form().Get("code_verifier")
			if !pkceOK || sent != pkcePlain {
				c.viol("pkce", "rp/callback-verifier", "%s: code_verifier %q sent, the presented pkce cookie holds %q (valid=%v)", desc, sent, pkcePlain, pkceOK)
			}
			// ... and it is the verifier whose S256 went into the authorization URL that carried this state
			for _, at := range c.attempts {
				if at.state == stateParam && at.verifier != "" && sent != at.verifier {
					c.viol("pkce", "rp/callback-verifier-of-attempt", "%s: code_verifier %q sent, the authorization URL with state %q carried the challenge of verifier %q", desc, sent, stateParam, at.verifier)
				}
			}
		}
	} else {
		c.o.Probe("callback-refused")
		if len(unauthAfter) == len(unauthBefore) && r.Status != 403 {
			c.viol("refusal", "rp/callback", "%s: nothing was sent to the provider but the unauthorized handler did not run either (status %d)", desc, r.Status)
		}
	}
	if len(cbAfter) > len(cbBefore) {
		c.o.Probe("application-callback")
		last := cbAfter[len(cbAfter)-1]
		if len(tokenReqs) == 0 {
			c.viol("state-binding", "rp/callback-app", "%s: application callback invoked without a code exchange", desc)
		}
		if last.State != stateParam || !stateOK || stateCookiePlain != stateParam {
			c.viol("state-binding", "rp/callback-app-state", "%s: application callback got state %q, callback parameter %q, cookie %q", desc, last.State, stateParam, stateCookiePlain)
		}
	}
	// progress: the honest, first delivery in the right browser with fresh cookies completes the login
	if strings.TrimSuffix(variant, "+by-post") == "honest" && tokenFault == "" && a.delivered == 1 && c.latestInBrowser(a) && (c.maxAge == 0 || time.Since(a.startedAt) < time.Duration(c.maxAge-2)*time.Second) {
		if len(cbAfter) == len(cbBefore) {
			c.o.Probe("honest-login-failed")
			c.o.Logf("  honest login failed: %d %s", r.Status, firstLine(r.Body))
		} else {
			c.o.Probe("honest-login-completed")
		}
	}
	return desc
}

// concurrentDeliver: the honest callbacks of two attempts (one per browser) arrive at the same time; the scheduler
// interleaves the two handler invocations at the point where the handler evaluates its exchange options (after it
// read its cookies, before it sends the code). Each code must travel with the verifier of its own browser's
// cookie, and each application callback must get the state and the user of its own attempt.
func (c *c17) concurrentDeliver(ch *kernel.Chooser) string {
	w := c.w
	var pair []*attempt
	for _, b := range c.browsers {
		for _, a := range c.attempts {
			if a.browser == b && a.delivered == 0 && c.latestInBrowser(a) && (c.maxAge == 0 || time.Since(a.startedAt) < time.Duration(c.maxAge-2)*time.Second) {
				pair = append(pair, a)
				break
			}
		}
	}
	if len(pair) < 2 {
		return c.start(ch)
	}
	sched := kernel.NewSched(c.w.Tape, fmt.Sprintf("pair:%d", c.step), 100)
	c.rp.ParamHook = func() { sched.Park(sched.Current, "rp.exchangeparam", nil) }
	defer func() { c.rp.ParamHook = nil }()
	cbBefore, _, _ := c.rp.Snapshot()
	before := w.Net.Len()
	resps := make([]*world.Resp, 2)
	for i := 0; i < 2; i++ {
		i := i
		name := fmt.Sprintf("t%d", i)
		go func() {
			if sched.Park(name, "start", nil) != "go" {
				return
			}
			resps[i] = pair[i].browser.Get(pair[i].callback)
		}()
	}
	if err := sched.Run(func(bool) []kernel.Event {
		var evs []kernel.Event
		for _, p := range sched.ParkedTasks() {
			p := p
			evs = append(evs, kernel.Event{Name: "wake:" + p.Task + "@" + p.Point, Task: p.Task, Drain: true, Apply: func() { sched.Release(p.Task, "go") }})
		}
		return evs
	}, nil); err != nil {
		c.o.Infra = err.Error()
	}
	c.o.Probe("concurrent-callbacks")
	c.o.Trace = append(c.o.Trace, strings.Join(sched.Trace, ","))
	desc := fmt.Sprintf("concurrent honest callbacks #%d/%s and #%d/%s [%s]", pair[0].n, pair[0].browser.Name, pair[1].n, pair[1].browser.Name, strings.Join(sched.Trace, " "))
	cbAfter, _, _ := c.rp.Snapshot()
	for i, a := range pair {
		a.delivered++
		cu, _ := url.Parse(a.callback)
		code := cu.Query().Get("code")
		st := -1
		if resps[i] != nil {
			st = resps[i].Status
		}
		desc += fmt.Sprintf(" #%d->%d", a.n, st)
		sent := 0
		for _, ex := range w.Net.Since(before) {
			if ex.From == "rp:"+c.client && ex.Host == "op.sim" && ex.Path == "/oauth/token" && ex.Form().Get("code") == code {
				sent++
				if v := ex.Form().Get("code_verifier"); c.rp.PKCE && v != a.verifier {
					c.viol("pkce", "rp/callback-verifier/concurrent", "%s: the code of attempt #%d was sent with code_verifier %q, its own pkce cookie holds %q", desc, a.n, v, a.verifier)
				}
			}
		}
		if sent == 0 {
			c.o.Probe("honest-login-failed")
			continue
		}
		var mine []world.RPCallback
		for _, cb := range cbAfter[len(cbBefore):] {
			if cb.State == a.state {
				mine = append(mine, cb)
			}
		}
		if len(mine) == 1 {
			c.o.Probe("honest-login-completed")
			if mine[0].Subject != a.subject {
				c.viol("state-binding", "rp/callback-app/concurrent", "%s: the application callback for state %q got the tokens of %q, attempt #%d was logged in by %q", desc, a.state, mine[0].Subject, a.n, a.subject)
			}
		} else if len(mine) > 1 {
			c.viol("state-binding", "rp/callback-app/concurrent", "%s: %d application callbacks for state %q of one delivery", desc, len(mine), a.state)
		} else {
			c.o.Probe("honest-login-failed")
		}
	}
	for _, cb := range cbAfter[len(cbBefore):] {
		if cb.State != pair[0].state && cb.State != pair[1].state {
			c.viol("state-binding", "rp/callback-app/concurrent", "%s: application callback with state %q that neither delivery carried", desc, cb.State)
		}
	}
	return desc
}

// latestInBrowser: the attempt's cookies are still the ones in the jar (no later attempt overwrote them).
func (c *c17) latestInBrowser(a *attempt) bool {
	for _, o := range c.attempts {
		if o.browser == a.browser && o.n > a.n {
			return false
		}
	}
	return true
}

func RunC17(t *testing.T, spec kernel.Spec) *kernel.Outcome {
	o := inBubble(t, spec, func(o *kernel.Outcome, tape *kernel.Tape) {
		w, err := world.NewStd(o, tape, world.StdOptions{Router: spec.Params["router"]})
		if err != nil {
			o.Infra = "world: " + err.Error()
			return
		}
		cfg := tape.Sub("cfg2")
		c := &c17{w: w, o: o}
		pkce := cfg.Bool(2, 3)
		if cfg.Bool(1, 3) {
			c.maxAge = cfg.Range(30, 600)
		}
		style := []oauth2.AuthStyle{oauth2.AuthStyleInHeader, oauth2.AuthStyleInParams, oauth2.AuthStyleAutoDetect}[cfg.Int(3)]
		if !w.Conf.AuthMethodPost && style == oauth2.AuthStyleInParams {
			style = oauth2.AuthStyleInHeader
		}
		c.client = "web"
		secret := "secret-web"
		var signer jose.Signer
		if w.Conf.AuthMethodPrivateKeyJWT && cfg.Bool(1, 4) {
			// JWT-profile client authentication: the RP signs an assertion with the key registered for client jwt
			c.client, secret = "jwt", ""
			k := w.ClientKeys["jwt"]
			signer, err = jose.NewSigner(jose.SigningKey{Algorithm: jose.RS256, Key: k}, (&jose.SignerOptions{}).WithType("JWT"))
			if err != nil {
				o.Infra = "signer: " + err.Error()
				return
			}
		}
		// cookie keys: applications choose their own lengths (any length is a legal HMAC key; block keys of 16, 24 or 32
		// bytes, or none), and the other application's keys may be unrelated to this one's or nearly the same - a
		// shared secret with a per-application suffix, keys that differ in their last byte only
		kc := tape.Sub("cfg-keys")
		hashLen := []int{32, 32, 16, 40, 64, 72, 100}[kc.Int(7)]
		blockLen := []int{16, 16, 24, 32, 0}[kc.Int(5)]
		mkKey := func(seed byte, n int) []byte {
			k := make([]byte, n)
			for i := range k {
				k[i] = seed + byte(i)*7
			}
			return k
		}
		hk, bk := mkKey(11, hashLen), mkKey(33, blockLen)
		ohk, obk := mkKey(77, hashLen), mkKey(99, blockLen)
		relation := kc.Pick("unrelated", "unrelated", "last-byte-differs", "same-up-to-byte-32", "same-up-to-byte-64", "suffix-appended")
		switch relation {
		case "last-byte-differs":
			ohk = append([]byte(nil), hk...)
			ohk[len(ohk)-1] ^= 0x55
		case "same-up-to-byte-32", "same-up-to-byte-64":
			cut := map[string]int{"same-up-to-byte-32": 32, "same-up-to-byte-64": 64}[relation]
			if hashLen <= cut {
				relation = "unrelated"
				break
			}
			ohk = append([]byte(nil), hk...)
			for i := cut; i < len(ohk); i++ {
				ohk[i] ^= 0xA5
			}
		case "suffix-appended":
			ohk = append(append([]byte(nil), hk...), []byte(":other-app")...)
		}
		if relation != "unrelated" && kc.Bool(2, 3) {
			obk = bk // the encryption key is shared (or absent on both sides)
		}
		o.Probe("cookie-keys-of-the-other-application:" + relation)
		// cookie attributes hardly anybody sets: an explicit Domain (the application's own host) and SameSite
		cookieDomain, sameSite := "", http.SameSite(0)
		if kc.Bool(1, 3) {
			cookieDomain = c.host()
			o.Probe("cookie-handler-with-a-domain")
		}
		if kc.Bool(1, 3) {
			sameSite = []http.SameSite{http.SameSiteLaxMode, http.SameSiteStrictMode, http.SameSiteNoneMode}[kc.Int(3)]
		}
		userinfoCB := kc.Bool(1, 3)
		if userinfoCB {
			o.Probe("worlds-with-the-userinfo-callback")
		}
		mk := func(h, b []byte) (*world.RPNode, error) {
			return world.BuildRP(context.Background(), w, world.RPOptions{Client: c.client, Secret: secret, Host: c.host(), Redirect: "https://" + c.host() + "/callback", Signer: signer,
				Scopes: []string{oidc.ScopeOpenID, oidc.ScopeEmail}, PKCE: pkce, Cookies: true, HashKey: h, BlockKey: b, NoBlockKey: blockLen == 0, UserinfoCB: userinfoCB, CookieDomain: cookieDomain, CookieSameSite: sameSite, AuthStyle: style, SigAlgs: []string{string(w.SigAlg)}, MaxAge: c.maxAge})
		}
		c.other, err = mk(ohk, obk)
		if err == nil {
			c.rp, err = mk(hk, bk) // mounted last: this is the instance that serves web.sim
			if err == nil && kc.Bool(1, 2) {
				// applications put what they need after the login into the state (a return address, a serialised form): every
				// third login of these worlds carries a state of one to two kilobytes (still within the cookie's size limit)
				longN := 0
				client := c.client
				c.rp.StateGen = func() string {
					longN++
					if longN%3 != 0 {
						return fmt.Sprintf("%s-state-g%d", client, longN)
					}
					o.Probe("logins-with-a-state-longer-than-a-kilobyte")
					return fmt.Sprintf("%s-state-g%d-", client, longN) + strings.Repeat("return-to/", 105+(longN*7)%50)
				}
			}
		}
		if err != nil {
			o.Infra = "rp: " + err.Error()
			return
		}
		c.browsers = []*world.Browser{w.Net.NewBrowser("b1"), w.Net.NewBrowser("b2")}
		n := 30 + tape.Sub("cfg").Int(40)
		steps(o, tape, n, func(i int, ch *kernel.Chooser) string {
			c.step = i
			switch x := ch.Int(12); {
			case x == 10:
				return c.concurrentStart(ch)
			case x == 11:
				return c.concurrentDeliver(ch)
			case x < 4 || i < 2:
				return c.start(ch)
			case x < 9:
				return c.deliver(ch)
			default:
				var d time.Duration
				if c.maxAge > 0 && ch.Bool(1, 2) {
					d = time.Duration(c.maxAge+1) * time.Second
				} else {
					d = time.Duration(ch.Range(1, 120)) * time.Second
				}
				w.Advance(d)
				return fmt.Sprintf("advance %v", d)
			}
		})
		o.Log = append([]string{fmt.Sprintf("config: router=%s client=%s pkce=%v cookieMaxAge=%d authStyle=%v", w.Router, c.client, pkce, c.maxAge, style)}, o.Log...)
		o.Sample = map[string]any{"seed": spec.Seed, "router": w.Router, "pkce": pkce, "client": c.client, "steps": o.Trace}
		if c.client == "jwt" {
			o.ProbeN("jwt-profile-rp-login-completed", o.Probes["honest-login-completed"])
		}
	})
	o.Nontrivial = o.Probes["code-sent-to-provider"] > 0 && o.Probes["callback-refused"] > 0
	return o
}
