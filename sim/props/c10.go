package props

import (
	"fmt"
	"net/url"
	"os"
	"regexp"
	"slices"
	"sort"
	"strings"
	"testing"
	"time"

	"github.com/zitadel/oidc/v3/pkg/oidc"
	"github.com/zitadel/oidc/v3/pkg/op"

	"verif/sim/kernel"
	"verif/sim/world"
)

// C10: storage failures fail closed. For one flow per world, a fault-free pilot counts the storage
// calls n of the target request; then for every k <= n and every fault kind one fresh world is run
// with exactly that fault injected into the k-th storage call of the target request.

type faultFlow struct {
	name  string
	needs func(w *world.World) bool
	// prepare runs the fault-free prefix and returns the target request as a closure plus
	// the redirect URI an error redirect may go to ("" = none).
	prepare func(w *world.World, b *world.Browser, ch *kernel.Chooser) (target func() *world.Resp, redirect string, err error)
}

func always(*world.World) bool { return true }

func tokenFlow(client string, scopes []string, then func(w *world.World, s *session) (func() *world.Resp, error)) func(w *world.World, b *world.Browser, ch *kernel.Chooser) (func() *world.Resp, string, error) {
	return func(w *world.World, b *world.Browser, ch *kernel.Chooser) (func() *world.Resp, string, error) {
		s, err := codeFlow(w, b, flowOpts{client: client, scopes: scopes})
		if err != nil {
			return nil, "", err
		}
		t, err := then(w, s)
		return t, "", err
	}
}

var faultFlows = []faultFlow{
	{"authorize", always, func(w *world.World, b *world.Browser, ch *kernel.Chooser) (func() *world.Resp, string, error) {
		return func() *world.Resp {
			_, r := startAuthz(w, b, flowOpts{client: "web"})
			return r
		}, "https://web.sim/callback", nil
	}},
	{"authorize-unregistered-uri", always, func(w *world.World, b *world.Browser, ch *kernel.Chooser) (func() *world.Resp, string, error) {
		// the redirect URI is not registered: whatever fails, nothing may be redirected there (redirect = "" admits no redirect at all)
		return func() *world.Resp {
			_, r := startAuthz(w, b, flowOpts{client: "web", redirect: "https://attacker.example/cb"})
			return r
		}, "", nil
	}},
	{"authorize-with-hint", always, func(w *world.World, b *world.Browser, ch *kernel.Chooser) (func() *world.Resp, string, error) {
		s, err := codeFlow(w, b, flowOpts{client: "web"})
		if err != nil {
			return nil, "", err
		}
		return func() *world.Resp {
			_, r := startAuthz(w, b, flowOpts{client: "web", extra: url.Values{"id_token_hint": {s.tokens.IDToken}}})
			return r
		}, "https://web.sim/callback", nil
	}},
	{"callback-code", always, callbackFlow("code", "")},
	{"callback-code-formpost", always, callbackFlow("code", "form_post")},
	{"callback-idtoken-token", always, callbackFlow("id_token token", "")},
	{"callback-idtoken", always, callbackFlow("id_token", "")},
	{"callback-idtoken-token-formpost", always, callbackFlow("id_token token", "form_post")},
	{"code-exchange", always, exchangeFlow("web", []string{oidc.ScopeOpenID, oidc.ScopeProfile, oidc.ScopeEmail})},
	{"code-exchange-offline", always, exchangeFlow("web", []string{oidc.ScopeOpenID, oidc.ScopeOfflineAccess})},
	{"code-exchange-public", always, exchangeFlow("pub", []string{oidc.ScopeOpenID, oidc.ScopeEmail})},
	{"code-exchange-jwtclient", func(w *world.World) bool { return w.Conf.AuthMethodPrivateKeyJWT }, exchangeFlow("jwt", []string{oidc.ScopeOpenID})},
	{"refresh", func(w *world.World) bool { return w.Conf.GrantTypeRefreshToken }, tokenFlow("web", []string{oidc.ScopeOpenID, oidc.ScopeOfflineAccess, oidc.ScopeEmail}, func(w *world.World, s *session) (func() *world.Resp, error) {
		if s.tokens.RefreshToken == "" {
			return nil, fmt.Errorf("no refresh token issued")
		}
		return func() *world.Resp {
			return w.PostForm("/oauth/token", url.Values{"grant_type": {"refresh_token"}, "refresh_token": {s.tokens.RefreshToken}}, w.RightCreds("web"))
		}, nil
	})},
	{"client-credentials", func(w *world.World) bool { return w.Caps.ClientCredentials }, func(w *world.World, b *world.Browser, ch *kernel.Chooser) (func() *world.Resp, string, error) {
		return func() *world.Resp {
			return w.PostForm("/oauth/token", url.Values{"grant_type": {"client_credentials"}, "scope": {"api"}}, w.RightCreds("web"))
		}, "", nil
	}},
	{"jwt-bearer", always, func(w *world.World, b *world.Browser, ch *kernel.Chooser) (func() *world.Resp, string, error) {
		a := w.RightCreds("jwt").Assertion
		return func() *world.Resp {
			return w.PostForm("/oauth/token", url.Values{"grant_type": {string(oidc.GrantTypeBearer)}, "assertion": {a}, "scope": {"openid api"}}, world.Creds{Mode: "none"})
		}, "", nil
	}},
	{"token-exchange-access", func(w *world.World) bool { return w.Caps.TokenExchange }, exchangeGrantFlow(oidc.AccessTokenType, false)},
	{"token-exchange-refresh", func(w *world.World) bool { return w.Caps.TokenExchange }, exchangeGrantFlow(oidc.RefreshTokenType, false)},
	{"token-exchange-id", func(w *world.World) bool { return w.Caps.TokenExchange }, exchangeGrantFlow(oidc.IDTokenType, false)},
	{"token-exchange-actor", func(w *world.World) bool { return w.Caps.TokenExchange }, exchangeGrantFlow(oidc.AccessTokenType, true)},
	{"device-authorization", func(w *world.World) bool { return w.Caps.Device }, func(w *world.World, b *world.Browser, ch *kernel.Chooser) (func() *world.Resp, string, error) {
		return func() *world.Resp {
			return w.PostForm("/device_authorization", url.Values{"scope": {"openid email"}}, w.RightCreds("web"))
		}, "", nil
	}},
	{"device-token", func(w *world.World) bool { return w.Caps.Device }, func(w *world.World, b *world.Browser, ch *kernel.Chooser) (func() *world.Resp, string, error) {
		r := w.PostForm("/device_authorization", url.Values{"scope": {"openid email offline_access"}}, w.RightCreds("web"))
		var da struct {
			DeviceCode string `json:"device_code"`
		}
		if r.Err != nil || r.Status != 200 || jsonUnmarshal(r.Body, &da) != nil || da.DeviceCode == "" {
			return nil, "", fmt.Errorf("device authorization failed: %d %s", r.Status, firstLine(r.Body))
		}
		if !w.Store.ApproveDevice(da.DeviceCode, "u1") {
			return nil, "", fmt.Errorf("cannot approve")
		}
		return func() *world.Resp {
			return w.PostForm("/oauth/token", url.Values{"grant_type": {string(oidc.GrantTypeDeviceCode)}, "device_code": {da.DeviceCode}}, w.RightCreds("web"))
		}, "", nil
	}},
	{"userinfo", always, tokenFlow("web", []string{oidc.ScopeOpenID, oidc.ScopeEmail, oidc.ScopeProfile}, func(w *world.World, s *session) (func() *world.Resp, error) {
		return func() *world.Resp { return bearerGet(w, "/userinfo", s.tokens.AccessToken) }, nil
	})},
	{"introspect", always, tokenFlow("web", []string{oidc.ScopeOpenID, oidc.ScopeEmail}, func(w *world.World, s *session) (func() *world.Resp, error) {
		return func() *world.Resp {
			return w.PostForm("/oauth/introspect", url.Values{"token": {s.tokens.AccessToken}}, w.RightCreds("web"))
		}, nil
	})},
	{"revoke-access", always, tokenFlow("web", []string{oidc.ScopeOpenID}, func(w *world.World, s *session) (func() *world.Resp, error) {
		return func() *world.Resp {
			return w.PostForm("/revoke", url.Values{"token": {s.tokens.AccessToken}}, w.RightCreds("web"))
		}, nil
	})},
	{"revoke-refresh", func(w *world.World) bool { return w.Conf.GrantTypeRefreshToken }, tokenFlow("web", []string{oidc.ScopeOpenID, oidc.ScopeOfflineAccess}, func(w *world.World, s *session) (func() *world.Resp, error) {
		if s.tokens.RefreshToken == "" {
			return nil, fmt.Errorf("no refresh token issued")
		}
		return func() *world.Resp {
			return w.PostForm("/revoke", url.Values{"token": {s.tokens.RefreshToken}, "token_type_hint": {"refresh_token"}}, w.RightCreds("web"))
		}, nil
	})},
	{"end-session", always, tokenFlow("web", []string{oidc.ScopeOpenID}, func(w *world.World, s *session) (func() *world.Resp, error) {
		return func() *world.Resp {
			q := url.Values{"id_token_hint": {s.tokens.IDToken}, "post_logout_redirect_uri": {"https://web.sim/bye"}, "state": {"bye"}}
			return rawGet(w, "/end_session?"+q.Encode())
		}, nil
	})},
	{"keys", always, func(w *world.World, b *world.Browser, ch *kernel.Chooser) (func() *world.Resp, string, error) {
		return func() *world.Resp { return rawGet(w, "/keys") }, "", nil
	}},
}

func callbackFlow(respType, mode string) func(w *world.World, b *world.Browser, ch *kernel.Chooser) (func() *world.Resp, string, error) {
	return func(w *world.World, b *world.Browser, ch *kernel.Chooser) (func() *world.Resp, string, error) {
		s, resp := startAuthz(w, b, flowOpts{client: "web", responseType: respType, responseMode: mode, scopes: []string{oidc.ScopeOpenID, oidc.ScopeEmail}})
		if s.authReq == "" {
			return nil, "", fmt.Errorf("authorize refused: %d", resp.Status)
		}
		lr := loginStep(w, b, s)
		if lr.Status != 302 {
			return nil, "", fmt.Errorf("login failed: %d", lr.Status)
		}
		return func() *world.Resp { return b.Get(lr.Location) }, s.redirect, nil
	}
}

func exchangeFlow(client string, scopes []string) func(w *world.World, b *world.Browser, ch *kernel.Chooser) (func() *world.Resp, string, error) {
	return func(w *world.World, b *world.Browser, ch *kernel.Chooser) (func() *world.Resp, string, error) {
		s, err := authorizeToCode(w, b, flowOpts{client: client, scopes: scopes})
		if err != nil {
			return nil, "", err
		}
		creds := w.RightCreds(client)
		return func() *world.Resp { return w.PostForm("/oauth/token", codeForm(s), creds) }, "", nil
	}
}

func exchangeGrantFlow(requested oidc.TokenType, withActor bool) func(w *world.World, b *world.Browser, ch *kernel.Chooser) (func() *world.Resp, string, error) {
	return func(w *world.World, b *world.Browser, ch *kernel.Chooser) (func() *world.Resp, string, error) {
		// the subject is a refresh or JWT access token (an opaque access token subject panics today, see C09/C15)
		s, err := codeFlow(w, b, flowOpts{client: "web", scopes: []string{oidc.ScopeOpenID, oidc.ScopeOfflineAccess, oidc.ScopeEmail}})
		if err != nil {
			return nil, "", err
		}
		f := url.Values{"grant_type": {string(oidc.GrantTypeTokenExchange)}, "requested_token_type": {string(requested)}, "scope": {"openid email"}}
		switch {
		case s.tokens.RefreshToken != "":
			f.Set("subject_token", s.tokens.RefreshToken)
			f.Set("subject_token_type", string(oidc.RefreshTokenType))
		default:
			f.Set("subject_token", s.tokens.IDToken)
			f.Set("subject_token_type", string(oidc.IDTokenType))
		}
		if withActor {
			f.Set("actor_token", s.tokens.IDToken)
			f.Set("actor_token_type", string(oidc.IDTokenType))
		}
		creds := w.RightCreds("web")
		return func() *world.Resp { return w.PostForm("/oauth/token", f, creds) }, "", nil
	}
}

var tornMethods = map[string]bool{"SetUserinfoFromScopes": true, "SetUserinfoFromToken": true, "SetIntrospectionFromToken": true}

var secretRe = regexp.MustCompile(`(?i)\b(access_token|refresh_token|id_token|code)=`)

// checkFailClosed is the C10 oracle for one faulted response.
func checkFailClosed(o *kernel.Outcome, prop string, site string, step int, desc string, r *world.Resp, redirect string, introspection bool) {
	viol := func(rule, format string, a ...any) {
		o.Violate(prop, rule, site, step, "%s: %s", desc, fmt.Sprintf(format, a...))
	}
	if r.Ex != nil && r.Ex.Panic != "" {
		viol("panic", "handler panicked: %s", r.Ex.Panic)
		return
	}
	if r.Ex == nil {
		return
	}
	status, body, loc := r.Ex.Status, r.Ex.RespBody, r.Ex.RespHeader.Get("Location")
	switch {
	case status >= 400:
	case introspection && status == 200 && strings.TrimSpace(body) == `{"active":false}`:
		// the statement's own clause for introspection: "does not report active:true"; RFC 7662
		// answers every failure with a bare inactive document
	case status == 302:
		u, err := url.Parse(loc)
		if err != nil {
			viol("error-answer", "redirect to unparsable location %q", loc)
			return
		}
		params := u.Query()
		if u.Fragment != "" {
			fv, _ := url.ParseQuery(u.EscapedFragment())
			for k, v := range fv {
				params[k] = v
			}
		}
		if params.Get("error") == "" {
			viol("error-answer", "request with a failed storage call was answered with a redirect without error: %s", loc)
		}
		if redirect == "" || !strings.HasPrefix(loc, redirect) {
			viol("error-answer", "error redirect to %q, validated redirect URI is %q", loc, redirect)
		}
	default:
		viol("error-answer", "request with a failed storage call was answered with status %d: %s", status, firstLine(body))
	}
	// nothing valuable may be in the answer
	if secretRe.MatchString(loc) {
		viol("leak", "Location carries a code or token: %s", loc)
	}
	var m map[string]any
	if jsonUnmarshal(body, &m) == nil {
		for _, k := range []string{"access_token", "refresh_token", "id_token", "code", "device_code"} {
			if v, ok := m[k]; ok && v != "" && v != nil {
				viol("leak", "response body has %s", k)
			}
		}
		if a, ok := m["active"].(bool); ok && a {
			viol("leak", "introspection reports active:true")
		}
		for _, k := range []string{"email", "name", "preferred_username", "phone_number", "sub", "username"} {
			if _, ok := m[k]; ok {
				viol("leak", "response body discloses user claim %q: %s", k, firstLine(body))
				break
			}
		}
	}
	if strings.Contains(body, `name="code"`) || strings.Contains(body, `name="id_token"`) || strings.Contains(body, `name="access_token"`) {
		viol("leak", "form_post page carries a code or token")
	}
}

func RunC10(t *testing.T, spec kernel.Spec) *kernel.Outcome {
	return runFaultSweep(t, spec, "C10", int(spec.Seed%uint64(len(faultFlows)*2)))
}

// idempotentFlows: target requests that can be sent twice; the sweep sends them once fault-free before the faulted
// run, so that anything the provider remembered from a successful request (a cache that masks the failing call) is warm.
var idempotentFlows = map[string]bool{"authorize": true, "authorize-unregistered-uri": true, "authorize-with-hint": true, "client-credentials": true, "jwt-bearer": true,
	"token-exchange-access": true, "token-exchange-refresh": true, "token-exchange-id": true, "token-exchange-actor": true, "device-authorization": true,
	"userinfo": true, "introspect": true, "keys": true}

// warmUp gives the provider a successful history before the target request: tokens of another client in JWT form are
// verified by the provider (userinfo, id_token_hint), keys and discovery are served, a client is looked up. A fault in
// the target request must fail closed whatever an earlier request left behind.
func warmUp(w *world.World, b *world.Browser) {
	nat := w.Store.Clients["native"]
	old := nat.TokenType
	nat.TokenType = op.AccessTokenTypeJWT
	s, err := codeFlow(w, b, flowOpts{client: "native", scopes: []string{oidc.ScopeOpenID, oidc.ScopeEmail}})
	nat.TokenType = old
	if err != nil {
		w.O.Probe("warm-up-flow-failed")
	} else {
		if r := bearerGet(w, "/userinfo", s.tokens.AccessToken); r.Status == 200 {
			w.O.Probe("warm-up-jwt-verified")
		}
		startAuthz(w, b, flowOpts{client: "native", extra: url.Values{"id_token_hint": {s.tokens.IDToken}}})
	}
	rawGet(w, "/keys")
	rawGet(w, "/.well-known/openid-configuration")
}

// checkAnswersOnce is the C09 oracle for a request that met a storage fault: one response, no panic, and no storage
// call after an error status was written (the handler did not carry on into the grant logic).
func checkAnswersOnce(o *kernel.Outcome, site string, step int, desc string, r *world.Resp) {
	ex := r.Ex
	if ex == nil {
		return
	}
	if strings.HasPrefix(ex.Panic, "simstore: request does not terminate") {
		o.Violate("C09", "non-termination", site, step, "%s: %s", desc, ex.Panic)
		return
	}
	if ex.Panic != "" {
		o.Violate("C09", "panic", site, step, "%s: handler panicked: %s", desc, ex.Panic)
		return
	}
	if ex.WriteHeaderCalls > 1 {
		o.Violate("C09", "double-response", site, step, "%s: %s %s wrote %d response headers", desc, ex.Method, ex.Path, ex.WriteHeaderCalls)
	}
	if ex.CallsAtError >= 0 && ex.CallsAtEnd > ex.CallsAtError {
		o.Violate("C09", "continues-after-error", site, step, "%s: %s %s answered %d and then made %d more storage calls", desc, ex.Method, ex.Path, ex.Status, ex.CallsAtEnd-ex.CallsAtError)
	}
}

// runFaultSweep enumerates the storage-call positions of one flow on one router. prop selects the oracle: C10 (fail
// closed) or C09 (answers once, does not carry on after an error answer).
func runFaultSweep(t *testing.T, spec kernel.Spec, prop string, idx int) *kernel.Outcome {
	nf := len(faultFlows)
	flow := faultFlows[idx%nf]
	judge := func(o *kernel.Outcome, site string, step int, desc string, r *world.Resp, redirect string, introspection bool) {
		if prop == "C09" {
			checkAnswersOnce(o, site, step, desc, r)
			return
		}
		checkFailClosed(o, prop, site, step, desc, r, redirect, introspection)
	}
	router := []string{"A", "B"}[idx/nf]
	if spec.Params["flow"] != "" {
		for _, f := range faultFlows {
			if f.name == spec.Params["flow"] {
				flow = f
			}
		}
	}
	if spec.Params["router"] != "" {
		router = spec.Params["router"]
	}
	kinds := c10Kinds
	out := kernel.NewOutcome(spec)
	out.StepIDs = []int{}
	site := "router" + router + "/" + flow.name
	// one case = one fresh world; case 0 is the fault-free pilot
	type plan struct {
		method string         // non-empty: every call of this storage method fails
		set    map[int]string // call number -> kind (multi-fault sequences)
		id     int
		label  string
	}
	var runPlan func(k int, kind string, pl *plan) (o *kernel.Outcome, calls int, methods []string, applicable bool)
	runCase := func(k int, kind string) (o *kernel.Outcome, calls int, methods []string, applicable bool) {
		return runPlan(k, kind, nil)
	}
	runPlan = func(k int, kind string, pl *plan) (o *kernel.Outcome, calls int, methods []string, applicable bool) {
		o = inBubble(t, spec, func(o *kernel.Outcome, tape *kernel.Tape) {
			// optional storage capabilities alternate with the cycle through the flows (not with the seed itself, whose
			// residues are tied to the flow index: a capability would then never meet some flows)
			cyc := spec.Seed / uint64(len(faultFlows)*2)
			caps := world.Caps{ClientCredentials: true, TokenExchange: true, Device: true, FromRequest: cyc%2 == 0, EndFromRequest: cyc%3 != 1, ExchangeVerifier: cyc%2 == 1}
			w, err := world.NewStd(o, tape, world.StdOptions{Router: router, ForceCaps: &caps, AllGrants: true, ForceConfig: func(c *op.Config) {
				c.AuthMethodPrivateKeyJWT, c.GrantTypeRefreshToken = true, true
			}})
			if err != nil {
				o.Infra = "world: " + err.Error()
				return
			}
			if !flow.needs(w) {
				return
			}
			applicable = true
			b := w.Net.NewBrowser("b1")
			target, redirect, err := flow.prepare(w, b, tape.Sub("flow"))
			if err != nil {
				o.Logf("prepare %s: %v", flow.name, err)
				o.Probe("prepare-failed")
				applicable = false
				return
			}
			warmUp(w, w.Net.NewBrowser("warm"))
			if idempotentFlows[flow.name] {
				target()
				o.Probe("target-warm-run")
			}
			// time passes between the history and the target request (the same pause in the pilot and in every case of one
			// sweep): whatever the provider remembers for a while may or may not have lapsed
			if d := []time.Duration{0, time.Second, 11 * time.Second, 31 * time.Second}[tape.Sub("pause").Int(4)]; d > 0 {
				time.Sleep(d)
				o.SimSeconds += d.Seconds()
			}
			first := w.Net.Len()
			fired := false
			firedAt := ""
			if pl != nil {
				w.Store.Inject = func(callNo int, method string, reqID int) string {
					if reqID <= first {
						return ""
					}
					if pl.method != "" && method == pl.method {
						fired = true
						firedAt = method
						return kind
					}
					if kd, ok := pl.set[callNo]; ok {
						fired = true
						if firedAt == "" {
							firedAt = method
						}
						return kd
					}
					return ""
				}
			} else if k > 0 {
				w.Store.Inject = func(callNo int, method string, reqID int) string {
					if reqID > first && callNo == k && !fired {
						if kind == world.FaultTorn && !tornMethods[method] {
							return ""
						}
						fired = true
						return kind
					}
					return ""
				}
			}
			r := target()
			if r.Ex != nil {
				calls = r.Ex.CallsAtEnd
				for _, j := range w.Store.JournalFor(r.Ex.ID) {
					methods = append(methods, j.Method)
				}
			}
			if pl != nil {
				if !fired {
					return
				}
				o.Fault("multi:" + pl.label)
				desc := fmt.Sprintf("%s router %s: %s", flow.name, router, pl.label)
				o.Logf("%s -> %d", desc, statusOf(r))
				judge(o, site+"/"+firedAt, pl.id, desc, r, redirect, flow.name == "introspect")
				return
			}
			if k == 0 {
				if r.Ex != nil && r.Ex.Panic != "" {
					o.Probe("pilot-panicked")
				}
				return
			}
			if !fired {
				return
			}
			o.Fault(kind)
			desc := fmt.Sprintf("%s router %s: call %d (%s) answered %s", flow.name, router, k, methodAt(w, r, k), kind)
			o.Logf("%s -> %d", desc, statusOf(r))
			judge(o, site+"/"+methodAt(w, r, k), k*8+kindIndex(kind), desc, r, redirect, flow.name == "introspect")
			if prop == "C09" {
				// what the failure leaves behind: the fault is over, a moment passes, and ordinary well-formed requests
				// follow (a token for a service client, a complete login, the key set, the target's endpoint again).
				// Whatever the failed request made the provider remember, these are answered, not crashed into.
				w.Store.Inject = nil
				ac := tape.Sub("aftermath")
				if d := []time.Duration{0, 0, time.Second, 3 * time.Second, time.Hour}[ac.Int(5)]; d > 0 {
					time.Sleep(d)
				}
				site2 := site + "/after:" + methodAt(w, r, k)
				after := func(what string, r2 *world.Resp) {
					o.Probe("requests-after-the-fault-was-over")
					if r2 != nil {
						checkAnswersOnce(o, site2, k*8+kindIndex(kind), fmt.Sprintf("%s; then, fault over, %s", desc, what), r2)
					}
				}
				web := w.Store.Clients["web"]
				oldTT := web.TokenType
				web.TokenType = op.AccessTokenTypeJWT
				after("client_credentials for web", w.PostForm("/oauth/token", url.Values{"grant_type": {"client_credentials"}, "scope": {"api"}}, w.RightCreds("web")))
				web.TokenType = oldTT
				b2 := w.Net.NewBrowser("after")
				n0 := w.Net.Len()
				s2, _ := codeFlow(w, b2, flowOpts{client: "web", scopes: []string{oidc.ScopeOpenID, oidc.ScopeEmail, oidc.ScopeOfflineAccess}})
				for _, ex := range w.Net.Since(n0) {
					if ex.Panic != "" {
						after("a login of web ("+ex.Method+" "+ex.Path+")", &world.Resp{Ex: ex})
					}
				}
				after("keys", rawGet(w, "/keys"))
				if s2 != nil && s2.tokens != nil && s2.tokens.RefreshToken != "" {
					after("a refresh", w.PostForm("/oauth/token", url.Values{"grant_type": {"refresh_token"}, "refresh_token": {s2.tokens.RefreshToken}}, w.RightCreds("web")))
				}
			}
		})
		return
	}
	pilot, n, methods, ok := runCase(0, "")
	if pilot.Infra != "" {
		out.Infra = pilot.Infra
		return out
	}
	for k, v := range pilot.Probes {
		out.Probes[k] += v
	}
	if !ok {
		out.Probe("flow-not-applicable-in-this-configuration")
		return out
	}
	out.Logf("pilot %s router %s: %d storage calls: %v", flow.name, router, n, methods)
	for k := 1; k <= n; k++ {
		for ki, kind := range kinds {
			id := k*8 + ki
			if spec.KeepSet && !containsInt(spec.Keep, id) {
				continue
			}
			o, _, _, _ := runCase(k, kind)
			if o.Infra != "" {
				out.Infra = o.Infra
				return out
			}
			if len(o.Faults) == 0 {
				continue // torn on a method without out-parameter, or the call was not reached
			}
			out.StepIDs = append(out.StepIDs, id)
			out.Steps++
			out.Trace = append(out.Trace, fmt.Sprintf("%s/%s/k=%d/%s", router, flow.name, k, kind))
			out.Distinct(fmt.Sprintf("%s/%s/%d/%s/%s", router, flow.name, k, kind, methods[min(k, len(methods))-1]))
			for f, v := range o.Faults {
				out.Faults[f] += v
			}
			if v := o.Probes["requests-after-the-fault-was-over"]; v > 0 {
				out.ProbeN("requests-after-the-fault-was-over", v)
			}
			out.Violations = append(out.Violations, o.Violations...)
			out.Log = append(out.Log, o.Log...)
			out.SimSeconds += o.SimSeconds
		}
	}
	if slices.Contains(methods, "StoreDeviceAuthorization") && (!spec.KeepSet || containsInt(spec.Keep, 15000)) {
		// the documented answer "this user code is taken", given every time (a tiny or exhausted code space): in every tier
		o, _, _, _ := runPlan(0, world.FaultDuplicate, &plan{method: "StoreDeviceAuthorization", id: 15000, label: "every StoreDeviceAuthorization call answers " + world.FaultDuplicate})
		if o.Infra != "" {
			out.Infra = o.Infra
			return out
		}
		if len(o.Faults) > 0 {
			out.StepIDs = append(out.StepIDs, 15000)
			out.Steps++
			out.Trace = append(out.Trace, fmt.Sprintf("%s/%s/always:StoreDeviceAuthorization:%s", router, flow.name, world.FaultDuplicate))
			out.Distinct(fmt.Sprintf("%s/%s/always:StoreDeviceAuthorization:%s", router, flow.name, world.FaultDuplicate))
			for f, v := range o.Faults {
				out.Faults[strings.SplitN(f, ":", 2)[0]] += v
			}
			out.Violations = append(out.Violations, o.Violations...)
			out.Log = append(out.Log, o.Log...)
			out.Probe("user-code-always-taken")
		}
	}
	if os.Getenv("VERIF_TIER") == "thorough" || spec.Params["extras"] != "" || spec.KeepSet {
		merge := func(o *kernel.Outcome, id int, label string) {
			if len(o.Faults) == 0 {
				return
			}
			out.StepIDs = append(out.StepIDs, id)
			out.Steps++
			out.Trace = append(out.Trace, fmt.Sprintf("%s/%s/%s", router, flow.name, label))
			out.Distinct(fmt.Sprintf("%s/%s/%s", router, flow.name, label))
			for f, v := range o.Faults {
				out.Faults[strings.SplitN(f, ":", 2)[0]] += v
			}
			out.Violations = append(out.Violations, o.Violations...)
			out.Log = append(out.Log, o.Log...)
		}
		// every call of one named storage method fails
		seen := map[string]bool{}
		mi := 0
		for _, m := range methods {
			if seen[m] {
				continue
			}
			seen[m] = true
			for ki, kind := range []string{world.FaultError, world.FaultTimeout, world.FaultCanceled} {
				id := 10000 + mi*3 + ki
				mi2 := mi
				_ = mi2
				if spec.KeepSet && !containsInt(spec.Keep, id) {
					continue
				}
				o, _, _, _ := runPlan(0, kind, &plan{method: m, id: id, label: "every " + m + " call answers " + kind})
				if o.Infra != "" {
					out.Infra = o.Infra
					return out
				}
				merge(o, id, "always:"+m+":"+kind)
			}
			mi++
		}
		// seeded two- and three-fault sequences
		seq := kernel.NewTape(spec.Seed, nil).Sub("c10-sequences")
		for j := 0; j < 8 && n >= 2; j++ {
			id := 20000 + j
			set := map[int]string{}
			for len(set) < min(2+j%2, n) {
				set[1+seq.Int(n)] = []string{world.FaultError, world.FaultTimeout, world.FaultCanceled}[seq.Int(3)]
			}
			if spec.KeepSet && !containsInt(spec.Keep, id) {
				continue
			}
			var ks []string
			for _, k := range sortedIntKeys(set) {
				ks = append(ks, fmt.Sprintf("%d=%s", k, set[k]))
			}
			o, _, _, _ := runPlan(0, "", &plan{set: set, id: id, label: "calls " + strings.Join(ks, ",") + " fail"})
			if o.Infra != "" {
				out.Infra = o.Infra
				return out
			}
			merge(o, id, "seq:"+strings.Join(ks, ","))
		}
	}
	out.Nontrivial = out.Steps > 0
	out.Probe("flow:" + flow.name + "/" + router)
	out.Sample = map[string]any{"seed": spec.Seed, "flow": flow.name, "router": router, "storage_calls_in_target": methods, "cases": out.Trace}
	return out
}

func methodAt(w *world.World, r *world.Resp, k int) string {
	if r.Ex == nil {
		return "?"
	}
	j := w.Store.JournalFor(r.Ex.ID)
	if k-1 < len(j) {
		return j[k-1].Method
	}
	return "?"
}

func statusOf(r *world.Resp) int {
	if r.Ex != nil {
		return r.Ex.Status
	}
	return r.Status
}

// c10Kinds: the ways a storage call fails in the single-fault sweep: a plain error, a stall until the deadline, a torn
// answer, a cancellation, the storage's reused OAuth error value, and an OAuth error wrapped by a layer above it.
var c10Kinds = []string{world.FaultError, world.FaultTimeout, world.FaultTorn, world.FaultCanceled, world.FaultSentinel, world.FaultWrapped}

func kindIndex(kind string) int {
	for i, k := range c10Kinds {
		if k == kind {
			return i
		}
	}
	return 2
}

func containsInt(xs []int, x int) bool {
	for _, y := range xs {
		if y == x {
			return true
		}
	}
	return false
}

func sortedIntKeys(m map[int]string) []int {
	ks := make([]int, 0, len(m))
	for k := range m {
		ks = append(ks, k)
	}
	sort.Ints(ks)
	return ks
}
