//go:build !race

package props

const raceEnabled = false
