package props

import (
	"context"
	"encoding/json"
	"errors"
	"fmt"
	"net/url"
	"os"
	"slices"
	"strings"
	"testing"
	"time"

	jose "github.com/go-jose/go-jose/v4"
	"github.com/zitadel/oidc/v3/pkg/client"
	"github.com/zitadel/oidc/v3/pkg/client/profile"
	"github.com/zitadel/oidc/v3/pkg/client/rp"
	"github.com/zitadel/oidc/v3/pkg/client/rs"
	"github.com/zitadel/oidc/v3/pkg/client/tokenexchange"
	"github.com/zitadel/oidc/v3/pkg/oidc"
	"github.com/zitadel/oidc/v3/pkg/op"

	"verif/sim/kernel"
	"verif/sim/world"
)

// C14: JWT assertions and request objects count only when signed by the named client.

type c14 struct {
	w         *world.World
	o         *kernel.Outcome
	step      int
	b         *world.Browser
	tw        *tokenWorld
	jwtTokens []*grantedToken // tokens of the private_key_jwt client
	// otherTokens: a live access token per other client (for requests whose form names that client)
	otherTokens map[string]*grantedToken
}

func (c *c14) viol(rule, site, format string, a ...any) {
	c.o.Violate("C14", rule, "router"+c.w.Router+"/"+site, c.step, format, a...)
}

// genAssertion draws an assertion; most dimensions are right, one or two deviate.
func (c *c14) genAssertion(ch *kernel.Chooser) presentation {
	w := c.w
	now := time.Now()
	iss, sub, signer, kid := "jwt", "jwt", "jwt", ""
	aud := []string{w.Issuer}
	iat, exp := now, now.Add(time.Hour)
	label := "right"
	for d := []int{0, 1, 1, 1, 2}[ch.Int(5)]; d > 0; d-- {
		switch ch.Int(12) {
		case 0:
			iss, sub = "web", "web" // a client that has no key: names another client, signed with jwt's key
			label += "+iss-other-client"
		case 1:
			sub = "someone-else"
			label += "+sub-ne-iss"
		case 2:
			signer = ""
			kid = "jwt-key-1"
			label += "+foreign-key-same-kid"
		case 3:
			kid = "other-kid"
			label += "+wrong-kid"
		case 4:
			auds := [][]string{{"https://other.sim"}, {}, {w.Issuer + "/oauth/token"}, {"https://other.sim", w.Issuer}}
			for _, other := range w.Issuers {
				if other != w.Issuer { // made for another tenant of the same provider: not this issuer
					auds = append(auds, []string{other}, []string{other})
				}
			}
			aud = auds[ch.Int(len(auds))]
			label += fmt.Sprintf("+aud%v", aud)
		case 5:
			iat = now.Add([]time.Duration{-time.Hour - 10*time.Second, -time.Hour + 10*time.Second, -2 * time.Hour, -time.Hour - 1*time.Second}[ch.Int(4)])
			exp = now.Add(time.Hour)
			label += "+old-iat"
		case 6:
			iat = now.Add([]time.Duration{10 * time.Second, 10 * time.Minute, 3 * time.Second, time.Second}[ch.Int(4)])
			exp = iat.Add(time.Hour)
			label += "+future-iat"
		case 7:
			exp = now.Add([]time.Duration{-10 * time.Second, -time.Minute, -3 * time.Second, 0, time.Second}[ch.Int(5)])
			iat = now.Add(-30 * time.Minute)
			label += "+expired"
		case 8:
			iss, sub = "nobody", "nobody"
			label += "+unknown-issuer"
		case 9:
			iss, sub, signer = "web", "web", ""
			label += "+keyless-client-foreign-key"
		case 10: // the other client that authenticates by assertion signs an assertion naming this one
			signer = "jwt2"
			if ch.Bool(1, 2) {
				kid = "jwt-key-1"
			}
			label += "+signed-by-the-other-assertion-client"
		case 11: // ... or this client names the other one and signs with its own key (under either kid)
			iss, sub = "jwt2", "jwt2"
			if ch.Bool(1, 2) {
				kid = "jwt2-key-1"
			}
			label += "+names-the-other-assertion-client"
		}
	}
	p := mkAssertion(w, iss, sub, signer, kid, aud, iat, exp)
	p.label = label
	return p
}

func (c *c14) modelValid(p presentation) (valid, undecided bool) {
	return assertionValid(c.w, p, time.Now(), time.Hour, time.Second)
}

// useAssertion presents a generated assertion at one of the surfaces and checks the outcome.
func (c *c14) useAssertion(ch *kernel.Chooser) string {
	w := c.w
	p := c.genAssertion(ch)
	valid, und := c.modelValid(p)
	surface := ch.Int(5)
	bodyNote := ""
	if ch.Bool(1, 3) {
		// the form additionally names another registered client: the identity is the assertion's issuer all the same
		p.creds.BodyClientID = ch.Pick("web", "post", "hyb", "native")
		bodyNote = " [form says client_id=" + p.creds.BodyClientID + "]"
		c.o.Probe("assertion-with-another-client_id-in-the-form")
	}
	var accepted bool
	var identity string
	var desc string
	var r *world.Resp
	switch surface {
	case 0: // jwt-bearer grant
		r = w.PostForm("/oauth/token", url.Values{"grant_type": {string(oidc.GrantTypeBearer)}, "assertion": {p.creds.Assertion}, "scope": {"openid"}}, world.Creds{Mode: "none"})
		desc = "jwt-bearer"
		if tr, ok := isTokenSuccess(r); ok {
			accepted = true
			if _, sub, _, dok := w.DecodeAccess(tr.AccessToken); dok {
				identity = sub
			}
		}
	case 1: // client authentication at introspection
		if len(c.jwtTokens) == 0 {
			return "assertion@introspect: no token of the jwt client"
		}
		g := c.jwtTokens[ch.Int(len(c.jwtTokens))]
		r = w.PostForm("/oauth/introspect", url.Values{"token": {g.access}}, p.creds)
		desc = "client-assertion@introspect"
		var m map[string]any
		if r.Status == 200 && jsonUnmarshal(r.Body, &m) == nil {
			if a, _ := m["active"].(bool); a {
				accepted, identity = true, "jwt" // active:true requires the caller to be in the audience, which only names jwt
			}
		}
	case 2: // client authentication at revocation: an effective revocation is the success
		if len(c.jwtTokens) == 0 {
			return "assertion@revoke: no token of the jwt client"
		}
		g := c.jwtTokens[ch.Int(len(c.jwtTokens))]
		owner := "jwt"
		if bc := p.creds.BodyClientID; bc != "" && ch.Bool(1, 2) {
			// the token of the client that the form names: only its owner may revoke it, so an effective revocation
			// tells who the endpoint took the caller for
			if c.otherTokens == nil {
				c.otherTokens = map[string]*grantedToken{}
			}
			og := c.otherTokens[bc]
			if id, _, _, ok := w.DecodeAccess(accessOf(og)); og == nil || !ok || !w.Store.TokenLive(id) {
				og = nil
				if usableClient(w, bc) {
					if s, err := codeFlow(w, c.b, flowOpts{client: bc, scopes: []string{oidc.ScopeOpenID}}); err == nil {
						og = &grantedToken{access: s.tokens.AccessToken, refresh: s.tokens.RefreshToken, client: bc, subject: "u1"}
						c.otherTokens[bc] = og
					}
				}
			}
			if og != nil {
				g, owner = og, bc
				c.o.Probe("assertion-next-to-the-form's-client-at-that-client's-token")
			}
		}
		id, _, _, _ := w.DecodeAccess(g.access)
		before := w.Store.TokenLive(id)
		r = w.PostForm("/revoke", url.Values{"token": {g.access}, "token_type_hint": {"access_token"}}, p.creds)
		desc = "client-assertion@revoke(token of " + owner + ")"
		if before && !w.Store.TokenLive(id) {
			accepted, identity = true, owner
		}
	case 3: // client authentication at device authorization
		r = w.PostForm("/device_authorization", url.Values{"scope": {"openid"}}, p.creds)
		desc = "client-assertion@device_authorization"
		var da struct {
			DeviceCode string `json:"device_code"`
		}
		if r.Status == 200 && jsonUnmarshal(r.Body, &da) == nil && da.DeviceCode != "" {
			accepted = true
			if d := w.Store.Devices[da.DeviceCode]; d != nil {
				identity = d.State.ClientID
			}
		}
	default: // client authentication for the refresh grant
		var g *grantedToken
		for _, x := range c.jwtTokens {
			if x.refresh != "" && w.Store.RefreshLive(x.refresh) {
				g = x
			}
		}
		if g == nil {
			return "assertion@refresh: no refresh token of the jwt client"
		}
		r = w.PostForm("/oauth/token", url.Values{"grant_type": {"refresh_token"}, "refresh_token": {g.refresh}}, p.creds)
		desc = "client-assertion@refresh"
		if tr, ok := isTokenSuccess(r); ok {
			accepted, identity = true, "jwt"
			g.access, g.refresh, g.idToken = tr.AccessToken, tr.RefreshToken, tr.IDToken
		}
	}
	desc = fmt.Sprintf("%s with assertion %s%s (model valid=%v undecided=%v) -> %d accepted=%v", desc, p.label, bodyNote, valid, und, statusOf(r), accepted)
	if panicProbe(c.o, r) || r.Err != nil {
		return desc
	}
	if accepted {
		c.o.Probe("assertion-accepted")
		if !und && !valid {
			c.viol("invalid-assertion-accepted", surfaceName(surface)+"/"+strings.TrimPrefix(p.label, "right+"), "%s: the assertion is not valid for the client it names", desc)
		}
		if identity != "" && identity != p.assertIss {
			c.viol("identity", surfaceName(surface), "%s: the authenticated identity is %q, the assertion's issuer is %q", desc, identity, p.assertIss)
		}
	} else {
		c.o.Probe("assertion-refused")
		if p.label == "right" && surface == 0 {
			c.o.Probe("right-assertion-refused")
			c.o.Logf("  right assertion refused: %d %s", r.Status, firstLine(r.Body))
		}
	}
	return desc
}

// delegation: the statement's "(unless a custom subject check is configured)": a verifier built through the public API
// (op.NewJWTProfileVerifier with op.SubjectCheck) admits iss != sub; the key must still be the issuer's and the
// authenticated identity is still the issuer.
func (c *c14) delegation(ch *kernel.Chooser) string {
	w := c.w
	now := time.Now()
	iss := ch.Pick("jwt", "jwt", "web", "nobody", "jwt2")
	sub := ch.Pick("jwt", "some-user", "web", "hyb", "jwt2", "jwt2")
	signer := ch.Pick("jwt", "jwt", "jwt", "", "jwt2")
	kid := ""
	if ch.Bool(1, 5) {
		kid = "other-kid"
	}
	// the verifier is built through the public API with its own limits: maximum age of the assertion and the offset
	// by which its clock runs ahead; the assertion's times are placed around the limits these settings imply
	maxAge := []time.Duration{time.Hour, 10 * time.Minute}[ch.Int(2)]
	offset := []time.Duration{0, time.Second, time.Minute, 5 * time.Minute}[ch.Int(4)]
	iat, exp := now, now.Add(time.Hour)
	timing := "fresh"
	switch ch.Int(6) {
	case 0: // expires inside the offset window: with the clock offset ahead it is already expired
		exp, timing = now.Add(offset/2), "exp-inside-offset"
	case 1:
		exp, timing = now.Add(-10*time.Second), "expired-10s-ago"
	case 2:
		exp, timing = now.Add(offset+10*time.Second), "exp-just-beyond-offset"
	case 3:
		iat, timing = now.Add(-maxAge-10*time.Second), "older-than-max-age"
	case 4:
		iat, exp, timing = now.Add(offset+10*time.Second), now.Add(2*time.Hour), "issued-beyond-offset-in-future"
	}
	p := mkAssertion(w, iss, sub, signer, kid, []string{w.Issuer}, iat, exp)
	v := op.NewJWTProfileVerifier(w.OP.Storage, w.Issuer, maxAge, offset, op.SubjectCheck(func(*oidc.JWTTokenRequest) error { return nil }))
	req, err := op.VerifyJWTAssertion(context.Background(), p.creds.Assertion, v)
	// reference: as assertionValid (key of the issuer, audience, times under these limits), with the sub = iss
	// conjunct dropped
	cl := w.Store.Clients[iss]
	valid := cl != nil && cl.Key != nil && p.assertKeyOf == iss && p.assertKid == cl.Key.KeyID
	undecided := false
	if valid {
		q := p
		q.assertSub = q.assertIss
		valid, undecided = assertionValid(w, q, now, maxAge, offset)
	}
	desc := fmt.Sprintf("delegating verifier(maxAge=%v offset=%v): iss=%s sub=%s signed-by=%q kid=%q times=%s -> accepted=%v (model valid=%v undecided=%v)", maxAge, offset, iss, sub, signer, p.assertKid, timing, err == nil, valid, undecided)
	if undecided {
		return desc
	}
	c.o.Probe("delegation-cases")
	if err == nil {
		c.o.Probe("delegation-accepted")
		if !valid {
			c.viol("invalid-assertion-accepted", "delegating-verifier", "%s: accepted although it is not valid under this verifier (key of the issuer, audience, expiry, age)", desc)
		}
		if req.Issuer != iss {
			c.viol("identity", "delegating-verifier", "%s: identity %q", desc, req.Issuer)
		}
		// the library's own authentication functions over an exchanger that hands out this verifier (what an application
		// with delegation configures): whoever the subject is, the client that authenticated is the issuer
		ex := delegatingExchanger{Provider: w.OP.Provider, v: v}
		if id, aerr := op.ClientJWTAuth(context.Background(), oidc.ClientAssertionParams{ClientAssertion: p.creds.Assertion, ClientAssertionType: oidc.ClientAssertionTypeJWTAssertion}, ex); aerr == nil && id != iss {
			c.viol("identity", "delegating-verifier/ClientJWTAuth", "%s: ClientJWTAuth authenticated %q", desc, id)
		}
		if cl, aerr := op.AuthorizePrivateJWTKey(context.Background(), p.creds.Assertion, ex); aerr == nil {
			c.o.Probe("delegated-assertions-authenticating-a-client")
			if cl.GetID() != iss {
				c.viol("identity", "delegating-verifier/AuthorizePrivateJWTKey", "%s: AuthorizePrivateJWTKey authenticated client %q", desc, cl.GetID())
			}
		}
	} else if valid {
		c.viol("valid-delegation-rejected", "delegating-verifier", "%s: a valid delegated assertion (key of the issuer, other subject) was rejected: %v", desc, err)
	}
	return desc
}

// delegatingExchanger is a provider whose JWT profile verifier is the application's own (public API: the interfaces
// op.JWTAuthorizationGrantExchanger and op.ClientJWTProfile).
type delegatingExchanger struct {
	*op.Provider
	v *op.JWTProfileVerifier
}

func (d delegatingExchanger) JWTProfileVerifier(context.Context) *op.JWTProfileVerifier { return d.v }

// concurrentAssertions: ONE verifier object built through the public API (as an application that keeps it in a field
// does) checks several assertions at the same time; the seeded scheduler switches between them at the storage's key
// lookup and inside the application's subject check. Every assertion must be judged as it would be on its own: the
// key is looked up for the issuer that this assertion names.
func (c *c14) concurrentAssertions(ch *kernel.Chooser) string {
	w := c.w
	now := time.Now()
	// a second client with a registered key for the duration of the group
	other := ch.Pick("web", "hyb")
	oc := w.Store.Clients[other]
	savedKey, hadKey := oc.Key, w.ClientKeys[other]
	k := world.FixtureKey("rsa", 5)
	k.KeyID = other + "-key-1"
	pub := k.Public()
	oc.Key = &pub
	w.ClientKeys[other] = k
	defer func() {
		oc.Key = savedKey
		if hadKey.Key == nil {
			delete(w.ClientKeys, other)
		} else {
			w.ClientKeys[other] = hadKey
		}
	}()
	parkers := map[int64]func(){}
	v := op.NewJWTProfileVerifier(w.OP.Storage, w.Issuer, time.Hour, 0, op.SubjectCheck(func(r *oidc.JWTTokenRequest) error {
		if f := parkers[r.ExpiresAt.AsTime().Unix()]; f != nil {
			f()
		}
		if r.Issuer != r.Subject {
			return errors.New("delegation is not allowed here")
		}
		return nil
	}))
	type asOp struct {
		groupOp
		iss, kind string
		valid     bool
		identity  string
	}
	kinds := []string{"valid-jwt", "valid-other", "forged-jwt-by-other", "forged-other-by-jwt", "valid-jwt", "valid-other"}
	n := 2 + ch.Int(2)
	var ops []*asOp
	for i := 0; i < n; i++ {
		kind := kinds[ch.Int(len(kinds))]
		exp := now.Add(time.Hour + time.Duration(i+1)*time.Second) // unique: tells the subject check which task it runs in
		var p presentation
		a := &asOp{kind: kind}
		switch kind {
		case "valid-jwt":
			p, a.iss, a.valid = mkAssertion(w, "jwt", "jwt", "jwt", "", []string{w.Issuer}, now, exp), "jwt", true
		case "valid-other":
			p, a.iss, a.valid = mkAssertion(w, other, other, other, "", []string{w.Issuer}, now, exp), other, true
		case "forged-jwt-by-other": // names jwt, signed with the other client's key under that client's kid
			p, a.iss = mkAssertion(w, "jwt", "jwt", other, "", []string{w.Issuer}, now, exp), "jwt"
		default:
			p, a.iss = mkAssertion(w, other, other, "jwt", "", []string{w.Issuer}, now, exp), other
		}
		a.label = kind
		assertion := p.creds.Assertion
		expKey := exp.Unix()
		a.do = func(ctx context.Context) *world.Resp {
			parkers[expKey] = func() { parkHere(ctx, "app.subject-check") }
			req, err := op.VerifyJWTAssertion(ctx, assertion, v)
			if err != nil {
				return &world.Resp{Status: 400, Body: err.Error()}
			}
			a.identity = req.Issuer
			return &world.Resp{Status: 200}
		}
		ops = append(ops, a)
	}
	gops := make([]*groupOp, len(ops))
	for i, a := range ops {
		gops[i] = &a.groupOp
	}
	trace := runGroup(w, c.o, fmt.Sprintf("assertions:%d", c.step), gops, 0)
	c.o.Probe("concurrent-assertion-groups")
	c.o.Trace = append(c.o.Trace, "  schedule: "+strings.Join(trace, ","))
	var parts []string
	for _, a := range ops {
		if a.resp == nil {
			parts = append(parts, a.kind+"=no-answer")
			continue
		}
		parts = append(parts, fmt.Sprintf("%s[%d,%d]=%d", a.kind, a.inv, a.ret, a.resp.Status))
	}
	desc := fmt.Sprintf("one shared verifier, %d assertions at once (second keyed client %s): %s", n, other, strings.Join(parts, " "))
	for _, a := range ops {
		if a.resp == nil {
			continue
		}
		accepted := a.resp.Status == 200
		switch {
		case accepted && !a.valid:
			c.viol("invalid-assertion-accepted", "shared-verifier/"+a.kind, "%s: the assertion naming %q but signed with another client's key was accepted", desc, a.iss)
		case accepted && a.identity != a.iss:
			c.viol("identity", "shared-verifier/"+a.kind, "%s: identity %q for an assertion of %q", desc, a.identity, a.iss)
		case !accepted && a.valid:
			c.viol("valid-assertion-rejected", "shared-verifier/"+a.kind, "%s: a valid assertion of %q was rejected while others were being verified: %s", desc, a.iss, firstLine(a.resp.Body))
		case accepted:
			c.o.Probe("concurrent-assertions-accepted")
		default:
			c.o.Probe("concurrent-forgeries-rejected")
		}
	}
	return desc
}

func accessOf(g *grantedToken) string {
	if g == nil {
		return ""
	}
	return g.access
}

func surfaceName(i int) string {
	return []string{"jwt-bearer", "introspect", "revoke", "device_authorization", "refresh"}[i]
}

// helpers: assertions produced by the library's own client helpers are accepted by the provider.
func (c *c14) helperInterop(ch *kernel.Chooser) string {
	w := c.w
	ck := w.ClientKeys["jwt"]
	hc := w.Net.Client("helper", nil, false)
	ctx := context.Background()
	which := ch.Int(10)
	name := []string{"profile.TokenSource", "client.SignedJWTProfileAssertion+jwt-bearer", "rs.NewResourceServerJWTProfile+Introspect", "tokenexchange.JWTProfile", "client assertion at code exchange",
		"oidc.GenerateJWTProfileToken(NewJWTProfileAssertion)", "oidc.NewJWTProfileAssertionStringFromFileData", "profile.NewJWTProfileTokenSourceFromKeyFileData", "rs.NewResourceServerFromKeyFile+Introspect",
		"rp.SignerFromKeyFile+client.SignedJWTProfileAssertion"}[which]
	var err error
	applicable := true
	// the key file formats the helpers read (service account: userId; application: clientId)
	keyJSON := func(kind string) []byte {
		m := map[string]string{"type": kind, "keyId": ck.KeyID, "key": string(rsaPEM(ck))}
		if kind == "application" {
			m["clientId"] = "jwt"
		} else {
			m["userId"] = "jwt"
		}
		b, _ := json.Marshal(m)
		return b
	}
	// an assertion goes where the helper's user would send it: as jwt-bearer grant, or as client authentication
	present := func(a string) error {
		if ch.Bool(1, 2) || len(c.jwtTokens) == 0 {
			r := w.PostForm("/oauth/token", url.Values{"grant_type": {string(oidc.GrantTypeBearer)}, "assertion": {a}}, world.Creds{Mode: "none"})
			if _, ok := isTokenSuccess(r); !ok {
				return fmt.Errorf("jwt-bearer grant: status %d %s", r.Status, firstLine(r.Body))
			}
			return nil
		}
		if !w.Conf.AuthMethodPrivateKeyJWT {
			applicable = false
			return nil
		}
		r := w.PostForm("/oauth/introspect", url.Values{"token": {c.jwtTokens[0].access}}, world.Creds{Mode: "assertion", Assertion: a})
		if r.Status != 200 {
			return fmt.Errorf("client assertion at introspection: status %d %s", r.Status, firstLine(r.Body))
		}
		return nil
	}
	switch which {
	case 5:
		var a string
		var opts []oidc.AssertionOption
		if ch.Bool(1, 3) {
			opts = append(opts, oidc.JWTProfileCustomClaim("purpose", "sim"))
		}
		a, err = oidc.GenerateJWTProfileToken(oidc.NewJWTProfileAssertion("jwt", ck.KeyID, []string{w.Issuer}, rsaPEM(ck), opts...))
		if err == nil {
			err = present(a)
		}
	case 6:
		var a string
		a, err = oidc.NewJWTProfileAssertionStringFromFileData(keyJSON("serviceaccount"), []string{w.Issuer})
		if err == nil {
			err = present(a)
		}
	case 7:
		var ts profile.TokenSource
		ts, err = profile.NewJWTProfileTokenSourceFromKeyFileData(ctx, w.Issuer, keyJSON("serviceaccount"), []string{"openid"}, profile.WithHTTPClient(hc))
		if err == nil {
			_, err = ts.TokenCtx(ctx)
		}
	case 8:
		if len(c.jwtTokens) == 0 {
			return "helper interop: no token"
		}
		f, ferr := os.CreateTemp("", "verif-keyfile-*.json")
		if ferr != nil {
			return "helper interop: no temporary file"
		}
		f.Write(keyJSON("application"))
		f.Close()
		defer os.Remove(f.Name())
		var server rs.ResourceServer
		server, err = rs.NewResourceServerFromKeyFile(ctx, w.Issuer, f.Name(), rs.WithClient(hc))
		if err == nil {
			var resp *oidc.IntrospectionResponse
			resp, err = rs.Introspect[*oidc.IntrospectionResponse](ctx, server, c.jwtTokens[0].access)
			if err == nil && resp == nil {
				err = fmt.Errorf("nil response")
			}
		}
	case 9:
		var signer jose.Signer
		if ch.Bool(1, 2) {
			signer, err = rp.SignerFromKeyFile(keyJSON("application"))()
		} else {
			signer, err = rp.SignerFromKeyAndKeyID(rsaPEM(ck), ck.KeyID)()
		}
		if err == nil {
			var a string
			a, err = client.SignedJWTProfileAssertion("jwt", []string{w.Issuer}, time.Hour, signer)
			if err == nil {
				err = present(a)
			}
		}
	case 0:
		var ts profile.TokenSource
		ts, err = profile.NewJWTProfileTokenSource(ctx, w.Issuer, "jwt", ck.KeyID, rsaPEM(ck), []string{"openid"}, profile.WithHTTPClient(hc))
		if err == nil {
			_, err = ts.TokenCtx(ctx)
		}
	case 1:
		signer, _ := jose.NewSigner(jose.SigningKey{Algorithm: jose.RS256, Key: jose.JSONWebKey{Key: ck.Key, KeyID: ck.KeyID}}, (&jose.SignerOptions{}).WithType("JWT"))
		var a string
		a, err = client.SignedJWTProfileAssertion("jwt", []string{w.Issuer}, time.Hour, signer)
		if err == nil {
			r := w.PostForm("/oauth/token", url.Values{"grant_type": {string(oidc.GrantTypeBearer)}, "assertion": {a}}, world.Creds{Mode: "none"})
			if _, ok := isTokenSuccess(r); !ok {
				err = fmt.Errorf("status %d %s", r.Status, firstLine(r.Body))
			}
		}
	case 2:
		if len(c.jwtTokens) == 0 {
			return "helper interop: no token"
		}
		var server rs.ResourceServer
		server, err = rs.NewResourceServerJWTProfile(ctx, w.Issuer, "jwt", ck.KeyID, rsaPEM(ck), rs.WithClient(hc))
		if err == nil {
			var resp *oidc.IntrospectionResponse
			resp, err = rs.Introspect[*oidc.IntrospectionResponse](ctx, server, c.jwtTokens[0].access)
			if err == nil && resp == nil {
				err = fmt.Errorf("nil response")
			}
		}
	case 3:
		applicable = w.Caps.TokenExchange && w.Router == "B" && w.Conf.AuthMethodPrivateKeyJWT && len(c.jwtTokens) > 0 && w.Store.Clients["jwt"].HasGrant(oidc.GrantTypeTokenExchange)
		if applicable {
			signer, _ := jose.NewSigner(jose.SigningKey{Algorithm: jose.RS256, Key: jose.JSONWebKey{Key: ck.Key, KeyID: ck.KeyID}}, (&jose.SignerOptions{}).WithType("JWT"))
			var te tokenexchange.TokenExchanger
			te, err = tokenexchange.NewTokenExchangerJWTProfile(ctx, w.Issuer, "jwt", signer, tokenexchange.WithHTTPClient(hc))
			if err == nil {
				g := c.jwtTokens[0]
				if g.refresh != "" && w.Store.RefreshLive(g.refresh) {
					_, err = tokenexchange.ExchangeToken(ctx, te, g.refresh, oidc.RefreshTokenType, "", "", nil, nil, []string{"openid"}, oidc.AccessTokenType)
				} else {
					applicable = false
				}
			}
		}
	default:
		applicable = w.Conf.AuthMethodPrivateKeyJWT
		if applicable {
			var s *session
			s, err = codeFlow(w, c.b, flowOpts{client: "jwt", scopes: []string{oidc.ScopeOpenID, oidc.ScopeOfflineAccess}})
			if err == nil {
				c.jwtTokens = append(c.jwtTokens, &grantedToken{access: s.tokens.AccessToken, refresh: s.tokens.RefreshToken, idToken: s.tokens.IDToken, client: "jwt", subject: "u1"})
			}
		}
	}
	if !applicable {
		return "helper interop " + name + ": not applicable in this configuration"
	}
	c.o.Probe("helper-assertions")
	if err != nil {
		c.viol("helper-rejected", "helper/"+strings.Fields(name)[0], "an assertion produced by the library's own %s was not accepted: %v", name, err)
		return "helper interop " + name + " -> " + err.Error()
	}
	c.o.Probe("helper-assertions-accepted")
	return "helper interop " + name + " -> ok"
}

// requestObject sends an authorization request with a signed request object.
func (c *c14) requestObject(ch *kernel.Chooser) string {
	w := c.w
	outerClient := "jwt"
	if ch.Bool(1, 5) {
		outerClient = "web"
	}
	outerType := "code"
	ro := map[string]any{"iss": "jwt", "aud": []string{w.Issuer}, "client_id": "jwt", "response_type": "code",
		"redirect_uri": "https://jwt.sim/callback", "scope": "openid email", "state": "from-object", "nonce": "nonce-object"}
	if ch.Bool(1, 2) {
		// every other parameter an object may carry: none of them may take effect unless the object is valid
		for k, v := range map[string]any{"response_mode": "fragment", "code_challenge": "challenge-from-object", "code_challenge_method": "plain", "prompt": "login",
			"max_age": 4242, "login_hint": "hint-object", "ui_locales": "de", "acr_values": "acr-object", "display": "page"} {
			ro[k] = v
		}
	}
	signer := "jwt"
	label := "right"
	for d := []int{0, 1, 1, 2}[ch.Int(4)]; d > 0; d-- {
		switch ch.Int(9) {
		case 0:
			ro["iss"] = "web"
			label += "+iss-other"
		case 1:
			ro["aud"] = []string{"https://other.sim"}
			label += "+aud-other"
		case 2:
			ro["client_id"] = "web"
			label += "+client_id-other"
		case 3:
			ro["response_type"] = "id_token"
			label += "+response_type-differs"
		case 4:
			signer = ""
			label += "+foreign-key"
		case 5:
			delete(ro, "iss")
			label += "+no-iss"
		case 6:
			delete(ro, "aud")
			label += "+no-aud"
		case 7:
			delete(ro, "client_id")
			label += "+no-client_id"
		case 8:
			ro["redirect_uri"] = "https://evil.example/cb"
			label += "+evil-redirect"
		}
	}
	var key jose.JSONWebKey
	if signer == "jwt" {
		key = w.ClientKeys["jwt"]
	} else {
		key = world.FixtureKey("rsa", 7)
		key.KeyID = "jwt-key-1"
	}
	payload, _ := json.Marshal(ro)
	tok := signRaw(payload, jose.RS256, key.Key, key.KeyID)
	outerRedirect := w.Store.Clients[outerClient].Redirects[0]
	q := url.Values{"client_id": {outerClient}, "response_type": {outerType}, "redirect_uri": {outerRedirect}, "scope": {"openid"}, "state": {"plain-state"}, "nonce": {"plain-nonce"}, "request": {tok}}
	r := c.b.Get(w.Issuer + "/authorize?" + q.Encode())
	desc := fmt.Sprintf("request object %s outer client=%s supported=%v -> %d", label, outerClient, w.Conf.RequestObjectSupported, statusOf(r))
	if panicProbe(c.o, r) || r.Err != nil {
		return desc
	}
	// did parameters of the object take effect?
	var created *world.AuthReq
	if r.Status == 302 && strings.Contains(r.Location, "/login?") {
		u, _ := url.Parse(r.Location)
		created = w.Store.AuthReqSnapshot(u.Query().Get("authRequestID"))
	}
	overrode := created != nil && (created.State == "from-object" || created.Nonce == "nonce-object" || slices.Contains(created.Scopes, "email") || (created.RedirectURI != outerRedirect) ||
		created.ResponseMode == "fragment" || (created.Challenge != nil && created.Challenge.Challenge == "challenge-from-object") || slices.Contains(created.Prompt, "login") ||
		(created.MaxAge != nil && *created.MaxAge == 4242))
	errRedirectToObjectURI := r.Status == 302 && strings.HasPrefix(r.Location, fmt.Sprint(ro["redirect_uri"])) && fmt.Sprint(ro["redirect_uri"]) != outerRedirect
	// reference validity of the object for this request
	aud, _ := ro["aud"].([]string)
	valid := signer == "jwt" && ro["iss"] == "jwt" && outerClient == "jwt" && (ro["client_id"] == nil || ro["client_id"] == "jwt") && slices.Contains(aud, w.Issuer) &&
		(ro["response_type"] == nil || ro["response_type"] == outerType) && ro["iss"] == ro["client_id"]
	if overrode || errRedirectToObjectURI {
		c.o.Probe("request-object-honoured")
		if !valid {
			c.viol("invalid-object-honoured", "authorize/"+strings.TrimPrefix(label, "right+"), "%s: parameters of the request object took effect (state=%q redirect=%q) although the object is not valid for this request", desc, stateOf(created), redirectOf(created))
		}
		if !w.Conf.RequestObjectSupported {
			c.viol("unsupported-object-honoured", "authorize", "%s: request objects are not supported but its parameters took effect", desc)
		}
	} else {
		c.o.Probe("request-object-not-honoured")
		if valid && w.Conf.RequestObjectSupported && label == "right" {
			c.o.Probe("valid-object-not-honoured")
			c.o.Logf("  valid request object not honoured: %d %s %s", r.Status, r.Location, firstLine(r.Body))
		}
	}
	return desc
}

func stateOf(a *world.AuthReq) string {
	if a == nil {
		return ""
	}
	return a.State
}

func redirectOf(a *world.AuthReq) string {
	if a == nil {
		return ""
	}
	return a.RedirectURI
}

func RunC14(t *testing.T, spec kernel.Spec) *kernel.Outcome {
	o := inBubble(t, spec, func(o *kernel.Outcome, tape *kernel.Tape) {
		cfg := tape.Sub("cfg2")
		caps := world.Caps{ClientCredentials: cfg.Bool(1, 2), TokenExchange: cfg.Bool(2, 3), Device: true, FromRequest: cfg.Bool(1, 3)}
		// in half of the worlds one provider serves two or three issuers (by Host, or behind a proxy by Forwarded header)
		tenants := 1
		if tc := tape.Sub("cfg-tenants"); tc.Bool(1, 2) {
			tenants = 2 + tc.Int(2)
		}
		w, err := world.NewStd(o, tape, world.StdOptions{Router: spec.Params["router"], ForceCaps: &caps, AllGrants: true, Algs: []int{0}, Tenants: tenants, ForceConfig: func(c *op.Config) {
			c.AuthMethodPrivateKeyJWT = cfg.Bool(4, 5)
			c.GrantTypeRefreshToken = true
		}})
		if err != nil {
			o.Infra = "world: " + err.Error()
			return
		}
		c := &c14{w: w, o: o, b: w.Net.NewBrowser("b1")}
		c.tw = &tokenWorld{w: w, o: o, prop: "C14", b: c.b}
		n := 40 + tape.Sub("cfg").Int(40)
		steps(o, tape, n, func(i int, ch *kernel.Chooser) string {
			c.step = i
			if len(w.Issuers) > 1 {
				w.UseIssuer(ch.Int(len(w.Issuers))) // every request of this step goes to this tenant
				o.Probe("multi-tenant-steps")
			}
			if i == 0 {
				c.step = 0
				// tokens of the private_key_jwt client (needs the provider flag; otherwise those surfaces stay idle)
				if w.Conf.AuthMethodPrivateKeyJWT {
					if s, err := codeFlow(w, c.b, flowOpts{client: "jwt", scopes: []string{oidc.ScopeOpenID, oidc.ScopeOfflineAccess}}); err == nil {
						c.jwtTokens = append(c.jwtTokens, &grantedToken{access: s.tokens.AccessToken, refresh: s.tokens.RefreshToken, idToken: s.tokens.IDToken, client: "jwt", subject: "u1"})
						return "setup: tokens for the jwt client"
					} else {
						return "setup failed: " + err.Error()
					}
				}
				return "setup: private_key_jwt disabled"
			}
			switch x := ch.Int(20); {
			case x < 9:
				return c.useAssertion(ch)
			case x < 11:
				return c.delegation(ch)
			case x < 14:
				return c.helperInterop(ch)
			case x < 18:
				return c.requestObject(ch)
			case x < 19:
				return c.concurrentAssertions(ch)
			default:
				d := time.Duration(ch.Range(1, 600)) * time.Second
				w.Advance(d)
				return fmt.Sprintf("advance %v", d)
			}
		})
		o.Log = append([]string{fmt.Sprintf("config: router=%s pkjwt=%v requestobject=%v caps=%+v issuers=%v (%s)", w.Router, w.Conf.AuthMethodPrivateKeyJWT, w.Conf.RequestObjectSupported, w.Caps, w.Issuers, w.IssuerMode)}, o.Log...)
		o.Sample = map[string]any{"seed": spec.Seed, "router": w.Router, "steps": o.Trace}
	})
	o.Nontrivial = o.Probes["assertion-accepted"] > 0 && o.Probes["assertion-refused"] > 0
	return o
}
