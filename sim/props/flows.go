package props

import (
	"encoding/json"
	"fmt"
	"net/http"
	"net/url"
	"strings"
	"time"

	jose "github.com/go-jose/go-jose/v4"
	"github.com/zitadel/oidc/v3/pkg/oidc"

	"verif/sim/world"
)

// Honest building blocks shared by the property workloads. They speak the
// protocol through the simulated network exactly like a client would.

type flowOpts struct {
	client       string
	user         string // "alice" or "bob"
	scopes       []string
	responseType string // default "code"
	responseMode string
	pkce         string // "", "S256", "plain"
	state        string
	nonce        string
	redirect     string // default: first registered
	extra        url.Values
	// viaObject: state, nonce and the PKCE parameters travel only inside a request object signed with the client's
	// registered key (honoured only by providers that support request objects)
	viaObject bool
	noState   bool // the client sends no state parameter at all
}

type session struct {
	opts     flowOpts
	authReq  string
	verifier string
	code     string
	redirect string
	authz    *world.AuthzResponse
	tokens   *world.TokenResponse
	tokenReq *world.Resp
	snap     *world.AuthReq
	issuedAt time.Time
}

var userPass = map[string]string{"alice": "pw-alice", "bob": "pw-bob", "carol": "pw-carol", "dave": "pw-dave"}
var userID = map[string]string{"alice": "u1", "bob": "u2", "carol": "tenant1:carol", "dave": "dave+x@sim.example/1 %7E|9"}

func fill(w *world.World, o *flowOpts) {
	if o.client == "" {
		o.client = "web"
	}
	if o.user == "" {
		o.user = "alice"
	}
	if o.scopes == nil {
		o.scopes = []string{oidc.ScopeOpenID}
	}
	if o.responseType == "" {
		o.responseType = "code"
	}
	if o.redirect == "" {
		o.redirect = w.Store.Clients[o.client].Redirects[0]
	}
	if o.state == "" && !o.noState {
		o.state = "state-1"
	}
	if o.nonce == "" {
		o.nonce = "nonce-1"
	}
	if o.pkce == "" && w.Store.Clients[o.client].Public() {
		o.pkce = "S256"
	}
}

// startAuthz performs the authorization request and returns the session with the auth request id.
func startAuthz(w *world.World, b *world.Browser, o flowOpts) (*session, *world.Resp) {
	fill(w, &o)
	s := &session{opts: o, redirect: o.redirect}
	ap := world.AuthParams{Client: o.client, RedirectURI: o.redirect, ResponseType: o.responseType, ResponseMode: o.responseMode,
		Scope: strings.Join(o.scopes, " "), State: o.state, Nonce: o.nonce, Extra: o.extra}
	if o.pkce != "" && o.pkce != "none" {
		s.verifier = "verifier.0123456789_abcdefghijklmnopqrstuvwxyz~ABCDEFGHIJ-" + o.client // every kind of unreserved character (RFC 7636 4.1)
		ap.ChallengeMethod = o.pkce
		if o.pkce == "S256" {
			ap.Challenge = world.S256(s.verifier)
		} else {
			ap.Challenge = s.verifier
		}
	}
	if key, ok := w.ClientKeys[o.client]; ok && o.viaObject {
		ro := map[string]any{"iss": o.client, "aud": []string{w.Issuer}, "client_id": o.client, "response_type": o.responseType, "state": o.state, "nonce": o.nonce}
		if ap.Challenge != "" {
			ro["code_challenge"], ro["code_challenge_method"] = ap.Challenge, ap.ChallengeMethod
		}
		payload, _ := json.Marshal(ro)
		ap.State, ap.Nonce, ap.Challenge, ap.ChallengeMethod = "", "", "", ""
		extra := url.Values{"request": {signRaw(payload, jose.RS256, key.Key, key.KeyID)}}
		for k, v := range ap.Extra {
			extra[k] = v
		}
		ap.Extra = extra
	}
	resp, id := w.Authorize(b, ap)
	s.authReq = id
	return s, resp
}

// loginStep posts the credentials; the response is the redirect to the callback endpoint.
func loginStep(w *world.World, b *world.Browser, s *session) *world.Resp {
	return b.PostForm(w.Issuer+"/login", url.Values{"authRequestID": {s.authReq}, "username": {s.opts.user}, "password": {userPass[s.opts.user]}})
}

// callbackStep fetches the callback endpoint and decodes the authorization response.
func callbackStep(w *world.World, b *world.Browser, s *session, loc string) (*world.Resp, error) {
	r := b.Get(loc)
	if r.Err != nil {
		return r, r.Err
	}
	s.snap = w.Store.AuthReqSnapshot(s.authReq)
	ar, err := world.DecodeAuthzResponse(r)
	if err != nil {
		return r, err
	}
	s.authz = ar
	s.code = ar.Params.Get("code")
	if s.code != "" {
		w.Ledger.Codes[s.code] = s.authReq
	}
	s.issuedAt = time.Now()
	return r, nil
}

// authorizeToCode runs authorize, login and callback.
func authorizeToCode(w *world.World, b *world.Browser, o flowOpts) (*session, error) {
	s, resp := startAuthz(w, b, o)
	if s.authReq == "" {
		return s, fmt.Errorf("authorize refused: %d %s", resp.Status, firstLine(resp.Body))
	}
	lr := loginStep(w, b, s)
	if lr.Err != nil || lr.Status != http.StatusFound {
		return s, fmt.Errorf("login failed: %d %v", lr.Status, lr.Err)
	}
	if _, err := callbackStep(w, b, s, lr.Location); err != nil {
		return s, fmt.Errorf("callback: %w", err)
	}
	return s, nil
}

func codeForm(s *session) url.Values {
	f := url.Values{"grant_type": {"authorization_code"}, "code": {s.code}, "redirect_uri": {s.redirect}}
	if s.verifier != "" {
		f.Set("code_verifier", s.verifier)
	}
	return f
}

// redeemStep exchanges the code with the client's registered credentials.
func redeemStep(w *world.World, s *session) (*world.Resp, error) {
	r := w.PostForm("/oauth/token", codeForm(s), w.RightCreds(s.opts.client))
	s.tokenReq = r
	if r.Err != nil {
		return r, r.Err
	}
	tr, err := world.ParseTokenResponse(r.Body)
	if err != nil {
		return r, err
	}
	if r.Status != 200 {
		return r, fmt.Errorf("token endpoint: %d %s %s", r.Status, tr.Error, tr.ErrorDesc)
	}
	s.tokens = tr
	w.Record(tr, "code", s.opts.client, r.Ex.ID, s.authReq)
	return r, nil
}

// codeFlow is the complete honest authorization-code flow.
func codeFlow(w *world.World, b *world.Browser, o flowOpts) (*session, error) {
	s, err := authorizeToCode(w, b, o)
	if err != nil {
		return s, err
	}
	if s.code == "" {
		return s, fmt.Errorf("no code in authorization response (%v)", s.authz.Params)
	}
	_, err = redeemStep(w, s)
	return s, err
}

func firstLine(s string) string {
	if i := strings.IndexByte(s, '\n'); i >= 0 {
		s = s[:i]
	}
	if len(s) > 120 {
		s = s[:120]
	}
	return s
}

// usableClient tells whether the honest client can complete a code flow under the run's provider flags.
func usableClient(w *world.World, id string) bool {
	c := w.Store.Clients[id]
	switch c.Auth {
	case oidc.AuthMethodPost:
		return w.Conf.AuthMethodPost
	case oidc.AuthMethodPrivateKeyJWT:
		return w.Conf.AuthMethodPrivateKeyJWT
	}
	return true
}

func bearerGet(w *world.World, path, token string) *world.Resp {
	req, _ := http.NewRequest("GET", w.Issuer+path, nil)
	req.Header.Set("Authorization", "Bearer "+token)
	return w.DoRaw(req)
}

func rawGet(w *world.World, pathAndQuery string) *world.Resp {
	req, _ := http.NewRequest("GET", w.Issuer+pathAndQuery, nil)
	return w.DoRaw(req)
}
