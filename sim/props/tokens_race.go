package props

import (
	"context"
	"fmt"
	"net/http"
	"net/url"
	"slices"
	"strings"

	"github.com/anishathalye/porcupine"
	"github.com/zitadel/oidc/v3/pkg/oidc"

	"verif/sim/kernel"
	"verif/sim/world"
)

// race: 2-4 requests about ONE granted token pair (access token A, refresh token R) run concurrently, interleaved by
// the seeded scheduler at every storage call: uses of A (userinfo, introspection, token exchange), kills (revocation
// of A or R by the owner, logout) and refreshes of R. The oracle is a history check over invocation/return order:
//
//	C08  a use of A that succeeded was not invoked after a kill of A had returned (and A was live to begin with);
//	     every kill that answered success left its token dead once the group is over
//	C07  a refresh that succeeded was not invoked after a kill of R (revocation, logout, another successful refresh)
//	     had returned; it went through the storage's rotation of exactly R and carries a refresh token the storage knows
//
// and, as an independent cross-check, the outcomes must be linearizable against the two-bit liveness model
// (porcupine). Overlapping operations may go either way.
type raceOp struct {
	groupOp
	kind string // use-userinfo, use-introspect, use-exchange, revoke-access, revoke-refresh, refresh, logout
	ok   bool
	tr   *world.TokenResponse
}

func (r *raceOp) model() string {
	if strings.HasPrefix(r.kind, "use-") {
		return "use"
	}
	return r.kind
}

func (tw *tokenWorld) race(ch *kernel.Chooser) string {
	w := tw.w
	var cands []*grantedToken
	for _, g := range tw.pool {
		if g.refresh != "" && usableClient(w, g.client) {
			cands = append(cands, g)
		}
	}
	if len(cands) == 0 {
		return "race: no token pair"
	}
	g := cands[ch.Int(len(cands))]
	tw.goHome(g)
	owner := w.Store.Clients[g.client]
	id, _, _, decodes := w.DecodeAccess(g.access)
	if !decodes {
		return "race: access token does not decode"
	}
	a0, r0 := w.Store.TokenLive(id), w.Store.RefreshLive(g.refresh)
	if a0 && tw.liveWithMargin(g, "access") == false {
		return "race: access token on its expiry boundary"
	}
	init := "init-live"
	switch {
	case !a0 && !r0:
		init = "init-dead"
	case !a0:
		init = "init-access-dead"
	case !r0:
		return "race: refresh token dead, access token live" // not a state the model starts from
	}
	creds := func() world.Creds { return rightPresentation(w, g.client).creds }
	kinds := []string{"use-userinfo", "use-introspect", "revoke-access", "revoke-refresh", "refresh", "refresh", "use-userinfo"}
	if g.idToken != "" {
		kinds = append(kinds, "logout")
	}
	if w.Caps.TokenExchange && owner.HasGrant(oidc.GrantTypeTokenExchange) {
		kinds = append(kinds, "use-exchange")
	}
	n := 2 + ch.Int(3)
	var ops []*raceOp
	for i := 0; i < n; i++ {
		k := kinds[ch.Int(len(kinds))]
		op := &raceOp{kind: k}
		op.label = k
		switch k {
		case "use-userinfo":
			op.do = func(ctx context.Context) *world.Resp {
				req, _ := http.NewRequestWithContext(ctx, "GET", w.Issuer+"/userinfo", nil)
				req.Header.Set("Authorization", "Bearer "+g.access)
				return w.DoRaw(req)
			}
		case "use-introspect":
			c := creds()
			op.do = func(ctx context.Context) *world.Resp {
				return w.PostFormCtx(ctx, "/oauth/introspect", url.Values{"token": {g.access}}, c)
			}
		case "use-exchange":
			c := creds()
			op.do = func(ctx context.Context) *world.Resp {
				return w.PostFormCtx(ctx, "/oauth/token", url.Values{"grant_type": {string(oidc.GrantTypeTokenExchange)}, "subject_token": {g.access},
					"subject_token_type": {string(oidc.AccessTokenType)}, "requested_token_type": {string(oidc.AccessTokenType)}}, c)
			}
		case "revoke-access", "revoke-refresh":
			c := creds()
			tok := g.access
			if k == "revoke-refresh" {
				tok = g.refresh
			}
			op.do = func(ctx context.Context) *world.Resp {
				return w.PostFormCtx(ctx, "/revoke", url.Values{"token": {tok}}, c)
			}
		case "refresh":
			c := creds()
			op.do = func(ctx context.Context) *world.Resp {
				return w.PostFormCtx(ctx, "/oauth/token", url.Values{"grant_type": {"refresh_token"}, "refresh_token": {g.refresh}}, c)
			}
		case "logout":
			op.do = func(ctx context.Context) *world.Resp {
				req, _ := http.NewRequestWithContext(ctx, "GET", w.Issuer+"/end_session?"+url.Values{"id_token_hint": {g.idToken}}.Encode(), nil)
				return w.DoRaw(req)
			}
		}
		ops = append(ops, op)
	}
	faults := 0
	if tw.faulty && ch.Bool(1, 3) {
		faults = 1
	}
	gops := make([]*groupOp, len(ops))
	for i, op := range ops {
		gops[i] = &op.groupOp
	}
	trace := runGroup(w, tw.o, fmt.Sprintf("race:%d", tw.step), gops, faults)
	tw.o.Probe("race-groups")
	tw.o.Trace = append(tw.o.Trace, "  schedule: "+strings.Join(trace, ","))
	// ---- classify the answers ----
	var parts []string
	anyFault, anyPanic := false, false
	for _, op := range ops {
		r := op.resp
		if op.faulted != "" {
			anyFault = true
		}
		if r == nil || r.Err != nil || r.Ex == nil || r.Ex.Panic != "" {
			if r != nil && r.Ex != nil && r.Ex.Panic != "" {
				anyPanic = true
				tw.o.Probe("panic-seen")
			}
			parts = append(parts, fmt.Sprintf("%s[%d,%d]=no-response", op.kind, op.inv, op.ret))
			continue
		}
		switch op.kind {
		case "use-userinfo":
			op.ok = r.Status == 200
		case "use-introspect":
			var m map[string]any
			op.ok = r.Status == 200 && jsonUnmarshal(r.Body, &m) == nil && m["active"] == true
		case "use-exchange", "refresh":
			op.tr, op.ok = isTokenSuccess(r)
		case "revoke-access", "revoke-refresh":
			op.ok = r.Status == 200
		case "logout":
			op.ok = r.Status == 302
		}
		f := ""
		if op.faulted != "" {
			f = " fault@" + op.faulted
		}
		parts = append(parts, fmt.Sprintf("%s[%d,%d]=%d ok=%v%s", op.kind, op.inv, op.ret, r.Status, op.ok, f))
	}
	desc := fmt.Sprintf("race on the tokens of %s/%s (access live=%v refresh live=%v): %s", g.client, g.subject, a0, r0, strings.Join(parts, " "))
	if anyPanic {
		return desc
	}
	killsA := func(k string) bool {
		return k == "revoke-access" || k == "revoke-refresh" || k == "refresh" || k == "logout"
	}
	killsR := func(k string) bool { return k == "revoke-refresh" || k == "refresh" || k == "logout" }
	for i, u := range ops {
		if !u.ok || u.faulted != "" && !strings.HasPrefix(u.kind, "use-") && u.kind != "refresh" {
			continue
		}
		switch {
		case strings.HasPrefix(u.kind, "use-"):
			tw.o.Probe("race-use-ok")
			if !a0 {
				tw.viol("C08", "dead-token-honoured", "concurrent/"+u.kind, "%s: %s succeeded although the access token was dead before the group began", desc, u.kind)
			}
			for j, k := range ops {
				if i != j && k.ok && k.faulted == "" && killsA(k.kind) && k.ret < u.inv {
					tw.viol("C08", "dead-token-honoured", "concurrent/"+u.kind, "%s: %s was invoked at %d, after %s had returned success at %d, and was still honoured", desc, u.kind, u.inv, k.kind, k.ret)
				}
			}
		case u.kind == "refresh":
			tw.o.Probe("race-refresh-ok")
			if !r0 {
				tw.viol("C07", "dead-token", "concurrent/refresh", "%s: refresh succeeded although the refresh token was dead before the group began", desc)
			}
			for j, k := range ops {
				if i != j && k.ok && k.faulted == "" && killsR(k.kind) && k.ret < u.inv {
					tw.viol("C07", "dead-token", "concurrent/refresh", "%s: refresh was invoked at %d, after %s had returned success at %d, and still yielded tokens", desc, u.inv, k.kind, k.ret)
				}
			}
			rotated := false
			for _, j := range w.Store.JournalFor(u.resp.Ex.ID) {
				if j.Method == "CreateAccessAndRefreshTokens" && strings.HasSuffix(j.Args, ","+g.refresh) && j.Err == "" && j.Fault == "" {
					rotated = true
				}
			}
			if !rotated {
				tw.viol("C07", "rotation", "concurrent/refresh", "%s: a refresh answered success but the storage did not rotate the presented token in that request (journal: %v)", desc, journalBrief(w.Store.JournalFor(u.resp.Ex.ID)))
			}
			if u.tr.RefreshToken == "" || u.tr.RefreshToken == g.refresh || w.Store.RefreshSnapshot(u.tr.RefreshToken) == nil {
				tw.viol("C07", "rotation", "concurrent/refresh-response", "%s: the successful refresh carries refresh token %q, which is not a new token of the storage", desc, short(u.tr.RefreshToken))
			}
		}
	}
	// two successful refreshes of one token: at most one of them can have been rotated by the storage
	nRefreshOK := 0
	for _, u := range ops {
		if u.kind == "refresh" && u.ok {
			nRefreshOK++
		}
	}
	if nRefreshOK > 1 {
		tw.o.Probe("race-double-refresh-success")
	}
	// every kill that answered success (and met no fault) left its token dead
	aNow, rNow := w.Store.TokenLive(id), w.Store.RefreshLive(g.refresh)
	for _, k := range ops {
		if !k.ok || k.faulted != "" {
			continue
		}
		if killsA(k.kind) {
			tw.o.Probe("race-kill-ok")
			if aNow && tw.usableAccess(g) {
				tw.viol("C08", "revocation-ineffective", "concurrent/"+k.kind, "%s: %s answered success but the access token is still live and honoured after the group", desc, k.kind)
			}
		}
		if killsR(k.kind) && rNow {
			tw.viol(map[bool]string{true: "C07", false: "C08"}[k.kind == "refresh"], "revocation-ineffective", "concurrent/"+k.kind+"-refresh-token", "%s: %s answered success but the presented refresh token is still live after the group", desc, k.kind)
		}
	}
	// independent cross-check: the outcomes are linearizable against the liveness model
	if !anyFault {
		var lops []liveOp
		for _, op := range ops {
			if op.inv >= 0 && op.ret >= 0 && op.resp != nil && op.resp.Err == nil {
				lops = append(lops, liveOp{kind: op.model(), ok: op.ok, inv: op.inv, ret: op.ret})
			}
		}
		res := checkLinearizable(init, lops)
		tw.o.Probe("race-linearizability-checked")
		if res == porcupine.Illegal {
			p := "C08"
			for _, op := range ops {
				if op.kind == "refresh" && op.ok {
					p = tw.prop // a refresh is involved: report under the active property (C07 or C08)
				}
			}
			if p != "C07" {
				p = "C08"
			}
			tw.viol(p, "not-linearizable", "concurrent", "%s: no order of these operations that respects real-time precedence explains the outcomes (liveness model, start %s)", desc, init)
		}
	}
	// overlapping operations that went both ways are worth counting
	for _, u := range ops {
		for _, k := range ops {
			if u != k && u.ok && k.ok && strings.HasPrefix(u.kind, "use-") && killsA(k.kind) && !(k.ret < u.inv) && !(u.ret < k.inv) {
				tw.o.Probe("race-use-overlapping-kill")
			}
		}
	}
	// bring the pool up to date
	for _, u := range ops {
		if u.kind == "refresh" && u.ok && u.tr != nil && u.tr.RefreshToken != "" && w.Store.RefreshLive(u.tr.RefreshToken) {
			tw.pool = append(tw.pool, &grantedToken{access: u.tr.AccessToken, refresh: u.tr.RefreshToken, idToken: u.tr.IDToken, client: g.client, subject: g.subject,
				scopes: u.tr.ScopeList(), original: g.original, authTime: g.authTime, chain: g.chain + 1, flow: "refresh", issuer: g.issuer})
		}
	}
	if !aNow && !rNow {
		tw.retire(g)
	}
	for _, x := range append([]*grantedToken(nil), tw.pool...) {
		if x != g && x.client == g.client && x.subject == g.subject && !tw.isLive(x, "access") && (x.refresh == "" || !tw.isLive(x, "refresh")) {
			tw.retire(x) // a logout in the group ended the whole session
		}
	}
	_ = slices.Contains[[]string]
	return desc
}

func journalBrief(js []world.JournalEntry) []string {
	var out []string
	for _, j := range js {
		s := j.Method
		if j.Err != "" {
			s += "!" + firstLine(j.Err)
		}
		out = append(out, s)
	}
	return out
}
