package props

import (
	"fmt"
	"net/url"
	"slices"
	"strings"
	"testing"
	"time"

	jose "github.com/go-jose/go-jose/v4"
	"github.com/zitadel/oidc/v3/pkg/crypto"
	"github.com/zitadel/oidc/v3/pkg/oidc"

	"verif/sim/kernel"
	"verif/sim/world"
)

// C15: token exchange needs live subject/actor tokens and returns what it declares.

type exToken struct {
	str      string
	declared oidc.TokenType
	kind     string    // description
	live     bool      // reference model: issued by this provider, of the declared type, live now
	end      time.Time // ID tokens: the instant exp names
	subject  string
}

// pickExToken chooses a subject or actor token of some kind together with the type it is declared as.
func (tw *tokenWorld) pickExToken(ch *kernel.Chooser) *exToken {
	w := tw.w
	g := tw.pick(ch, false)
	if g == nil {
		return nil
	}
	t := &exToken{subject: g.subject}
	x := ch.Int(12)
	switch {
	case tw.sameAgain:
		x, tw.sameAgain = tw.lastX, false // the string that was presented before the clock moved, once more
	case tw.pickedFocus:
		// the clock was moved with regard to one of this grant's tokens: mostly that one is presented
		if ch.Bool(3, 4) {
			x = map[string]int{"access token": 0, "ID token": 6}[tw.focusWhat]
		}
		tw.lastX, tw.pickedFocus = x, false
	}
	switch {
	case x < 4:
		t.str, t.declared, t.kind = g.access, oidc.AccessTokenType, "access"
		id, sub, jwt, ok := w.DecodeAccess(g.access)
		t.live = ok && w.Store.TokenLive(id) && sub == g.subject
		if jwt {
			t.kind = "jwt-access"
		} else {
			t.kind = "opaque-access"
		}
	case x < 6:
		if g.refresh == "" {
			return nil
		}
		t.str, t.declared, t.kind = g.refresh, oidc.RefreshTokenType, "refresh"
		t.live = w.Store.RefreshLive(g.refresh)
	case x < 8:
		if g.idToken == "" {
			return nil
		}
		t.str, t.declared, t.kind = g.idToken, oidc.IDTokenType, "id"
		p := world.JWTPayload(g.idToken)
		exp, _ := p["exp"].(float64)
		// exact: dead from the instant exp names (a request that is still being served at that instant is not judged)
		t.end = time.Unix(int64(exp), 0)
		t.live = w.Ledger.IDs[g.idToken] != nil && time.Now().Before(t.end)
	case x == 8: // type confusion: a refresh token declared as access token and vice versa
		if g.refresh == "" {
			return nil
		}
		t.str, t.declared, t.kind, t.live = g.refresh, oidc.AccessTokenType, "refresh-declared-access", false
	case x == 9:
		t.str, t.declared, t.kind, t.live = g.access, oidc.RefreshTokenType, "access-declared-refresh", false
	case x == 10:
		t.str, t.declared, t.kind, t.live = "garbage-token", []oidc.TokenType{oidc.AccessTokenType, oidc.RefreshTokenType, oidc.IDTokenType, oidc.JWTTokenType}[ch.Int(4)], "garbage", false
	case x == 11 && ch.Bool(2, 3):
		// a token of the third-party issuer that only a storage with the verifier capability knows, declared as a JWT:
		// the provider itself cannot recognise it; it counts exactly when that storage vouches for it
		third, alive := ch.Pick("u1", "u2", "nobody"), ch.Bool(2, 3)
		t.str, t.declared, t.kind, t.subject = world.ThirdPartyToken(third, alive), oidc.JWTTokenType, "third-party", third
		t.live = w.Caps.ExchangeVerifier && alive && third != "nobody"
		if !alive {
			t.kind = "third-party-dead"
		}
		tw.o.Probe("third-party-tokens-presented")
	default: // a JWT of another issuer, signed with a key this provider does not publish
		k := world.FixtureKey("rsa", 5)
		signer, _ := jose.NewSigner(jose.SigningKey{Algorithm: jose.RS256, Key: jose.JSONWebKey{Key: k.Key, KeyID: "foreign"}}, (&jose.SignerOptions{}).WithType("JWT"))
		now := time.Now()
		tok, _ := crypto.Sign(map[string]any{"iss": "https://other.sim", "sub": g.subject, "aud": []string{g.client}, "exp": now.Add(time.Hour).Unix(), "iat": now.Unix(), "jti": "at999", "azp": g.client}, signer)
		t.str, t.kind, t.live = tok, "foreign-issuer-jwt", false
		t.declared = []oidc.TokenType{oidc.AccessTokenType, oidc.IDTokenType}[ch.Int(2)]
	}
	// an access token whose expiry is within the rounding margin is not decided by the model
	if t.declared == oidc.AccessTokenType && t.kind != "garbage" {
		if id, _, _, ok := w.DecodeAccess(t.str); ok {
			if s := w.Store.TokenSnapshot(id); s != nil {
				if d := time.Until(s.Exp); d > -3*time.Second && d < 3*time.Second {
					return nil
				}
			}
		}
	}
	return t
}

func (tw *tokenWorld) exchange(ch *kernel.Chooser) string {
	w := tw.w
	// the clock was just moved with regard to a token (to its end, or to shortly before it with a second use shortly
	// after it to follow): these uses are meant to succeed if anything can, so a client that may exchange presents it
	// with its right credentials, the second time the very same client
	again, focused := tw.after != nil && tw.focusLeft == 0, tw.focusLeft > 0
	subj := tw.pickExToken(ch)
	if subj == nil {
		return "exchange: no subject token"
	}
	var actor *exToken
	if ch.Bool(1, 3) && !again && !focused {
		actor = tw.pickExToken(ch)
	}
	caller := honestClients[ch.Int(len(honestClients))]
	p := tw.pickPresentation(ch, caller)
	if ch.Bool(3, 4) {
		p = rightPresentation(w, caller)
	}
	requested := []string{"", string(oidc.AccessTokenType), string(oidc.RefreshTokenType), string(oidc.IDTokenType), string(oidc.JWTTokenType), "urn:example:unknown"}[ch.Int(6)]
	if again || focused {
		var able []string
		for _, id := range honestClients {
			if c := w.Store.Clients[id]; usableClient(w, id) && c.HasGrant(oidc.GrantTypeTokenExchange) && !c.Public() {
				able = append(able, id)
			}
		}
		if len(able) > 0 {
			caller = able[ch.Int(len(able))]
			if again && slices.Contains(able, tw.lastCaller) {
				caller = tw.lastCaller
			}
			tw.lastCaller = caller
			p = rightPresentation(w, caller)
			requested = []string{"", string(oidc.AccessTokenType)}[ch.Int(2)]
		}
	}
	form := url.Values{"grant_type": {string(oidc.GrantTypeTokenExchange)}, "subject_token": {subj.str}, "subject_token_type": {string(subj.declared)}}
	if requested != "" {
		form.Set("requested_token_type", requested)
	}
	if actor != nil {
		form.Set("actor_token", actor.str)
		form.Set("actor_token_type", string(actor.declared))
		if ch.Bool(1, 4) {
			// the type is left out (RFC 8693 2.1: required whenever an actor token is present): a token of no declared
			// type is not a valid actor token, whatever it is
			form.Del("actor_token_type")
			actor.live, actor.kind = false, actor.kind+"-type-omitted"
			tw.o.Probe("actor-token-without-its-type")
		}
	}
	scopes := ch.Subset([]string{oidc.ScopeOpenID, oidc.ScopeEmail, oidc.ScopeProfile, "api"})
	if requested == string(oidc.IDTokenType) && ch.Bool(1, 3) {
		scopes = nil // an ID token is asked for without naming any scope
	}
	if len(scopes) > 0 {
		form.Set("scope", strings.Join(scopes, " "))
	}
	if ch.Bool(1, 3) {
		form.Set("audience", "https://api.sim")
	}
	r := w.PostForm("/oauth/token", form, p.creds)
	if requested == "" && w.Store.Policy.DefaultType == "" {
		tw.o.Probe("exchange-without-a-type-and-without-a-storage-default")
	}
	ak := "none"
	if actor != nil {
		ak = actor.kind
	}
	desc := fmt.Sprintf("exchange subject=%s(live=%v) actor=%s requested=%q by %s (%s) policy{default=%s veto=%v@%q imp=%q} -> %d", subj.kind, subj.live, ak, requested, caller, p.label,
		w.Store.Policy.DefaultType, w.Store.Policy.Veto, w.Store.Policy.VetoAt, w.Store.Policy.ImpersonateAs, statusOf(r))
	if panicProbe(tw.o, r) || r.Err != nil {
		return desc + " (no response)"
	}
	for _, j := range w.Store.JournalFor(r.Ex.ID) {
		if j.Err == "policy-veto" {
			tw.o.Probe("veto-at-" + j.Method)
		}
	}
	if r.Status < 200 || r.Status > 299 {
		tw.checkRefusal(r, desc)
		var m map[string]any
		if jsonUnmarshal(r.Body, &m) != nil || m["error"] == nil {
			tw.viol("C15", "refusal-shape", "token-exchange", "%s: refused without an OAuth error document: %q", desc, firstLine(r.Body))
		}
		return desc
	}
	tr, err := world.ParseTokenResponse(r.Body)
	if err != nil {
		tw.viol("C15", "response-shape", "token-exchange", "%s: body is not JSON", desc)
		return desc
	}
	tw.o.Probe("exchange-success")
	if subj.kind == "third-party" || (actor != nil && actor.kind == "third-party") {
		tw.o.Probe("exchange-with-third-party-token-success")
	}
	// ---- success: every precondition of the statement must hold ----
	allowed, und, why := authAllowed(w, p, false, w.Router == "B" && w.Conf.AuthMethodPrivateKeyJWT, time.Now())
	if !und && !allowed {
		tw.viol("C15", "unauthenticated", "token-exchange/"+why, "%s: success although presentation %q does not authenticate client %q (%s)", desc, p.label, caller, why)
		tw.viol("C05", "unauthenticated-success", "token/token-exchange/"+why, "%s: success although presentation %q does not authenticate client %q (%s)", desc, p.label, caller, why)
	}
	if cc := w.Store.Clients[p.claimedClient()]; cc != nil && !cc.HasGrant(oidc.GrantTypeTokenExchange) {
		tw.viol("C15", "unregistered-grant", "token-exchange", "%s: client %q is not registered for the grant", desc, cc.ID)
	}
	for _, t := range []*exToken{subj, actor} {
		if t != nil && t.live && !t.end.IsZero() && !time.Now().Before(t.end) {
			return desc + " (an ID token ended while the request was served: not judged)"
		}
	}
	if !subj.live {
		tw.viol("C15", "dead-subject", "token-exchange/"+subj.kind, "%s: subject token is not a live token of the declared type", desc)
	}
	if actor != nil && !actor.live {
		tw.viol("C15", "dead-actor", "token-exchange/"+actor.kind, "%s: actor token is not a live token of the declared type", desc)
	}
	vetoedAt := ""
	for _, j := range w.Store.JournalFor(r.Ex.ID) {
		if j.Err == "policy-veto" {
			vetoedAt = j.Method
		}
	}
	if vetoedAt != "" {
		tw.viol("C15", "veto-ignored", "token-exchange/"+vetoedAt, "%s: the storage vetoed the exchange (at %s)", desc, vetoedAt)
	}
	// what the policy decided is in the journal
	var decided []string
	for _, j := range w.Store.JournalFor(r.Ex.ID) {
		if j.Method == "CreateTokenExchangeRequest" {
			decided = strings.SplitN(j.Args, ",", 4)
		}
	}
	issued := tr.IssuedTokenType
	if issued != string(oidc.AccessTokenType) && issued != string(oidc.RefreshTokenType) && issued != string(oidc.IDTokenType) {
		tw.viol("C15", "declared-type", "token-exchange/undeclared", "%s: success response whose issued_token_type %q names no kind of token (requested %q, storage default %q)", desc, issued, requested, w.Store.Policy.DefaultType)
	}
	if issued == string(oidc.IDTokenType) || tr.IDToken != "" {
		// an ID token came out: its user claims (and the act claim, and the last word on a refusal) are the storage's,
		// asked through SetUserinfoFromTokenExchangeRequest - whatever the scope list looks like
		consulted := false
		for _, j := range w.Store.JournalFor(r.Ex.ID) {
			if j.Method == "SetUserinfoFromTokenExchangeRequest" {
				consulted = true
			}
		}
		tw.o.Probe("exchanges-that-issued-an-id-token")
		if len(tr.ScopeList()) == 0 {
			tw.o.Probe("id-token-exchanges-with-an-empty-scope-list")
		}
		if !consulted {
			tw.viol("C15", "policy-skipped", "token-exchange/id-token-userinfo", "%s: an ID token was issued (scope %v) without the storage's SetUserinfoFromTokenExchangeRequest having been asked: act claim, user claims and a possible refusal are the storage policy's", desc, tr.ScopeList())
		}
	}
	if tr.AccessToken == "" {
		tw.viol("C15", "empty-token", "token-exchange/"+strings.TrimPrefix(issued, "urn:ietf:params:oauth:token-type:"), "%s: success response without a token (issued_token_type=%q)", desc, issued)
		return desc + " EMPTY"
	}
	if len(decided) == 4 {
		wantSub := decided[0]
		wantScopes := strings.Fields(strings.Trim(decided[2], "[]"))
		if !sameSet(tr.ScopeList(), wantScopes) {
			tw.viol("C15", "policy-scopes", "token-exchange", "%s: response scope %v, policy decided %v", desc, tr.ScopeList(), wantScopes)
		}
		if issued != decided[1] {
			tw.viol("C15", "declared-type", "token-exchange", "%s: issued_token_type %q, policy decided %q", desc, issued, decided[1])
		}
		tw.checkIssued(desc, tr, issued, wantSub, wantScopes, actor)
	} else {
		tw.viol("C15", "policy-skipped", "token-exchange", "%s: success without CreateTokenExchangeRequest in the journal", desc)
	}
	return desc + " OK"
}

// checkIssued verifies that the response contains a live token of the declared kind carrying the decided subject.
func (tw *tokenWorld) checkIssued(desc string, tr *world.TokenResponse, issued, wantSub string, wantScopes []string, actor *exToken) {
	w := tw.w
	switch oidc.TokenType(issued) {
	case oidc.AccessTokenType, oidc.RefreshTokenType:
		id, sub, _, ok := w.DecodeAccess(tr.AccessToken)
		t := w.Store.TokenSnapshot(id)
		if !ok || t == nil || !w.Store.TokenLive(id) {
			tw.viol("C15", "issued-not-live", "token-exchange/access", "%s: access_token of the response is not a live access token", desc)
			return
		}
		if sub != wantSub || t.Subject != wantSub {
			tw.viol("C15", "issued-subject", "token-exchange/access", "%s: issued token subject %q/%q, policy decided %q", desc, sub, t.Subject, wantSub)
		}
		if !sameSet(t.Scopes, wantScopes) {
			tw.viol("C15", "issued-scopes", "token-exchange/access", "%s: issued token scopes %v, policy decided %v", desc, t.Scopes, wantScopes)
		}
		if actor != nil && t.Actor != actor.subject {
			tw.viol("C15", "issued-actor", "token-exchange/access", "%s: issued token actor %q, actor token subject %q", desc, t.Actor, actor.subject)
		}
		// a JWT access token shows the actor the policy decided: with the ActChain policy the nested delegation
		if pl := world.JWTPayload(tr.AccessToken); pl != nil && actor != nil && w.Store.Policy.ActChain {
			tw.o.Probe("act-chain-decided")
			if want := fmt.Sprint(world.ActChainOf(actor.subject)); fmt.Sprint(pl["act"]) != want {
				tw.viol("C15", "issued-actor", "token-exchange/act-claim", "%s: the issued JWT carries act %v, the policy decided %v", desc, pl["act"], want)
			}
		}
		if oidc.TokenType(issued) == oidc.RefreshTokenType {
			if tr.RefreshToken == "" || !w.Store.RefreshLive(tr.RefreshToken) {
				tw.viol("C15", "issued-not-live", "token-exchange/refresh", "%s: issued_token_type is refresh_token but the response has no live refresh token", desc)
			}
		}
		// the issued token must be honoured by the provider
		if ui := bearerGet(w, "/userinfo", tr.AccessToken); ui.Err == nil && ui.Ex != nil && ui.Ex.Panic == "" && ui.Status != 200 {
			tw.viol("C15", "issued-not-live", "token-exchange/userinfo", "%s: issued access token is refused at userinfo (%d)", desc, ui.Status)
		}
	case oidc.IDTokenType:
		p := world.JWTPayload(tr.AccessToken)
		if p == nil {
			tw.viol("C15", "declared-type", "token-exchange/id", "%s: issued_token_type is id_token but the token is not a JWT", desc)
			return
		}
		if p["iss"] != w.Issuer || p["sub"] != wantSub {
			tw.viol("C15", "issued-subject", "token-exchange/id", "%s: issued id_token iss/sub %v/%v, expected %s/%s", desc, p["iss"], p["sub"], w.Issuer, wantSub)
		}
		if _, hasNonceOrHash := p["at_hash"]; hasNonceOrHash {
			tw.o.Probe("exchange-idtoken-with-at-hash")
		}
	default:
		tw.viol("C15", "declared-type", "token-exchange", "%s: issued_token_type %q is not a type the provider can issue", desc, issued)
	}
}

func (tw *tokenWorld) policy(ch *kernel.Chooser) string {
	p := &tw.w.Store.Policy
	switch ch.Int(6) {
	case 0:
		p.Veto = !p.Veto
		// the policy may say no at any of its callbacks: when the request is validated, when it is created, or when
		// the claims / user info of the exchanged token are decided
		p.VetoAt = ch.Pick("", "create", "claims", "claims", "userinfo", "userinfo")
		p.VetoError = ch.Pick("", "", "plain", "canceled")
	case 1:
		// "" = this storage does not fill in a type for requests that name none (defaulting is something a storage can do,
		// not something it must do)
		p.DefaultType = []oidc.TokenType{oidc.AccessTokenType, oidc.RefreshTokenType, oidc.IDTokenType, ""}[ch.Int(4)]
	case 2:
		if p.ImpersonateAs == "" {
			p.ImpersonateAs = "u2"
		} else {
			p.ImpersonateAs = ""
		}
	case 3:
		p.DropScopes = ch.Subset([]string{oidc.ScopeEmail, "api"})
		p.ActChain = ch.Bool(2, 3)
	default:
		p.Veto = false
	}
	return fmt.Sprintf("policy now %+v", *p)
}

func RunC15(t *testing.T, spec kernel.Spec) *kernel.Outcome {
	caps := world.Caps{ClientCredentials: true, TokenExchange: true, Device: false}
	o := inBubble(t, spec, func(o *kernel.Outcome, tape *kernel.Tape) {
		caps.FromRequest = tape.Sub("cfg2").Bool(1, 3)
		caps.ExchangeVerifier = tape.Sub("cfg-tev").Bool(1, 2)
		w, err := world.NewStd(o, tape, world.StdOptions{Router: spec.Params["router"], ForceCaps: &caps})
		if err != nil {
			o.Infra = "world: " + err.Error()
			return
		}
		tw := &tokenWorld{w: w, o: o, prop: "C15", b: w.Net.NewBrowser("b1")}
		n := 40 + tape.Sub("cfg").Int(40)
		steps(o, tape, n, func(i int, ch *kernel.Chooser) string {
			tw.step = i
			if i < 3 {
				return tw.obtain(ch)
			}
			if (tw.focusLeft > 0 || tw.after != nil) && ch.Bool(4, 5) {
				return tw.exchange(ch) // the token the clock was moved for is presented next
			}
			switch x := ch.Int(20); {
			case x < 3:
				return tw.obtain(ch)
			case x < 13:
				return tw.exchange(ch)
			case x < 14:
				return tw.revoke(ch)
			case x < 16:
				return tw.advance(ch)
			case x < 17:
				return tw.endSession(ch)
			case x < 18:
				return tw.refresh(ch)
			default:
				return tw.policy(ch)
			}
		})
		o.Log = append([]string{fmt.Sprintf("config: router=%s alg=%s post=%v pkjwt=%v caps=%+v", w.Router, w.SigAlg, w.Conf.AuthMethodPost, w.Conf.AuthMethodPrivateKeyJWT, w.Caps)}, o.Log...)
		o.Sample = map[string]any{"seed": spec.Seed, "router": w.Router, "steps": o.Trace}
	})
	o.Nontrivial = o.Probes["exchange-success"] > 0
	return o
}
