package props

import (
	"context"
	"crypto/ecdsa"
	"crypto/ed25519"
	"crypto/hmac"
	"crypto/rsa"
	"crypto/sha256"
	"crypto/sha512"
	"crypto/x509"
	"encoding/base64"
	"encoding/json"
	"encoding/pem"
	"fmt"
	"hash"
	"net/http"
	"net/url"
	"strings"
	"testing"
	"time"

	jose "github.com/go-jose/go-jose/v4"
	"github.com/zitadel/oidc/v3/pkg/client/rp"
	"github.com/zitadel/oidc/v3/pkg/oidc"
	"github.com/zitadel/oidc/v3/pkg/op"

	"verif/sim/kernel"
	"verif/sim/world"
)

// C02: only payloads signed by a trusted key with an allowed algorithm are believed. Genuine tokens of
// simulated flows are manipulated in flight by one operator of a fixed catalogue and delivered to the five
// verifier surfaces. No schedule dimension: this is fault enumeration over a Byzantine network actor.

type genuine struct {
	surface string
	token   string
	key     any // private key that signed it
	pub     any // its public key
	alg     jose.SignatureAlgorithm
	kid     string
	deliver func(tok string) (accepted bool, claimsSub string, err string)
	// key-set manipulation hooks of the surface (provider key set or client key)
}

type tamperOp struct {
	name string
	// returns the manipulated token ("" = operator not applicable) and whether acceptance is admissible
	apply func(g *genuine, c *c02) (tok string, mayAccept bool)
}

type c02 struct {
	w     *world.World
	o     *kernel.Outcome
	other *world.SignKey // a second published key of the same family (when the shape has one)
	shape string
	step  int
	// private key registered for the client that delegated assertions name as subject (not as issuer)
	subjectKey jose.JSONWebKey
	third      *world.SignKey // shape two-plus-other-type: the published key of the other key type
}

func (c *c02) viol(rule, site, format string, a ...any) {
	c.o.Violate("C02", rule, site, c.step, format, a...)
}

func splitJWT(tok string) (h, p, s string) {
	parts := strings.Split(tok, ".")
	if len(parts) != 3 {
		return "", "", ""
	}
	return parts[0], parts[1], parts[2]
}

func dec(s string) []byte {
	b, _ := base64.RawURLEncoding.DecodeString(s)
	return b
}

func signWith(payload []byte, alg jose.SignatureAlgorithm, key any, kid string, extraHeader map[string]any) string {
	opts := (&jose.SignerOptions{}).WithType("JWT")
	for k, v := range extraHeader {
		opts.WithHeader(jose.HeaderKey(k), v)
	}
	var sk jose.SigningKey
	if kid == "" {
		sk = jose.SigningKey{Algorithm: alg, Key: key}
	} else {
		sk = jose.SigningKey{Algorithm: alg, Key: jose.JSONWebKey{Key: key, KeyID: kid}}
	}
	s, err := jose.NewSigner(sk, opts)
	if err != nil {
		return ""
	}
	o, err := s.Sign(payload)
	if err != nil {
		return ""
	}
	t, _ := o.CompactSerialize()
	return t
}

func hmacToken(h map[string]any, payload string, alg string, secret []byte) string {
	h["alg"] = alg
	hb, _ := json.Marshal(h)
	signing := base64.RawURLEncoding.EncodeToString(hb) + "." + payload
	var mk func() hash.Hash
	switch alg {
	case "HS256":
		mk = sha256.New
	case "HS384":
		mk = sha512.New384
	default:
		mk = sha512.New
	}
	m := hmac.New(mk, secret)
	m.Write([]byte(signing))
	return signing + "." + base64.RawURLEncoding.EncodeToString(m.Sum(nil))
}

func publicBytes(pub any) map[string][]byte {
	out := map[string][]byte{}
	if der, err := x509.MarshalPKIXPublicKey(pub); err == nil {
		out["der"] = der
		out["pem"] = pem.EncodeToMemory(&pem.Block{Type: "PUBLIC KEY", Bytes: der})
	}
	if jb, err := (&jose.JSONWebKey{Key: pub}).MarshalJSON(); err == nil {
		out["jwk"] = jb
	}
	if r, ok := pub.(*rsa.PublicKey); ok {
		out["modulus"] = r.N.Bytes()
		out["pkcs1-pem"] = pem.EncodeToMemory(&pem.Block{Type: "RSA PUBLIC KEY", Bytes: x509.MarshalPKCS1PublicKey(r)})
	}
	if e, ok := pub.(ed25519.PublicKey); ok {
		out["raw"] = []byte(e)
	}
	return out
}

// unrelatedKey returns a private key of the same type (and curve) as pub that is not its counterpart.
func unrelatedKey(pub any) (any, jose.SignatureAlgorithm) {
	prefix := "ed"
	switch p := pub.(type) {
	case *rsa.PublicKey:
		prefix = "rsa"
	case *ecdsa.PublicKey:
		switch p.Curve.Params().BitSize {
		case 256:
			prefix = "p256-"
		case 384:
			prefix = "p384-"
		default:
			prefix = "p521-"
		}
	}
	want, _ := (&jose.JSONWebKey{Key: pub}).MarshalJSON()
	for i := 7; i >= 0; i-- {
		k := world.FixtureKey(prefix, i)
		pk := k.Public()
		pk.KeyID = ""
		got, _ := (&pk).MarshalJSON()
		if string(got) != string(want) {
			return k.Key, ""
		}
	}
	panic("no unrelated fixture key")
}

func otherAlgSameKey(alg jose.SignatureAlgorithm) jose.SignatureAlgorithm {
	switch alg {
	case jose.RS256:
		return jose.RS384
	case jose.RS384, jose.RS512:
		return jose.RS256
	case jose.PS256:
		return jose.PS384
	}
	return ""
}

var tamperOps = []tamperOp{
	{"identity", func(g *genuine, c *c02) (string, bool) { return g.token, true }},
	{"strip-signature", func(g *genuine, c *c02) (string, bool) { h, p, _ := splitJWT(g.token); return h + "." + p + ".", false }},
	{"alg-none", func(g *genuine, c *c02) (string, bool) {
		_, p, _ := splitJWT(g.token)
		return b64(`{"alg":"none","typ":"JWT","kid":"`+g.kid+`"}`) + "." + p + ".", false
	}},
	{"alg-none-with-old-signature", func(g *genuine, c *c02) (string, bool) {
		_, p, s := splitJWT(g.token)
		return b64(`{"alg":"None","typ":"JWT"}`) + "." + p + "." + s, false
	}},
	{"hmac-with-public-key", nil}, // expanded below
	{"resign-unrelated-key-same-kid", func(g *genuine, c *c02) (string, bool) {
		k, _ := unrelatedKey(g.pub)
		_, p, _ := splitJWT(g.token)
		return signWith(dec(p), g.alg, k, g.kid, nil), false
	}},
	{"resign-unrelated-key-no-kid", func(g *genuine, c *c02) (string, bool) {
		k, _ := unrelatedKey(g.pub)
		_, p, _ := splitJWT(g.token)
		return signWith(dec(p), g.alg, k, "", nil), false
	}},
	{"resign-with-key-of-named-subject", func(g *genuine, c *c02) (string, bool) {
		// an assertion whose subject is another registered client than its issuer, signed by the subject's own
		// registered key: the key must be the issuer's
		if g.surface != "delegated-assertion" {
			return "", false
		}
		_, p, _ := splitJWT(g.token)
		return signWith(dec(p), jose.RS256, c.subjectKey.Key, c.subjectKey.KeyID, nil), false
	}},
	{"signed-by-another-clients-key-under-its-kid", func(g *genuine, c *c02) (string, bool) {
		// the payload names its client; the signature is another registered client's, made with that client's own
		// key under that key's own id (which the provider has seen and verified before, see the warm-up)
		if g.surface != "client-assertion" && g.surface != "request-object" && g.surface != "delegated-assertion" {
			return "", false
		}
		_, p, _ := splitJWT(g.token)
		return signWith(dec(p), jose.RS256, c.subjectKey.Key, c.subjectKey.KeyID, nil), false
	}},
	{"swap-kid-to-other-published-key", func(g *genuine, c *c02) (string, bool) {
		if c.other == nil || g.surface == "client-assertion" || g.surface == "request-object" {
			return "", false
		}
		_, p, _ := splitJWT(g.token)
		return signWith(dec(p), g.alg, g.key, c.other.KID, nil), false
	}},
	{"signed-by-published-enc-key", func(g *genuine, c *c02) (string, bool) {
		// a key that is published for encryption only signs the payload under its own kid
		if c.other == nil || c.other.Use != "enc" || g.surface == "client-assertion" || g.surface == "request-object" {
			return "", false
		}
		_, p, _ := splitJWT(g.token)
		return signWith(dec(p), c.other.Alg, c.other.Priv, c.other.KID, nil), false
	}},
	{"signed-by-published-enc-key-no-kid", func(g *genuine, c *c02) (string, bool) {
		if c.other == nil || c.other.Use != "enc" || g.surface == "client-assertion" || g.surface == "request-object" {
			return "", false
		}
		_, p, _ := splitJWT(g.token)
		return signWith(dec(p), c.other.Alg, c.other.Priv, "", nil), false
	}},
	{"unknown-kid", func(g *genuine, c *c02) (string, bool) {
		_, p, _ := splitJWT(g.token)
		return signWith(dec(p), g.alg, g.key, "no-such-kid", nil), c.shape == "single-nokid" // a published key without kid may match any header kid
	}},
	{"flip-payload-byte", func(g *genuine, c *c02) (string, bool) {
		h, p, s := splitJWT(g.token)
		pb := dec(p)
		i := strings.Index(string(pb), `"sub":"`)
		if i < 0 {
			i = 5
		} else {
			i += 7
		}
		pb[i] ^= 1
		return h + "." + base64.RawURLEncoding.EncodeToString(pb) + "." + s, false
	}},
	{"reencode-payload-whitespace", func(g *genuine, c *c02) (string, bool) {
		h, p, s := splitJWT(g.token)
		return h + "." + base64.RawURLEncoding.EncodeToString(append([]byte(" "), dec(p)...)) + "." + s, false
	}},
	{"reencode-payload-keyorder", func(g *genuine, c *c02) (string, bool) {
		h, p, s := splitJWT(g.token)
		var m map[string]any
		json.Unmarshal(dec(p), &m)
		m["zzz"] = 1
		nb, _ := json.Marshal(m)
		return h + "." + base64.RawURLEncoding.EncodeToString(nb) + "." + s, false
	}},
	{"payload-padding", func(g *genuine, c *c02) (string, bool) {
		h, p, s := splitJWT(g.token)
		return h + "." + p + "=." + s, false
	}},
	{"truncate-signature", func(g *genuine, c *c02) (string, bool) { return g.token[:len(g.token)-6], false }},
	{"two-segments", func(g *genuine, c *c02) (string, bool) { h, p, _ := splitJWT(g.token); return h + "." + p, false }},
	{"four-segments", func(g *genuine, c *c02) (string, bool) { return g.token + "." + b64("x"), false }},
	{"alg-outside-allow-list", func(g *genuine, c *c02) (string, bool) {
		a := otherAlgSameKey(g.alg)
		if a == "" {
			return "", false
		}
		_, p, _ := splitJWT(g.token)
		return signWith(dec(p), a, g.key, g.kid, nil), g.surface == "client-assertion" || g.surface == "request-object" // those surfaces state no allow-list of their own
	}},
	{"wrong-key-type-for-alg", func(g *genuine, c *c02) (string, bool) {
		// header names an algorithm of another family; the signature is made with a key of that family under the genuine kid
		var k jose.JSONWebKey
		var alg jose.SignatureAlgorithm
		if _, isRSA := g.pub.(*rsa.PublicKey); isRSA {
			k, alg = world.FixtureKey("p256-", 5), jose.ES256
		} else {
			k, alg = world.FixtureKey("rsa", 7), jose.RS256
		}
		_, p, _ := splitJWT(g.token)
		return signWith(dec(p), alg, k.Key, g.kid, nil), false
	}},
	{"json-general-two-signatures", func(g *genuine, c *c02) (string, bool) {
		h, p, s := splitJWT(g.token)
		k, _ := unrelatedKey(g.pub)
		t2 := signWith(dec(p), g.alg, k, "attacker", nil)
		h2, _, s2 := splitJWT(t2)
		return fmt.Sprintf(`{"payload":%q,"signatures":[{"protected":%q,"signature":%q},{"protected":%q,"signature":%q}]}`, p, h, s, h2, s2), false
	}},
	{"json-flattened", func(g *genuine, c *c02) (string, bool) {
		h, p, s := splitJWT(g.token)
		return fmt.Sprintf(`{"payload":%q,"protected":%q,"signature":%q}`, p, h, s), false
	}},
	{"json-flattened-smuggled-payload", func(g *genuine, c *c02) (string, bool) {
		// a flattened JWS whose unprotected header smuggles ".<evil claims>." so that a dot-split sees three segments
		h, p, s := splitJWT(g.token)
		var m map[string]any
		json.Unmarshal(dec(p), &m)
		m["sub"] = "mallory"
		m["exp"] = time.Now().Add(100 * time.Hour).Unix()
		evil, _ := json.Marshal(m)
		return fmt.Sprintf(`{"header":{"x":"a.%s.b"},"payload":%q,"protected":%q,"signature":%q}`, base64.RawURLEncoding.EncodeToString(evil), p, h, s), false
	}},
	{"json-general-smuggled-payload", func(g *genuine, c *c02) (string, bool) {
		h, p, s := splitJWT(g.token)
		var m map[string]any
		json.Unmarshal(dec(p), &m)
		m["sub"] = "mallory"
		evil, _ := json.Marshal(m)
		return fmt.Sprintf(`{"payload":%q,"signatures":[{"header":{"x":"a.%s.b"},"protected":%q,"signature":%q}]}`, p, base64.RawURLEncoding.EncodeToString(evil), h, s), false
	}},
	{"compact-with-evil-middle", func(g *genuine, c *c02) (string, bool) {
		h, p, s := splitJWT(g.token)
		var m map[string]any
		json.Unmarshal(dec(p), &m)
		m["sub"] = "mallory"
		evil, _ := json.Marshal(m)
		return h + "." + base64.RawURLEncoding.EncodeToString(evil) + "." + s, false
	}},
	{"empty-signature-segment-alg-kept", func(g *genuine, c *c02) (string, bool) {
		h, p, _ := splitJWT(g.token)
		return h + "." + p + "." + b64(""), false
	}},
	{"embedded-jwk-header", func(g *genuine, c *c02) (string, bool) {
		// attacker key announced in the header ("jwk"), signature by that key
		k, _ := unrelatedKey(g.pub)
		jk := jose.JSONWebKey{Key: k}
		pubk := jk.Public()
		_, p, _ := splitJWT(g.token)
		return signWith(dec(p), g.alg, k, g.kid, map[string]any{"jwk": pubk}), false
	}},
}

func RunC02(t *testing.T, spec kernel.Spec) *kernel.Outcome {
	o := inBubble(t, spec, func(o *kernel.Outcome, tape *kernel.Tape) {
		cfg := tape.Sub("cfg02")
		caps := world.Caps{ClientCredentials: true, TokenExchange: true, Device: true}
		// a third of the providers are given a separate key set for access tokens (their own keys plus key x of another
		// token service) and none for hints: hints are then still checked with the provider's own keys only
		var atKS *extraKeySet
		var opts []op.Option
		if tape.Sub("cfg-keysets").Bool(1, 3) {
			atKS = &extraKeySet{}
			opts = append(opts, op.WithAccessTokenKeySet(atKS))
		}
		w, err := world.NewStd(o, tape, world.StdOptions{Router: spec.Params["router"], ForceCaps: &caps, AllGrants: true, NoCustomClaims: true, Options: opts, ForceConfig: func(c *op.Config) {
			c.AuthMethodPrivateKeyJWT, c.RequestObjectSupported, c.GrantTypeRefreshToken = true, true, true
		}})
		if err != nil {
			o.Infra = "world: " + err.Error()
			return
		}
		if atKS != nil {
			// the provider's current key, the keys of the key-set shapes, the rotation and the stranger are fixtures
			// KeyN .. KeyN+3: x is another one (families with too few fixtures go without the option's extra key)
			atKS.store = w.Store
			if free := world.UnusedFixtureKeys(w.AlgPrefix, w.KeyN, 4); len(free) > 0 {
				atKS.extra = free[0]
				atKS.extra.KeyID = "x-1"
				o.Probe("separate-access-token-keyset")
			} else {
				atKS.extra.KeyID = "x-none"
				atKS = nil
			}
		}
		c := &c02{w: w, o: o}
		// key-set shape of the provider
		cur := w.Store.CurrentKey()
		shapes := []string{"single", "two-same-type", "single-nokid", "two-nokid", "mixed-types", "with-enc-key", "use-empty", "two-plus-other-type"}
		c.shape = shapes[cfg.Int(len(shapes))]
		second := world.SignKeyFromFixture(world.FixtureKey(w.AlgPrefix, w.KeyN+1), w.SigAlg, "sig-second")
		switch c.shape {
		case "two-same-type":
			w.Store.Keys = append(w.Store.Keys, second)
			c.other = second
		case "single-nokid":
			cur.KID = ""
		case "two-nokid":
			cur.KID, second.KID = "", ""
			w.Store.Keys = append(w.Store.Keys, second)
			c.other = second
		case "mixed-types":
			pfx, alg := "p256-", jose.ES256
			if w.AlgPrefix != "rsa" {
				pfx, alg = "rsa", jose.RS256
			}
			m := world.SignKeyFromFixture(world.FixtureKey(pfx, 2), alg, "sig-other-type")
			w.Store.Keys = append(w.Store.Keys, m)
			c.other = m
		case "two-plus-other-type":
			pfx, alg := "p256-", jose.ES256
			if w.AlgPrefix != "rsa" {
				pfx, alg = "rsa", jose.RS256
			}
			c.third = world.SignKeyFromFixture(world.FixtureKey(pfx, 2), alg, "sig-other-type")
			w.Store.Keys = append(w.Store.Keys, second, c.third)
			c.other = second
		case "with-enc-key":
			second.Use = "enc"
			w.Store.Keys = append(w.Store.Keys, second)
			c.other = second
		case "use-empty":
			cur.Use = world.UseEmpty
		}
		b := w.Net.NewBrowser("b1")
		client := "web"
		w.Store.Clients[client].TokenType = op.AccessTokenTypeJWT
		s, err := codeFlow(w, b, flowOpts{client: client, scopes: []string{oidc.ScopeOpenID, oidc.ScopeEmail}})
		if err != nil {
			o.Probe("setup-failed")
			o.Logf("setup (shape %s, alg %s): %v", c.shape, w.SigAlg, err)
			if c.shape == "two-nokid" {
				// two published keys without kid: the provider cannot even verify its own kid-less tokens; nothing to tamper with
				o.Probe("setup-ambiguous-own-keys")
			}
			return
		}
		ks := rp.NewRemoteKeySet(w.Net.Client("rp", nil, false), w.Issuer+"/keys")
		if !strings.Contains(c.shape, "nokid") && tape.Sub("cfg-skip").Bool(1, 2) {
			// the relying party's key set with the SkipRemoteCheck option (it concerns kid-less tokens against kid-less
			// keys only; with named keys nothing about what is believed may change)
			ks = rp.NewRemoteKeySet(w.Net.Client("rp", nil, false), w.Issuer+"/keys", rp.SkipRemoteCheck())
			o.Probe("rp-key-set-with-skip-remote-check")
		}
		idv := rp.NewIDTokenVerifier(w.Issuer, client, ks, rp.WithSupportedSigningAlgorithms(string(w.SigAlg)), rp.WithNonce(func(context.Context) string { return "nonce-1" }))
		ck := w.ClientKeys["jwt"]
		now := time.Now()
		assertion := w.Assertion("jwt", "jwt", "jwt", []string{w.Issuer}, now, now.Add(time.Hour), ck)
		roPayload := fmt.Sprintf(`{"iss":"jwt","aud":[%q],"client_id":"jwt","response_type":"code","state":"from-object","scope":"openid email"}`, w.Issuer)
		requestObject := signRaw([]byte(roPayload), jose.RS256, ck.Key, ck.KeyID)
		// a second client with a registered key, named as subject of delegated assertions issued by client jwt
		c.subjectKey = world.FixtureKey("rsa", 5)
		c.subjectKey.KeyID = "web-key-1"
		subPub := c.subjectKey.Public()
		w.Store.Clients["web"].Key = &subPub
		delegated := w.Assertion("jwt", "web", "jwt", []string{w.Issuer}, now, now.Add(time.Hour), ck)
		// history: the second client uses its own key for itself first, so whatever the provider remembers about
		// verified keys or signatures is warm before the manipulated tokens arrive
		if _, ok := isTokenSuccess(w.PostForm("/oauth/token", url.Values{"grant_type": {string(oidc.GrantTypeBearer)}, "assertion": {w.Assertion("web", "web", "web", []string{w.Issuer}, now, now.Add(time.Hour), c.subjectKey)}}, world.Creds{Mode: "none"})); ok {
			o.Probe("second-client-key-used")
		}
		delegVerifier := op.NewJWTProfileVerifier(w.OP.Storage, w.Issuer, time.Hour, time.Second, op.SubjectCheck(func(*oidc.JWTTokenRequest) error { return nil }))
		// relying parties that take the allowed algorithms from the provider's discovery document
		// (rp.WithSigningAlgsFromDiscovery): a document served for another issuer name over the same keys advertises, in
		// turn, the algorithm in use, symmetric ones only, "none" and a symmetric one, and another asymmetric algorithm;
		// an ID token of that issuer, correctly signed with the published key, is believed exactly when its algorithm
		// is on the list
		if !strings.Contains(c.shape, "nokid") {
			var doc map[string]any
			if r := rawGet(w, "/.well-known/openid-configuration"); jsonUnmarshal(r.Body, &doc) == nil && doc != nil {
				otherAlg := "ES384"
				if string(cur.Alg) == otherAlg {
					otherAlg = "PS512"
				}
				for li, list := range [][]string{{string(cur.Alg)}, {"HS256"}, {"none", "HS512"}, {otherAlg}, {"HS384", otherAlg}, {otherAlg, string(cur.Alg)}} {
					iss := fmt.Sprintf("https://algs%d.sim", li)
					d := map[string]any{}
					for k, v := range doc {
						d[k] = v
					}
					d["issuer"], d["id_token_signing_alg_values_supported"] = iss, list
					body, _ := json.Marshal(d)
					w.Net.Hosts[fmt.Sprintf("algs%d.sim", li)] = http.HandlerFunc(func(rw http.ResponseWriter, r *http.Request) {
						rw.Header().Set("Content-Type", "application/json")
						rw.Write(body)
					})
					party, err := rp.NewRelyingPartyOIDC(context.Background(), iss, client, "secret-"+client, "https://"+client+".sim/callback", []string{"openid"},
						rp.WithHTTPClient(w.Net.Client("rp-algs", nil, false)), rp.WithSigningAlgsFromDiscovery())
					if err != nil {
						o.Logf("rp from discovery %v: %v", list, err)
						continue
					}
					o.Probe("relying-parties-with-algorithms-from-discovery")
					payload, _ := json.Marshal(map[string]any{"iss": iss, "sub": "u1", "aud": []string{client}, "azp": client, "iat": now.Unix(), "exp": now.Add(time.Hour).Unix(), "auth_time": now.Unix()})
					tok := signRaw(payload, cur.Alg, cur.Priv, cur.KID)
					_, verr := rp.VerifyIDToken[*oidc.IDTokenClaims](context.Background(), tok, party.IDTokenVerifier())
					listed := false
					for _, a := range list {
						listed = listed || a == string(cur.Alg)
					}
					site := "rp-from-discovery/" + strings.Join(list, "+")
					if string(cur.Alg) != list[0] && !listed {
						site = "rp-from-discovery/algorithm-not-advertised"
					}
					switch {
					case verr == nil && !listed:
						c.viol("algorithm-not-allowed", site, "the provider advertises %v for ID tokens; a token signed with %s (published key %q) was believed by a relying party built with WithSigningAlgsFromDiscovery", list, cur.Alg, cur.KID)
					case verr != nil && listed:
						c.viol("genuine-rejected", "rp-from-discovery/advertised", "the provider advertises %v; a correctly signed %s token was rejected: %v", list, cur.Alg, verr)
					}
				}
			}
		}
		surfaces := []*genuine{
			{surface: "rp-id-token", token: s.tokens.IDToken, key: cur.Priv, pub: cur.Pub, alg: cur.Alg, kid: cur.KID, deliver: func(tok string) (bool, string, string) {
				claims, err := rp.VerifyIDToken[*oidc.IDTokenClaims](context.Background(), tok, idv)
				if err != nil {
					return false, "", err.Error()
				}
				return true, claims.Subject, ""
			}},
			{surface: "op-access-token", token: s.tokens.AccessToken, key: cur.Priv, pub: cur.Pub, alg: cur.Alg, kid: cur.KID, deliver: func(tok string) (bool, string, string) {
				r := bearerGet(w, "/userinfo", tok)
				var m map[string]any
				jsonUnmarshal(r.Body, &m)
				sub, _ := m["sub"].(string)
				return r.Status == 200, sub, firstLine(r.Body)
			}},
			{surface: "op-id-token-hint", token: s.tokens.IDToken, key: cur.Priv, pub: cur.Pub, alg: cur.Alg, kid: cur.KID, deliver: func(tok string) (bool, string, string) {
				r := rawGet(w, "/end_session?id_token_hint="+url.QueryEscape(tok))
				sub := ""
				if r.Ex != nil {
					for _, j := range w.Store.JournalFor(r.Ex.ID) {
						if j.Method == "TerminateSession" {
							sub = strings.Split(j.Args, ",")[0]
						}
					}
				}
				return r.Status == 302, sub, firstLine(r.Body)
			}},
			{surface: "client-assertion", token: assertion, key: ck.Key, pub: ck.Public().Key, alg: jose.RS256, kid: ck.KeyID, deliver: func(tok string) (bool, string, string) {
				r := w.PostForm("/oauth/token", url.Values{"grant_type": {string(oidc.GrantTypeBearer)}, "assertion": {tok}}, world.Creds{Mode: "none"})
				tr, ok := isTokenSuccess(r)
				sub := ""
				if ok {
					_, sub, _, _ = w.DecodeAccess(tr.AccessToken)
				}
				return ok, sub, firstLine(r.Body)
			}},
			{surface: "delegated-assertion", token: delegated, key: ck.Key, pub: ck.Public().Key, alg: jose.RS256, kid: ck.KeyID, deliver: func(tok string) (bool, string, string) {
				req, err := op.VerifyJWTAssertion(context.Background(), tok, delegVerifier)
				if err != nil {
					return false, "", err.Error()
				}
				return true, req.Issuer, ""
			}},
			{surface: "request-object", token: requestObject, key: ck.Key, pub: ck.Public().Key, alg: jose.RS256, kid: ck.KeyID, deliver: func(tok string) (bool, string, string) {
				q := url.Values{"client_id": {"jwt"}, "redirect_uri": {"https://jwt.sim/callback"}, "response_type": {"code"}, "scope": {"openid"}, "state": {"plain"}, "request": {tok}}
				r := b.Get(w.Issuer + "/authorize?" + q.Encode())
				if r.Status == 302 && strings.Contains(r.Location, "/login?") {
					u, _ := url.Parse(r.Location)
					if a := w.Store.AuthReqSnapshot(u.Query().Get("authRequestID")); a != nil && a.State == "from-object" {
						return true, "jwt", ""
					}
				}
				return false, "", firstLine(r.Body)
			}},
		}
		genuineSub := map[string]string{"rp-id-token": "u1", "op-access-token": "u1", "op-id-token-hint": "u1", "client-assertion": "jwt", "request-object": "jwt", "delegated-assertion": "jwt"}
		// expand the HMAC operator
		var ops []tamperOp
		for _, op0 := range tamperOps {
			if op0.name != "hmac-with-public-key" {
				ops = append(ops, op0)
				continue
			}
			for _, alg := range []string{"HS256", "HS384", "HS512"} {
				for _, enc := range []string{"pem", "der", "jwk", "modulus", "pkcs1-pem", "raw"} {
					alg, enc := alg, enc
					ops = append(ops, tamperOp{"hmac-" + alg + "-" + enc, func(g *genuine, c *c02) (string, bool) {
						secret, ok := publicBytes(g.pub)[enc]
						if !ok {
							return "", false
						}
						_, p, _ := splitJWT(g.token)
						return hmacToken(map[string]any{"typ": "JWT", "kid": g.kid}, p, alg, secret), false
					}})
				}
			}
		}
		o.StepIDs = []int{}
		id := 0
		for _, g := range surfaces {
			for _, top := range ops {
				id++
				if o.Spec.KeepSet && !containsInt(o.Spec.Keep, id) {
					continue
				}
				c.step = id
				tok, mayAccept := top.apply(g, c)
				if tok == "" {
					continue
				}
				o.StepIDs = append(o.StepIDs, id)
				o.Steps++
				accepted, sub, detail := g.deliver(tok)
				site := g.surface + "/" + top.name
				o.Distinct(fmt.Sprintf("%s alg=%s shape=%s", site, w.SigAlg, c.shape))
				if top.name == "identity" {
					if !accepted {
						// the genuine token must be believed - unless the published key set is itself ambiguous or unusable for it
						if c.shape == "two-nokid" && g.surface != "client-assertion" && g.surface != "request-object" && g.surface != "delegated-assertion" {
							o.Probe("genuine-rejected-ambiguous-keyset")
						} else {
							c.viol("genuine-rejected", site, "the unmodified %s was rejected (alg %s, key-set shape %s): %s", g.surface, w.SigAlg, c.shape, detail)
						}
					} else {
						o.Probe("genuine-accepted")
					}
					continue
				}
				o.Fault(strings.SplitN(top.name, "-", 2)[0])
				if accepted {
					if !mayAccept {
						c.viol("forged-accepted", site, "%s manipulated with %q was believed (alg %s, key-set shape %s, router %s); subject %q", g.surface, top.name, w.SigAlg, c.shape, w.Router, sub)
					} else {
						o.Probe("admissible-accept")
					}
					if sub != "" && sub != genuineSub[g.surface] {
						c.viol("claims-not-signed", site, "%s manipulated with %q: the claims handed back (sub %q) are not the payload the signature covers (sub %q)", g.surface, top.name, sub, genuineSub[g.surface])
					}
				} else {
					o.Probe("tampered-rejected")
				}
			}
		}
		// ambiguity: a kid-less token with two fitting keys must be refused, never guessed
		if c.shape == "two-same-type" || c.shape == "with-enc-key" {
			_, p, _ := splitJWT(s.tokens.IDToken)
			nokid := signWith(dec(p), cur.Alg, cur.Priv, "", nil)
			id++
			if !o.Spec.KeepSet || containsInt(o.Spec.Keep, id) {
				c.step = id
				o.StepIDs = append(o.StepIDs, id)
				accepted, _, _ := surfaces[0].deliver(nokid)
				if again, _, _ := surfaces[0].deliver(nokid); again { // once more, now that the key set has just fetched
					accepted = true
				}
				acc2, _, _ := surfaces[2].deliver(nokid)
				o.Probe("kidless-probes")
				if c.shape == "two-same-type" && (accepted || acc2) {
					c.viol("ambiguity-guessed", "kidless/two-candidates", "a token without kid was accepted although two published keys fit its algorithm (rp=%v hint=%v)", accepted, acc2)
				}
			}
		}
		// a history of kid-less tokens on one long-lived key set with two keys of the token's type and one of another:
		// ambiguous before, ambiguous after - whatever was verified in between
		id++
		if c.shape == "two-plus-other-type" && (!o.Spec.KeepSet || containsInt(o.Spec.Keep, id)) {
			c.step = id
			o.StepIDs = append(o.StepIDs, id)
			o.Steps++
			_, p, _ := splitJWT(s.tokens.IDToken)
			idv2 := rp.NewIDTokenVerifier(w.Issuer, client, ks, rp.WithSupportedSigningAlgorithms(string(w.SigAlg), string(c.third.Alg)), rp.WithNonce(func(context.Context) string { return "nonce-1" }))
			try := func(tok string) bool {
				_, err := rp.VerifyIDToken[*oidc.IDTokenClaims](context.Background(), tok, idv2)
				return err == nil
			}
			byCur, bySecond := signWith(dec(p), cur.Alg, cur.Priv, "", nil), signWith(dec(p), second.Alg, second.Priv, "", nil)
			byThird := signWith(dec(p), c.third.Alg, c.third.Priv, "", nil)
			o.Probe("kidless-history-probes")
			for round := 0; round < 2; round++ {
				for _, nt := range [][2]string{{"second", bySecond}, {"current", byCur}} {
					name, tok := nt[0], nt[1]
					if round == 1 && try(byThird) { // each time right after a kid-less token of the other key type was verified
						o.Probe("kidless-unique-candidate-accepted")
					}
					o.Fault("kidless")
					if try(tok) {
						c.viol("ambiguity-guessed", "kidless/history", "a token without kid signed by the %s of two published %s keys was accepted (%s a kid-less token of the other key type was verified on the same key set)", name, w.SigAlg, map[int]string{0: "before", 1: "right after"}[round])
					}
				}
			}
		}
		// a hint signed by the key that only the access-token key set knows: a key trusted for one kind of token is not a
		// trusted key for another kind
		id++
		if atKS != nil && (!o.Spec.KeepSet || containsInt(o.Spec.Keep, id)) {
			c.step = id
			o.StepIDs = append(o.StepIDs, id)
			o.Steps++
			_, p, _ := splitJWT(s.tokens.IDToken)
			byX := signWith(dec(p), cur.Alg, atKS.extra.Key, "x-1", nil)
			o.Fault("other-keyset")
			if accepted, sub, _ := surfaces[2].deliver(byX); accepted {
				c.viol("forged-accepted", surfaces[2].surface+"/signed-by-a-key-of-the-access-token-keyset", "an ID token hint signed with key x-1, which the operator added to the ACCESS-TOKEN key set only, was believed; subject %q", sub)
			} else {
				o.Probe("tampered-rejected")
			}
		}
		// epilogue (a history, not a single token): the provider rotates its key and retires the old one. The
		// long-lived verifiers above (the RP's remote key set has the old key cached) must believe the new key's
		// tokens and, once the new key set has been fetched, no longer the retired key's.
		id++
		if cur.KID != "" && (!o.Spec.KeepSet || containsInt(o.Spec.Keep, id)) {
			c.step = id
			o.StepIDs = append(o.StepIDs, id)
			o.Steps++
			next := world.SignKeyFromFixture(world.FixtureKey(w.AlgPrefix, w.KeyN+2), w.SigAlg, "sig-next")
			w.Store.RotateKey(next, true)
			s2, err := codeFlow(w, b, flowOpts{client: client, scopes: []string{oidc.ScopeOpenID, oidc.ScopeEmail}})
			if err != nil {
				o.Probe("rotation-flow-failed")
			} else {
				o.Probe("rotation-epilogues")
				for i, tok := range []string{s2.tokens.IDToken, s2.tokens.AccessToken, s2.tokens.IDToken} {
					if accepted, _, detail := surfaces[i].deliver(tok); !accepted {
						c.viol("genuine-rejected", surfaces[i].surface+"/after-rotation", "a token signed with the newly rotated key %s was rejected: %s", next.KID, detail)
					}
				}
				for i, tok := range []string{s.tokens.IDToken, s.tokens.AccessToken, s.tokens.IDToken} {
					o.Fault("retired")
					if accepted, sub, _ := surfaces[i].deliver(tok); accepted {
						c.viol("forged-accepted", surfaces[i].surface+"/signed-by-retired-key-after-refresh", "%s signed with the retired key %s (no longer in the published key set, which the verifier has fetched since) was believed; subject %q", surfaces[i].surface, cur.KID, sub)
					} else {
						o.Probe("tampered-rejected")
					}
				}
				// second part of the history: the provider withdraws every key (its key set document is now an empty list,
				// answered with 200). A token of an unknown key makes the long-lived verifiers look at the document; after
				// that nothing signed by a withdrawn key is believed any more.
				w.Store.Unpublished = true
				_, p2, _ := splitJWT(s2.tokens.IDToken)
				stranger := world.FixtureKey(w.AlgPrefix, w.KeyN+3)
				unknown := signWith(dec(p2), next.Alg, stranger.Key, "sig-unheard-of", nil)
				for i := range surfaces[:3] {
					if accepted, sub, _ := surfaces[i].deliver(unknown); accepted {
						c.viol("forged-accepted", surfaces[i].surface+"/unknown-key-while-no-key-is-published", "%s signed with a key that was never published was believed; subject %q", surfaces[i].surface, sub)
					}
				}
				for i, tok := range []string{s2.tokens.IDToken, s2.tokens.AccessToken, s2.tokens.IDToken} {
					o.Fault("withdrawn")
					if accepted, sub, _ := surfaces[i].deliver(tok); accepted {
						c.viol("forged-accepted", surfaces[i].surface+"/signed-by-withdrawn-key-after-empty-key-set", "%s signed with key %s was believed although the provider has withdrawn every key and the verifier has fetched the empty key set since; subject %q", surfaces[i].surface, next.KID, sub)
					} else {
						o.Probe("withdrawn-key-rejected")
					}
				}
				w.Store.Unpublished = false
			}
		}
		// last part of the history: time passes beyond the lifetime of the first ID token. An expired hint that was
		// validly signed may still name its user at logout (C18); one that never was validly signed names nobody, however
		// old it is - "expired" is a statement about a token whose signature has been verified.
		id++
		if cur.KID != "" && !strings.Contains(c.shape, "nokid") && (!o.Spec.KeepSet || containsInt(o.Spec.Keep, id)) {
			c.step = id
			o.StepIDs = append(o.StepIDs, id)
			o.Steps++
			w.Advance(w.Store.Clients[client].IDLifetime + 2*time.Minute)
			hint := surfaces[2]
			_, pOld, _ := splitJWT(s.tokens.IDToken)
			stranger := world.FixtureKey(w.AlgPrefix, w.KeyN+3)
			for _, f := range []struct{ name, tok string }{
				{"signed-by-a-key-never-published-same-kid", signWith(dec(pOld), cur.Alg, stranger.Key, cur.KID, nil)},
				{"signed-by-a-key-never-published-unknown-kid", signWith(dec(pOld), cur.Alg, stranger.Key, "sig-rotated-away", nil)},
				{"signed-by-a-key-never-published-no-kid", signWith(dec(pOld), cur.Alg, stranger.Key, "", nil)},
			} {
				o.Fault("expired-forgery")
				if accepted, sub, _ := hint.deliver(f.tok); accepted {
					c.viol("forged-accepted", hint.surface+"/expired-and-"+f.name, "an expired id_token_hint %s was believed at logout; subject %q", f.name, sub)
				} else {
					o.Probe("tampered-rejected")
				}
				// ... and as a hint at the authorization endpoint it must not name a user either
				q := url.Values{"client_id": {client}, "redirect_uri": {w.Store.Clients[client].Redirects[0]}, "response_type": {"code"}, "scope": {"openid"}, "state": {"s"}, "id_token_hint": {f.tok}}
				r := b.Get(w.Issuer + "/authorize?" + q.Encode())
				if r.Status == 302 && strings.Contains(r.Location, "/login?") {
					u, _ := url.Parse(r.Location)
					if a := w.Store.AuthReqSnapshot(u.Query().Get("authRequestID")); a != nil && a.HintSubject != "" {
						c.viol("forged-accepted", "op-id-token-hint/authorize/expired-and-"+f.name, "an expired id_token_hint %s named user %q at the authorization endpoint", f.name, a.HintSubject)
					}
				}
			}
			o.Probe("expired-forgeries-presented")
		}
		o.Log = append([]string{fmt.Sprintf("config: router=%s alg=%s shape=%s", w.Router, w.SigAlg, c.shape)}, o.Log...)
		o.Sample = map[string]any{"seed": spec.Seed, "router": w.Router, "alg": string(w.SigAlg), "key_set_shape": c.shape, "operators": len(ops), "surfaces": len(surfaces)}
		o.Trace = []string{fmt.Sprintf("router=%s alg=%s shape=%s", w.Router, w.SigAlg, c.shape)}
	})
	o.Nontrivial = o.Probes["genuine-accepted"] > 0 && o.Probes["tampered-rejected"] > 0
	return o
}
