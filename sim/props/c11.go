package props

import (
	"context"
	"fmt"
	"net/http"
	"net/url"
	"slices"
	"strings"
	"testing"

	"github.com/zitadel/oidc/v3/pkg/oidc"
	"golang.org/x/oauth2"

	"verif/sim/kernel"
	"verif/sim/world"
)

// C11: authorization response parameters arrive intact and cannot inject markup. The simulated part is the
// three-party pipeline OP -> user agent -> client; the parameter values are seeded generation (said plainly).

var hostileStrings = []string{"plain", "a+/=b c", "return to dashboard tab2", "QUJD REVG SElK TE1O UFFS VFVW", "ab cd+ef/gh ij kl mn op q=", "a&b=c", "100%", "%41%zz", "#frag?x=y", "q?uestion", `"quoted"`, `'single'`, "<script>alert(1)</script>", `"><img src=x onerror=alert(1)>`,
	"üñíçødé ✓ 日本", "tab\tnew\nline", " leading and trailing ", "back\\slash", "semi;colon,comma", "&amp;&lt;", "{{.Params}}", "`backtick`", "a=b&state=other", "‮\u0000x"}

func genString(ch *kernel.Chooser) string {
	if ch.Bool(3, 4) {
		return hostileStrings[ch.Int(len(hostileStrings))]
	}
	const alphabet = "abcXYZ019 +/=&%#?\"'<>\\;:,.~!@$^*()[]{}|`-_\t\nüé日 "
	rs := []rune(alphabet)
	n := ch.Range(1, 12)
	var sb strings.Builder
	for i := 0; i < n; i++ {
		sb.WriteRune(rs[ch.Int(len(rs))])
	}
	return sb.String()
}

type c11 struct {
	w      *world.World
	o      *kernel.Outcome
	step   int
	b      *world.Browser
	rp     *world.RPNode
	next   string
	rpMode oidc.ResponseMode
	// kind and storage method of the storage fault of the current step
	faultKind, faultMethod string
}

func modeIsFormPost(m oidc.ResponseMode) bool { return m == oidc.ResponseModeFormPost }

func (c *c11) viol(rule, site, format string, a ...any) {
	c.o.Violate("C11", rule, "router"+c.w.Router+"/"+site, c.step, format, a...)
}

// raw drives the provider directly with chosen state, mode, response type and redirect URI and decodes the answer.
func (c *c11) raw(ch *kernel.Chooser) string {
	w := c.w
	state := genString(ch)
	nonce := genString(ch)
	mode := ch.Pick("", "query", "fragment", "form_post")
	if mode == "form_post" {
		// U+0000 cannot be represented in an HTML document (the parser replaces it); it is outside what
		// any auto-submitting form can carry, so it is not demanded of this mode
		state, nonce = strings.ReplaceAll(state, "\x00", ""), strings.ReplaceAll(nonce, "\x00", "")
	}
	respType := ch.Pick("code", "code", "id_token token", "id_token")
	// the same set of response types in the other order (RFC 6749 3.1.1: the order of values does not matter): whether
	// the provider accepts that spelling is its business; if it does, the response is the implicit flow's
	respTypeSent := respType
	if respType == "id_token token" && ch.Bool(1, 3) {
		respTypeSent = "token id_token"
		c.o.Probe("response-type-in-the-other-order")
	}
	client := ch.Pick("web", "web", "native")
	cl := w.Store.Clients[client]
	redirect := cl.Redirects[ch.Int(len(cl.Redirects))]
	wantErr := ch.Bool(1, 4)
	noState := ch.Bool(1, 6)
	if noState {
		state = "" // the client sends no state: none may come back
	}
	// the error may also come from the storage: one call of the authorization request or of the callback fails with
	// the storage's reused *oidc.Error value
	storageErrAt, storageK := "", 0
	if wantErr && ch.Bool(1, 2) {
		storageErrAt, storageK = ch.Pick("authorize", "callback"), ch.Range(2, 6)
	}
	inject := func() {
		fired := false
		kind := ch.Pick(world.FaultSentinel, world.FaultSentinel, world.FaultError, world.FaultWrapped, world.FaultWrapped)
		c.faultKind, c.faultMethod = kind, ""
		w.Store.Inject = func(n int, method string, rid int) string {
			if n >= storageK && !fired && method != "GetClientByClientID" {
				fired = true
				c.faultMethod = method
				c.o.Fault(kind)
				return kind
			}
			return ""
		}
	}
	if storageErrAt == "authorize" {
		inject()
	}
	s, resp := startAuthz(w, c.b, flowOpts{client: client, scopes: []string{oidc.ScopeOpenID}, responseType: respTypeSent, responseMode: mode, state: state, noState: noState, nonce: nonce, redirect: redirect, pkce: map[bool]string{true: "S256", false: "none"}[cl.Public()]})
	w.Store.Inject = nil
	desc := fmt.Sprintf("raw %s type=%q mode=%q redirect=%q state=%q err=%v storage-error=%q", client, respTypeSent, mode, redirect, state, wantErr, storageErrAt)
	if storageErrAt == "authorize" {
		if s.authReq != "" {
			return desc + " -> fault not reached"
		}
		if c.faultMethod == "" {
			return desc + fmt.Sprintf(" -> refused (%d) before any storage call failed", resp.Status) // e.g. a spelling of the response type the provider does not accept
		}
		return c.storageError(desc, resp, state, redirect, mode, respType)
	}
	if s.authReq == "" {
		return desc + fmt.Sprintf(" -> authorize refused %d", resp.Status)
	}
	var r *world.Resp
	if storageErrAt == "callback" {
		lr := loginStep(w, c.b, s)
		if lr.Status != 302 {
			return desc + " -> login failed"
		}
		inject()
		r = c.b.Get(lr.Location)
		w.Store.Inject = nil
		return c.storageError(desc, r, state, redirect, mode, respType)
	}
	if wantErr {
		// the callback before the user is authenticated yields an error response (interaction_required) to the client
		r = c.b.Get(w.Issuer + "/authorize/callback?id=" + s.authReq)
	} else {
		lr := loginStep(w, c.b, s)
		if lr.Status != 302 {
			return desc + " -> login failed"
		}
		if ch.Bool(1, 7) {
			// the connection breaks while the provider writes this response (at once or after some bytes): the user
			// agent gets nothing usable - and nothing of this response may turn up in a later one
			n := []int{0, 0, 40, 150, 400}[ch.Int(5)]
			w.Net.Fault = func(*world.Exchange) string { return fmt.Sprintf("write-fail:%d", n) }
			c.b.Get(lr.Location)
			w.Net.Fault = nil
			c.o.Fault("response-write-fails")
			return desc + fmt.Sprintf(" -> connection reset after %d bytes of the response", n)
		}
		r = c.b.Get(lr.Location)
	}
	if panicProbe(c.o, r) || r.Err != nil {
		return desc
	}
	snap := w.Store.AuthReqSnapshot(s.authReq)
	ar, derr := world.DecodeAuthzResponse(r)
	effMode := mode
	if ar != nil {
		effMode = ar.Mode
	}
	site := effMode
	if derr != nil {
		if ar != nil && ar.Mode == "form_post" {
			c.viol("markup", "form_post", "%s: the auto-submit page has unexpected markup: %v", desc, derr)
		} else {
			c.viol("undecodable", site, "%s: the response cannot be decoded by a user agent: %v (status %d, Location %q)", desc, derr, r.Status, r.Location)
		}
		return desc
	}
	c.o.Probe("responses-decoded")
	c.o.Probe("mode-" + ar.Mode)
	// where the parameters travel: as the request asked, else by the default of the response type (code: query; anything
	// that carries a token: fragment - a user agent app reads location.hash and finds nothing in it otherwise)
	wantMode := mode
	if wantMode == "" {
		wantMode = map[bool]string{true: "query", false: "fragment"}[respType == "code"]
	}
	if wantMode == "form_post" && ar.Mode != "form_post" && wantErr {
		c.o.Probe("form_post-error-delivered-by-redirect") // the provider delivers errors by redirect; the values are judged below
	} else if ar.Mode != wantMode {
		c.viol("mode", wantMode+"/"+map[bool]string{true: "error", false: "success"}[wantErr], "%s: the response arrived in the %s, the request asks for %s delivery (response_type %q, response_mode %q)", desc, ar.Mode, wantMode, respTypeSent, mode)
	}
	p := ar.Params
	// where did it go
	if ar.Mode == "form_post" {
		if ar.Forms != 1 {
			c.viol("markup", "form_post", "%s: %d forms in the page", desc, ar.Forms)
		}
		if ar.Target != redirect {
			c.viol("target", "form_post/"+schemeKind(redirect), "%s: form action %q, redirect URI %q", desc, ar.Target, redirect)
		}
	} else {
		// parameters already present in the registered redirect URI are preserved
		ru, _ := url.Parse(redirect)
		tu, _ := url.Parse(ar.Target)
		if ru != nil && tu != nil {
			rq := ru.Query()
			for _, k := range kernel.SortedKeys(rq) {
				vs := rq[k]
				if len(vs) > 1 {
					c.o.Probe("registered-uri-repeats-a-parameter")
				}
				got := tu.Query()[k]
				if ar.Mode == "query" {
					got = p[k]
				}
				// every value the client registered, as often as it registered it (a name may occur more than once)
				rest := append([]string(nil), got...)
				for _, v := range vs {
					i := slices.Index(rest, v)
					if i < 0 {
						c.viol("preexisting-query", site, "%s: parameter %s=%q of the redirect URI did not survive (got %v, target %q)", desc, k, v, got, ar.Target)
						break
					}
					rest = slices.Delete(rest, i, i+1)
				}
			}
			if tu.Scheme != ru.Scheme || tu.Host != ru.Host || tu.Path != ru.Path {
				c.viol("target", site, "%s: response went to %q, redirect URI %q", desc, ar.Target, redirect)
			}
		}
	}
	// values arrive exactly as produced / sent
	if got := p.Get("state"); got != state {
		c.viol("state", site, "%s: state arrived as %q", desc, got)
	}
	if len(p["state"]) > 1 {
		c.viol("state", site+"/dup", "%s: state arrived %d times: %q", desc, len(p["state"]), p["state"])
	}
	if wantErr {
		if p.Get("error") != "interaction_required" || !strings.HasPrefix(p.Get("error_description"), "Unfortunately, the user may be not logged in") {
			c.viol("error", site, "%s: error/error_description arrived as %q / %q", desc, p.Get("error"), p.Get("error_description"))
		}
		if p.Get("code") != "" || p.Get("id_token") != "" || p.Get("access_token") != "" {
			c.viol("error", site+"/leak", "%s: error response carries a code or token", desc)
		}
		return desc + " -> error arrived"
	}
	if snap != nil && snap.SessionState != "" {
		if respType == "code" && p.Get("session_state") != snap.SessionState {
			c.viol("session_state", site, "%s: session_state %q did not arrive (got %q)", desc, snap.SessionState, p.Get("session_state"))
		}
	}
	if respType == "code" {
		if snap == nil || p.Get("code") != snap.Code || snap.Code == "" {
			c.viol("code", site, "%s: code arrived as %q, produced %q", desc, p.Get("code"), codeOf(snap))
		}
	} else {
		idt := p.Get("id_token")
		pl := world.JWTPayload(idt)
		if pl == nil || pl["nonce"] != nonce || pl["sub"] != "u1" {
			c.viol("tokens", site+"/id_token", "%s: id_token did not arrive intact (nonce %v, sent %q)", desc, plNonce(pl), nonce)
		}
		if respType == "id_token token" {
			if id, _, _, ok := w.DecodeAccess(p.Get("access_token")); !ok || w.Store.TokenSnapshot(id) == nil {
				c.viol("tokens", site+"/access_token", "%s: access_token did not arrive intact (%q)", desc, short(p.Get("access_token")))
			}
			if p.Get("token_type") != "Bearer" || p.Get("expires_in") == "" {
				c.viol("tokens", site+"/token_type", "%s: token_type/expires_in arrived as %q/%q", desc, p.Get("token_type"), p.Get("expires_in"))
			}
		}
	}
	return desc + " -> arrived"
}

// storageError judges the answer to a request that failed inside the storage: if it is an error response to the
// client, it carries an error and exactly the state the client sent - none, if it sent none.
func (c *c11) storageError(desc string, r *world.Resp, state, redirect, mode, respType string) string {
	if panicProbe(c.o, r) || r.Err != nil {
		return desc
	}
	ar, err := world.DecodeAuthzResponse(r)
	if err != nil || ar == nil {
		c.o.Probe("storage-error-not-redirected")
		return desc + fmt.Sprintf(" -> %d, no response to the client", r.Status)
	}
	p := ar.Params
	if p.Get("error") == "" {
		return desc + " -> no error (fault not reached)"
	}
	c.o.Probe("storage-error-responses")
	if state == "" {
		c.o.Probe("storage-error-responses-without-state")
	}
	if got := p.Get("state"); got != state || len(p["state"]) > 1 {
		c.viol("state", ar.Mode+"/storage-error", "%s: the client sent state %q, the error response carries %q", desc, state, p["state"])
	}
	// an error travels the way the client asked responses to travel (its user agent decodes that place and no other)
	wantMode := mode
	if wantMode == "" {
		wantMode = map[bool]string{true: "query", false: "fragment"}[respType == "code"]
	}
	if wantMode == "form_post" && ar.Mode != "form_post" {
		// the provider delivers errors by redirect even when form_post was asked for; the statement speaks of values
		// arriving intact, not of errors using the auto-submitting form - counted, not judged
		c.o.Probe("form_post-error-delivered-by-redirect")
	} else if ar.Mode != wantMode {
		c.viol("mode", wantMode+"/storage-error", "%s: the error response arrived in the %s, the request asked for %s delivery (response_type %q, response_mode %q)", desc, ar.Mode, wantMode, respType, mode)
	}
	// what the provider says about the failure arrives character for character: when the description quotes the
	// storage's error text at all, it quotes it exactly
	if d := p.Get("error_description"); strings.Contains(d, "injected storage failure") && !strings.Contains(d, world.ErrInjected.Error()) {
		c.viol("error_description", ar.Mode+"/storage-error", "%s: the error description arrived as %q, the storage's error text is %q", desc, d, world.ErrInjected.Error())
	} else if strings.Contains(d, "injected storage failure") {
		c.o.Probe("storage-error-text-arrived-intact")
	}
	// an OAuth error that the storage itself produced for the failed call (plain, or wrapped by a layer above it) is
	// what the provider produced: its code and description arrive unchanged
	if c.faultKind == world.FaultWrapped || c.faultKind == world.FaultSentinel {
		wantCode, wantDesc := "access_denied", world.WrappedDescription
		if c.faultKind == world.FaultSentinel {
			wantCode, wantDesc = "server_error", "simstore: storage unavailable"
		}
		if p.Get("error") != wantCode || p.Get("error_description") != wantDesc {
			c.viol("error", ar.Mode+"/storage-oauth-error/"+c.faultKind+"/"+c.faultMethod, "%s: the storage answered %s with the OAuth error %s / %q (%s); the client received %q / %q", desc, c.faultMethod, wantCode, wantDesc, c.faultKind, p.Get("error"), p.Get("error_description"))
		} else {
			c.o.Probe("storage-oauth-error-arrived-intact")
		}
	}
	if p.Get("code") != "" || p.Get("id_token") != "" || p.Get("access_token") != "" {
		c.viol("error", ar.Mode+"/storage-error-leak", "%s: error response carries a code or token", desc)
	}
	return desc + " -> error arrived"
}

func schemeKind(uri string) string {
	if strings.HasPrefix(uri, "http://") || strings.HasPrefix(uri, "https://") {
		return "http"
	}
	return "custom-scheme"
}

func codeOf(a *world.AuthReq) string {
	if a == nil {
		return ""
	}
	return a.Code
}

func plNonce(p map[string]any) any {
	if p == nil {
		return nil
	}
	return p["nonce"]
}

// pipeline: the real relying party generates the state, the provider answers in the chosen mode, the user agent
// (or a JS app for the fragment) hands the parameters to the RP's callback, and the login must complete.
func (c *c11) pipeline(ch *kernel.Chooser) string {
	w := c.w
	c.next = genString(ch)
	if modeIsFormPost(c.rpMode) {
		c.next = strings.ReplaceAll(c.next, "\x00", "")
	}
	before, _, _ := c.rp.Snapshot()
	r := c.b.Get("https://web.sim/login")
	if r.Status != http.StatusFound {
		return fmt.Sprintf("pipeline state=%q: RP login -> %d", c.next, r.Status)
	}
	desc := fmt.Sprintf("pipeline mode=%q state=%q", modeOf(r.Location), c.next)
	ar := c.b.Get(r.Location)
	if ar.Status != http.StatusFound || !strings.Contains(ar.Location, "/login?") {
		c.o.Probe("pipeline-authorize-refused")
		return desc + fmt.Sprintf(" -> authorize refused %d %s", ar.Status, firstLine(ar.Body))
	}
	lu, _ := url.Parse(ar.Location)
	cb := w.LoginAndCallback(c.b, lu.Query().Get("authRequestID"), "alice", "pw-alice")
	dec, err := world.DecodeAuthzResponse(cb)
	if err != nil {
		c.viol("undecodable", "pipeline", "%s: %v", desc, err)
		return desc
	}
	// the user agent delivers the parameters to the client
	var fin *world.Resp
	switch dec.Mode {
	case "query":
		fin = c.b.Get(cb.Location)
	case "fragment": // the JS app reads location.hash and calls its backend with the decoded values
		fin = c.b.Get(dec.Target + "?" + dec.Params.Encode())
	default:
		fin = c.b.PostForm(dec.Target, dec.Params)
	}
	after, _, _ := c.rp.Snapshot()
	c.o.Probe("pipeline-runs")
	if len(after) == len(before) {
		c.viol("login-incomplete", "pipeline/"+dec.Mode, "%s: a fault-free login with valid credentials did not complete at the relying party: %d %s", desc, fin.Status, firstLine(fin.Body))
		return desc + " -> FAILED"
	}
	if got := after[len(after)-1].State; got != c.next {
		c.viol("state", "pipeline/"+dec.Mode, "%s: the application callback received state %q", desc, got)
	}
	c.o.Probe("pipeline-completed")
	return desc + " -> completed"
}

func modeOf(authURL string) string {
	u, err := url.Parse(authURL)
	if err != nil {
		return ""
	}
	return u.Query().Get("response_mode")
}

func RunC11(t *testing.T, spec kernel.Spec) *kernel.Outcome {
	o := inBubble(t, spec, func(o *kernel.Outcome, tape *kernel.Tape) {
		w, err := world.NewStd(o, tape, world.StdOptions{Router: spec.Params["router"]})
		if err != nil {
			o.Infra = "world: " + err.Error()
			return
		}
		cfg := tape.Sub("cfg2")
		c := &c11{w: w, o: o, b: w.Net.NewBrowser("b1")}
		mode := []oidc.ResponseMode{"", oidc.ResponseModeQuery, oidc.ResponseModeFragment, oidc.ResponseModeFormPost}[cfg.Int(4)]
		c.rp, err = world.BuildRP(context.Background(), w, world.RPOptions{Client: "web", Secret: "secret-web", Host: "web.sim", Redirect: "https://web.sim/callback",
			Scopes: []string{oidc.ScopeOpenID}, PKCE: cfg.Bool(1, 2), Cookies: true, KeySeed: 5, AuthStyle: oauth2.AuthStyleInHeader, SigAlgs: []string{string(w.SigAlg)}, ResponseMode: mode})
		if err != nil {
			o.Infra = "rp: " + err.Error()
			return
		}
		c.rpMode = mode
		c.rp.StateGen = func() string { return c.next }
		n := 30 + tape.Sub("cfg").Int(30)
		steps(o, tape, n, func(i int, ch *kernel.Chooser) string {
			c.step = i
			if ch.Bool(2, 3) {
				return c.raw(ch)
			}
			return c.pipeline(ch)
		})
		o.Log = append([]string{fmt.Sprintf("config: router=%s rp-mode=%q session_state=%v", w.Router, mode, w.Store.SessionStates)}, o.Log...)
		o.Sample = map[string]any{"seed": spec.Seed, "router": w.Router, "steps": o.Trace}
	})
	o.Nontrivial = o.Probes["responses-decoded"] > 0 && o.Probes["pipeline-runs"] > 0
	return o
}
