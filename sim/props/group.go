package props

import (
	"context"
	"fmt"
	"strings"

	"github.com/anishathalye/porcupine"

	"verif/sim/kernel"
	"verif/sim/world"
)

// Scheduled concurrent groups. Several requests against one provider run as tasks of the seeded park/release
// scheduler: each task parks before it starts and before every storage call of its request, the scheduler picks which
// one proceeds (and, in faulting configurations, whether that storage call fails), so one tape is one exactly
// repeatable interleaving. Invocation and return are stamped with the scheduler's event sequence number (the length
// of its trace), never with simulated time, so "returned before the other was invoked" is a strict order.

type groupOp struct {
	label   string
	do      func(ctx context.Context) *world.Resp
	resp    *world.Resp
	inv     int // event sequence number at which the request was sent
	ret     int // event sequence number during which it returned
	faulted string
	started bool
}

type groupTaskKey struct{}
type groupSchedKey struct{}

// parkHere is a yield point of the scheduled group the context belongs to (no-op outside a group): callbacks that the
// code under test invokes on behalf of the application (a subject check, a claims hook) are places where a real
// application blocks, so the scheduler may switch tasks there.
func parkHere(ctx context.Context, point string) {
	name, ok := ctx.Value(groupTaskKey{}).(string)
	s, ok2 := ctx.Value(groupSchedKey{}).(*kernel.Sched)
	if ok && ok2 {
		s.Park(name, point, nil)
	}
}

// runGroup interleaves the operations; faults>0 lets the scheduler fail up to that many storage calls.
func runGroup(w *world.World, o *kernel.Outcome, stream string, ops []*groupOp, faults int) []string {
	sched := kernel.NewSched(w.Tape, stream, 800)
	byTask := map[string]*groupOp{}
	prev := w.Store.OnCall
	w.Store.OnCall = func(ctx context.Context, method string) string {
		name, ok := ctx.Value(groupTaskKey{}).(string)
		if !ok {
			return ""
		}
		if sched.Park(name, "store."+method, nil) == "fault" {
			byTask[name].faulted = method
			return world.FaultError
		}
		return ""
	}
	defer func() { w.Store.OnCall = prev }()
	// a slow client: the server may be held up wherever it writes body bytes of its answer
	prevW := w.Net.OnWrite
	w.Net.OnWrite = func(ctx context.Context, ex *world.Exchange) {
		if name, ok := ctx.Value(groupTaskKey{}).(string); ok {
			sched.Park(name, "net.write", nil)
		}
	}
	defer func() { w.Net.OnWrite = prevW }()
	// ... and wherever it reaches for its response headers: between any two effects of a handler
	prevH := w.Net.OnHeader
	w.Net.OnHeader = func(ctx context.Context, ex *world.Exchange) {
		if name, ok := ctx.Value(groupTaskKey{}).(string); ok {
			sched.Park(name, "net.header", nil)
		}
	}
	defer func() { w.Net.OnHeader = prevH }()
	for i, op := range ops {
		name := fmt.Sprintf("t%d", i)
		byTask[name] = op
		op.inv, op.ret = -1, -1
		sched.Go(name, func() {
			if sched.Park(name, "start", nil) != "go" {
				return
			}
			op.started = true
			op.inv = len(sched.Trace)
			resp := op.do(context.WithValue(context.WithValue(context.Background(), groupTaskKey{}, name), groupSchedKey{}, sched))
			op.ret = len(sched.Trace)
			op.resp = resp
		})
	}
	injected := 0
	err := sched.Run(func(draining bool) []kernel.Event {
		var evs []kernel.Event
		for _, p := range sched.ParkedTasks() {
			p := p
			evs = append(evs, kernel.Event{Name: "wake:" + p.Task + "@" + p.Point, Task: p.Task, Weight: 6, Drain: true, Apply: func() { sched.Release(p.Task, "go") }})
			if !draining && injected < faults && strings.HasPrefix(p.Point, "store.") && byTask[p.Task].faulted == "" {
				evs = append(evs, kernel.Event{Name: "fault:" + p.Task + "@" + p.Point, Task: p.Task, Weight: 1, Apply: func() {
					injected++
					o.Fault("sched-" + world.FaultError)
					sched.Release(p.Task, "fault")
				}})
			}
		}
		return evs
	}, nil)
	if err != nil {
		o.Infra = err.Error()
	}
	if sched.Strategy != "" {
		o.Probe("schedule-strategy:" + sched.Strategy)
	}
	if len(sched.StuckSeen) > 0 {
		// the code under test made one request wait for another one
		o.ProbeN("requests-blocked-on-other-requests", len(sched.StuckSeen))
	}
	if left := sched.StuckNow(); len(left) > 0 {
		o.Infra = fmt.Sprintf("group %s: requests %v never returned (they wait for something no other request releases)", stream, left)
	}
	return sched.Trace
}

// ---- the token-liveness reference model used as a linearizability cross-check ----

// One access token A and the refresh token R it was issued with. use = userinfo / introspection / token exchange with
// A as subject; the other operations are named after what they present. ok is the observed outcome.
type liveIn struct {
	kind string
}

type liveState struct{ a, r bool }

var livenessModel = porcupine.Model{
	Init: func() interface{} { return liveState{} }, // replaced per history (see checkLinearizable)
	Step: func(state, input, output interface{}) (bool, interface{}) {
		s := state.(liveState)
		ok := output.(bool)
		switch input.(liveIn).kind {
		case "init-live":
			return true, liveState{a: true, r: true}
		case "init-access-dead":
			return true, liveState{a: false, r: true}
		case "init-dead":
			return true, liveState{}
		case "use":
			// only live tokens are honoured; a refusal is always admissible (the statement is one-directional)
			return !ok || s.a, s
		case "revoke-access":
			if ok {
				s.a = false
			}
			return true, s
		case "revoke-refresh", "logout":
			if ok {
				s.a, s.r = false, false
			}
			return true, s
		case "refresh":
			if !ok {
				return true, s
			}
			if !s.r {
				return false, s
			}
			return true, liveState{}
		}
		return false, s
	},
	Equal: func(a, b interface{}) bool { return a == b },
	DescribeOperation: func(input, output interface{}) string {
		return fmt.Sprintf("%s -> ok=%v", input.(liveIn).kind, output)
	},
}

type liveOp struct {
	kind     string
	ok       bool
	inv, ret int
}

// checkLinearizable reports whether the observed outcomes can be explained by some order of the operations that
// respects "returned before the other was invoked".
func checkLinearizable(init string, ops []liveOp) porcupine.CheckResult {
	if porcupineOK(init, ops) {
		return porcupine.Ok
	}
	return porcupine.Illegal
}

func porcupineOK(init string, ops []liveOp) bool {
	hist := []porcupine.Operation{{ClientId: 0, Input: liveIn{kind: init}, Call: -2, Output: true, Return: -1}}
	for i, op := range ops {
		hist = append(hist, porcupine.Operation{ClientId: i + 1, Input: liveIn{kind: op.kind}, Call: int64(2 * op.inv), Output: op.ok, Return: int64(2*op.ret + 1)})
	}
	return porcupine.CheckOperations(livenessModel, hist)
}
