package props

import (
	"context"
	"crypto/sha256"
	"crypto/sha512"
	"encoding/base64"
	"fmt"
	"hash"
	"net/url"
	"slices"
	"strings"
	"testing"
	"time"

	jose "github.com/go-jose/go-jose/v4"
	"github.com/zitadel/oidc/v3/pkg/client/rp"
	oidccrypto "github.com/zitadel/oidc/v3/pkg/crypto"
	"github.com/zitadel/oidc/v3/pkg/oidc"
	"github.com/zitadel/oidc/v3/pkg/op"

	"verif/sim/kernel"
	"verif/sim/world"
)

// C06: every token the OP issues is well-formed and passes the library's own verifiers.

type issueCtx struct {
	flow       string
	client     string
	subject    string
	nonce      string
	authTime   time.Time // zero: not dictated
	amr        []string
	scopes     []string
	code       string
	now        time.Time // the frozen clock during the request
	key        *world.SignKey
	wantID     bool
	wantAccess bool
	accessType op.AccessTokenType
	actor      string
}

type c06 struct {
	// midKey: the signing key the storage rotated to while the current step's requests were being served (nil: none)
	midKey *world.SignKey
	w      *world.World
	o      *kernel.Outcome
	step   int
	b      *world.Browser
	ks     oidc.KeySet // the RP's real remote key set over the simulated network
	pool   []*grantedToken
	keyN   int
}

func (c *c06) viol(rule, site, format string, a ...any) {
	c.o.Violate("C06", rule, "router"+c.w.Router+"/"+site, c.step, format, a...)
}

func leftHalfHash(alg jose.SignatureAlgorithm, s string) string {
	var h hash.Hash
	switch alg {
	case jose.RS256, jose.ES256, jose.PS256:
		h = sha256.New()
	case jose.RS384, jose.ES384, jose.PS384:
		h = sha512.New384()
	default:
		h = sha512.New()
	}
	h.Write([]byte(s))
	sum := h.Sum(nil)
	return base64.RawURLEncoding.EncodeToString(sum[:len(sum)/2])
}

func numClaim(p map[string]any, k string) (int64, bool) {
	f, ok := p[k].(float64)
	return int64(f), ok
}

// check verifies one token response against the statement.
func (c *c06) check(desc string, ic issueCtx, tr *world.TokenResponse) {
	// the injected storage fault belongs to the flow that produced tr, not to the verification of its tokens
	c.w.Store.Inject = nil
	w := c.w
	cl := w.Store.Clients[ic.client]
	skew := time.Duration(0)
	idLifetime := time.Duration(0)
	userinfoAssert := false
	if cl != nil {
		skew, idLifetime, userinfoAssert = cl.Skew, cl.IDLifetime, cl.UserinfoAssert
	}
	if ic.flow == "jwt-bearer" {
		skew = 0 // the jwt-bearer grant acts for a service user, not for the registered client's settings
	}
	site := ic.flow
	c.o.Probe("responses-checked")
	// ---- access token ----
	var stored *world.Token
	if tr.AccessToken != "" && ic.flow != "exchange-id" {
		c.o.Probe("access-tokens-checked")
		id, sub, isJWT, ok := w.DecodeAccess(tr.AccessToken)
		if !ok {
			c.viol("access-token", site, "%s: access token is neither an opaque token of this provider nor a JWT", desc)
		} else {
			stored = w.Store.TokenSnapshot(id)
			if stored == nil {
				c.viol("access-token", site, "%s: access token id %q is unknown to the storage", desc, id)
			} else if sub != stored.Subject {
				c.viol("access-token", site, "%s: access token subject %q, stored %q", desc, sub, stored.Subject)
			}
			if !isJWT {
				// decrypts with the provider key only
				if _, err := oidccrypto.DecryptAES(tr.AccessToken, strings.Repeat("x", 32)); err == nil {
					if plain, _ := oidccrypto.DecryptAES(tr.AccessToken, strings.Repeat("x", 32)); strings.Count(plain, ":") == 1 && strings.HasPrefix(plain, id) {
						c.viol("access-token", site+"/opaque", "%s: opaque token decrypts under a foreign key", desc)
					}
				}
				if ic.accessType == op.AccessTokenTypeJWT {
					c.viol("access-token", site+"/type", "%s: client is registered for JWT access tokens but got an opaque one", desc)
				}
			} else {
				c.checkJWTAccess(desc, site, ic, tr.AccessToken, stored, skew)
			}
		}
		if stored != nil {
			// the stored expiry counts from the instant of the request at which the token was created: between the
			// request's start and its end (the same instant unless a storage call was slow)
			remaining, least := stored.Exp.Sub(ic.now), stored.Exp.Sub(time.Now())
			got := time.Duration(tr.ExpiresIn) * time.Second
			if got < least.Truncate(time.Second) || got > (remaining+skew).Truncate(time.Second) {
				c.viol("expires_in", site, "%s: expires_in %v, stored lifetime %v (clock skew %v)", desc, got, remaining, skew)
			}
			if !sameSet(tr.ScopeList(), stored.Scopes) {
				c.viol("scope", site, "%s: response scope %v, stored %v", desc, tr.ScopeList(), stored.Scopes)
			}
		}
	} else if ic.wantAccess {
		c.viol("access-token", site, "%s: no access token in the response", desc)
	}
	// ---- id token ----
	idt := tr.IDToken
	if ic.flow == "exchange-id" {
		idt = tr.AccessToken
	}
	if idt == "" {
		if ic.wantID {
			c.viol("id-token", site, "%s: openid was granted but the response has no id_token", desc)
		}
		return
	}
	c.o.Probe("id-tokens-checked")
	hdr := world.JWTHeader(idt)
	p := world.JWTPayload(idt)
	if hdr == nil || p == nil {
		c.viol("id-token", site, "%s: id_token is not a JWT", desc)
		return
	}
	if mk := c.midKey; mk != nil {
		// the key was rotated while the request was being served: a token signed with the new current key is as good
		// as one signed with the old one - but everything about one token must belong to one key
		if hdr["kid"] == mk.KID {
			ic.key = mk
			c.o.Probe("signed-with-key-rotated-in-mid-request")
		}
	}
	if hdr["alg"] != string(ic.key.Alg) || hdr["kid"] != ic.key.KID {
		c.viol("signing-key", site, "%s: id_token header alg/kid %v/%v, the current signing key is %s/%s", desc, hdr["alg"], hdr["kid"], ic.key.Alg, ic.key.KID)
	}
	// the library's own verification against the published key set
	nonce := ic.nonce
	v := rp.NewIDTokenVerifier(w.Issuer, ic.client, c.ks, rp.WithSupportedSigningAlgorithms(string(ic.key.Alg)), rp.WithNonce(func(context.Context) string { return nonce }))
	var err error
	if tr.AccessToken != "" && ic.flow != "exchange-id" {
		_, err = rp.VerifyTokens[*oidc.IDTokenClaims](context.Background(), tr.AccessToken, idt, v)
	} else {
		_, err = rp.VerifyIDToken[*oidc.IDTokenClaims](context.Background(), idt, v)
	}
	if err != nil {
		c.viol("own-verifier", site, "%s: the relying party's verification of the issued id_token fails: %v", desc, err)
	}
	if p["iss"] != w.Issuer {
		c.viol("claims", site+"/iss", "%s: iss %v", desc, p["iss"])
	}
	if !slices.Contains(audList(p["aud"]), ic.client) {
		c.viol("claims", site+"/aud", "%s: aud %v lacks the client %q", desc, p["aud"], ic.client)
	}
	if p["azp"] != ic.client {
		c.viol("claims", site+"/azp", "%s: azp %v, client %q", desc, p["azp"], ic.client)
	}
	if p["sub"] != ic.subject {
		c.viol("claims", site+"/sub", "%s: sub %v, expected %q", desc, p["sub"], ic.subject)
	}
	if n, _ := p["nonce"].(string); n != ic.nonce {
		c.viol("claims", site+"/nonce", "%s: nonce %q, request nonce %q", desc, n, ic.nonce)
	}
	if !ic.authTime.IsZero() {
		at, _ := numClaim(p, "auth_time")
		if at != ic.authTime.Unix() && at != ic.authTime.Add(-skew).Unix() {
			c.viol("claims", site+"/auth_time", "%s: auth_time %d, request auth time %d (skew %v)", desc, at, ic.authTime.Unix(), skew)
		}
		if ic.amr != nil && !sameSet(audList(p["amr"]), ic.amr) {
			c.viol("claims", site+"/amr", "%s: amr %v, request %v", desc, p["amr"], ic.amr)
		}
	}
	iat, _ := numClaim(p, "iat")
	exp, _ := numClaim(p, "exp")
	if end := time.Now(); end.Equal(ic.now) {
		if iat != ic.now.Add(-skew).Unix() {
			c.viol("times", site+"/iat", "%s: iat %d, expected now-skew = %d", desc, iat, ic.now.Add(-skew).Unix())
		}
		if exp != ic.now.Add(skew).Add(idLifetime).Unix() {
			c.viol("times", site+"/exp", "%s: exp %d, expected now+skew+lifetime = %d", desc, exp, ic.now.Add(skew).Add(idLifetime).Unix())
		}
	} else {
		// the clock moved while the request was served (a slow storage call): the token was stamped at some instant of
		// the request, and exp and iat still bracket exactly the configured lifetime (widened by the skew on both sides)
		c.o.Probe("id-token-issued-by-a-slow-request")
		if iat < ic.now.Add(-skew).Unix() || iat > end.Add(-skew).Unix() {
			c.viol("times", site+"/iat", "%s: iat %d is outside the request [%d, %d] (less the skew)", desc, iat, ic.now.Add(-skew).Unix(), end.Add(-skew).Unix())
		}
		if want := int64((idLifetime + 2*skew) / time.Second); exp-iat != want {
			c.viol("times", site+"/exp-iat", "%s: exp - iat = %ds, configured lifetime %v and skew %v demand %ds", desc, exp-iat, idLifetime, skew, want)
		}
	}
	if tr.AccessToken != "" && ic.flow != "exchange-id" {
		if ah, _ := p["at_hash"].(string); ah != leftHalfHash(ic.key.Alg, tr.AccessToken) {
			c.viol("at_hash", site, "%s: at_hash %q is not the left-half hash of the access token of the same response", desc, ah)
		}
	} else if _, has := p["at_hash"]; has {
		c.viol("at_hash", site+"/unexpected", "%s: at_hash present without an access token", desc)
	}
	if ic.code != "" {
		if ch, _ := p["c_hash"].(string); ch != leftHalfHash(ic.key.Alg, ic.code) {
			c.viol("c_hash", site, "%s: c_hash %q is not the left-half hash of the code", desc, ch)
		}
	}
	// user claims only for granted scopes, and next to an access token only with the userinfo-assertion flag
	accompanied := tr.AccessToken != "" && ic.flow != "exchange-id"
	allowUser := !accompanied || userinfoAssert || ic.flow == "exchange"
	for claim, scope := range map[string]string{"email": oidc.ScopeEmail, "email_verified": oidc.ScopeEmail, "name": oidc.ScopeProfile, "preferred_username": oidc.ScopeProfile, "phone_number": oidc.ScopePhone, "address": oidc.ScopeAddress} {
		if _, has := p[claim]; has {
			if !slices.Contains(ic.scopes, scope) {
				c.viol("user-claims", site+"/scope", "%s: claim %q without scope %q (granted %v)", desc, claim, scope, ic.scopes)
			} else if cl := c.w.Store.Clients[ic.client]; cl != nil && slices.Contains(cl.DropFromID, scope) && ic.flow != "exchange" && ic.flow != "exchange-id" {
				// (ID tokens issued by a token exchange get their claims from the storage's SetUserinfoFromTokenExchangeRequest,
				// which is handed the request, not a scope list: the client's hook has no part in that path - not judged)
				c.viol("user-claims", site+"/excluded-by-client", "%s: claim %q although the client excludes scope %q from its ID tokens (RestrictAdditionalIdTokenScopes)", desc, claim, scope)
			} else if !allowUser {
				c.viol("user-claims", site+"/assertion", "%s: claim %q in an id_token that accompanies an access token although the client has no userinfo assertion", desc, claim)
			}
		}
	}
}

func (c *c06) checkJWTAccess(desc, site string, ic issueCtx, tok string, stored *world.Token, skew time.Duration) {
	w := c.w
	hdr := world.JWTHeader(tok)
	p := world.JWTPayload(tok)
	if mk := c.midKey; mk != nil && hdr["kid"] == mk.KID {
		ic.key = mk // rotated while the request was being served (see check)
	}
	if hdr["alg"] != string(ic.key.Alg) || hdr["kid"] != ic.key.KID {
		c.viol("signing-key", site+"/access", "%s: access token header alg/kid %v/%v, current signing key %s/%s", desc, hdr["alg"], hdr["kid"], ic.key.Alg, ic.key.KID)
	}
	av := op.NewAccessTokenVerifier(w.Issuer, &op.OpenIDKeySet{Storage: w.OP.Storage}, op.WithSupportedAccessTokenSigningAlgorithms(string(ic.key.Alg)))
	if _, err := op.VerifyAccessToken[*oidc.AccessTokenClaims](context.Background(), tok, av); err != nil {
		c.viol("own-verifier", site+"/access", "%s: op.VerifyAccessToken fails for the issued access token: %v", desc, err)
	}
	if stored == nil {
		return
	}
	if p["iss"] != w.Issuer || p["sub"] != stored.Subject || p["jti"] != stored.ID {
		c.viol("claims", site+"/access", "%s: JWT access token iss/sub/jti %v/%v/%v, stored %s/%s", desc, p["iss"], p["sub"], p["jti"], stored.Subject, stored.ID)
	}
	if ic.client != "" && p["client_id"] != ic.client {
		c.viol("claims", site+"/access-client", "%s: JWT access token client_id %v, client %q", desc, p["client_id"], ic.client)
	}
	// the audience contains the client wherever the request names the client as its audience or names none at all
	// (token exchange decides its own audience; a jwt-bearer grant's request is the assertion, whose audience is the issuer)
	if ic.client != "" && !strings.HasPrefix(ic.flow, "exchange") && ic.flow != "jwt-bearer" && !slices.Contains(audList(p["aud"]), ic.client) {
		c.viol("claims", site+"/access-aud", "%s: JWT access token aud %v lacks the client %q", desc, p["aud"], ic.client)
	}
	if len(stored.Audience) == 0 {
		c.o.Probe("jwt-access-tokens-for-requests-with-an-empty-audience-list")
	}
	exp, _ := numClaim(p, "exp")
	iat, _ := numClaim(p, "iat")
	if exp != stored.Exp.Unix() {
		c.viol("times", site+"/access-exp", "%s: JWT access token exp %d, stored %d", desc, exp, stored.Exp.Unix())
	}
	if end := time.Now(); iat < ic.now.Add(-skew).Unix() || iat > end.Add(-skew).Unix() {
		c.viol("times", site+"/access-iat", "%s: JWT access token iat %d, expected %d (request ended at %d)", desc, iat, ic.now.Add(-skew).Unix(), end.Add(-skew).Unix())
	}
}

func (c *c06) pickClient(ch *kernel.Chooser) string {
	for i := 0; i < 5; i++ {
		id := honestClients[ch.Int(len(honestClients))]
		if usableClient(c.w, id) {
			return id
		}
	}
	return "web"
}

func (c *c06) codeFlow(ch *kernel.Chooser) string {
	w := c.w
	client := c.pickClient(ch)
	scopes := append([]string{oidc.ScopeOpenID}, ch.Subset([]string{oidc.ScopeProfile, oidc.ScopeEmail, oidc.ScopePhone, oidc.ScopeAddress, oidc.ScopeOfflineAccess})...)
	user := ch.Pick("alice", "bob", "alice", "bob", "dave")
	if user == "dave" {
		c.o.Probe("subject-with-characters-that-escaping-rewrites")
	}
	nonce := fmt.Sprintf("nonce-%d", c.step)
	if ch.Bool(1, 5) {
		nonce = "n o+n/c=e&%#"
	}
	s, err := authorizeToCode(w, c.b, flowOpts{client: client, user: user, scopes: scopes, nonce: nonce})
	if err != nil || s.code == "" {
		c.o.Probe("honest-flow-failed")
		return fmt.Sprintf("code flow %s: %v", client, err)
	}
	if ch.Bool(1, 3) {
		w.Advance(time.Duration(ch.Range(1, 90)) * time.Second)
	}
	now, key := time.Now(), w.Store.CurrentKey()
	if _, err := redeemStep(w, s); err != nil {
		c.o.Probe("honest-flow-failed")
		return fmt.Sprintf("code flow %s: redeem: %v", client, err)
	}
	cl := w.Store.Clients[client]
	ic := issueCtx{flow: "code", client: client, subject: userID[user], nonce: nonce, authTime: s.snap.AuthTime, amr: []string{"pwd"}, scopes: scopes, code: s.code, now: now, key: key, wantID: true, wantAccess: true, accessType: cl.TokenType}
	desc := fmt.Sprintf("code flow %s/%s %v", client, user, scopes)
	c.check(desc, ic, s.tokens)
	c.pool = append(c.pool, &grantedToken{access: s.tokens.AccessToken, refresh: s.tokens.RefreshToken, idToken: s.tokens.IDToken, client: client, subject: userID[user], scopes: scopes, original: scopes, authTime: s.snap.AuthTime.Unix()})
	return desc
}

func (c *c06) implicit(ch *kernel.Chooser) string {
	w := c.w
	client := c.pickClient(ch)
	respType := ch.Pick("id_token token", "id_token")
	mode := ch.Pick("", "", "fragment", "form_post", "query")
	scopes := append([]string{oidc.ScopeOpenID}, ch.Subset([]string{oidc.ScopeProfile, oidc.ScopeEmail})...)
	nonce := fmt.Sprintf("nonce-%d", c.step)
	s, resp := startAuthz(w, c.b, flowOpts{client: client, scopes: scopes, responseType: respType, responseMode: mode, nonce: nonce, pkce: "none"})
	if s.authReq == "" {
		return fmt.Sprintf("implicit %s %q: refused %d", client, respType, resp.Status)
	}
	lr := loginStep(w, c.b, s)
	if lr.Status != 302 {
		return "implicit: login failed"
	}
	now, key := time.Now(), w.Store.CurrentKey()
	if _, err := callbackStep(w, c.b, s, lr.Location); err != nil {
		c.o.Probe("honest-flow-failed")
		return fmt.Sprintf("implicit %s %q mode=%q: %v", client, respType, mode, err)
	}
	v := s.authz.Params
	tr := &world.TokenResponse{AccessToken: v.Get("access_token"), IDToken: v.Get("id_token"), TokenType: v.Get("token_type"), State: v.Get("state")}
	fmt.Sscan(v.Get("expires_in"), &tr.ExpiresIn)
	tr.Scope = v.Get("scope")
	if v.Get("error") != "" {
		return fmt.Sprintf("implicit %s %q: error %s", client, respType, v.Get("error"))
	}
	if tr.State != "state-1" {
		c.viol("state", "implicit", "implicit response state %q, request state %q", tr.State, "state-1")
	}
	cl := w.Store.Clients[client]
	ic := issueCtx{flow: "implicit", client: client, subject: "u1", nonce: nonce, authTime: s.snap.AuthTime, amr: []string{"pwd"}, scopes: scopes, now: now, key: key, wantID: true, wantAccess: respType == "id_token token", accessType: cl.TokenType}
	desc := fmt.Sprintf("implicit %s %q mode=%q %v", client, respType, mode, scopes)
	if tr.AccessToken == "" {
		// expires_in/scope of the response are only dictated together with an access token
		ic.wantAccess = false
	} else if tr.Scope == "" {
		tr.Scope = strings.Join(scopes, " ")
	}
	c.check(desc, ic, tr)
	return desc
}

func (c *c06) refresh(ch *kernel.Chooser) string {
	w := c.w
	var cands []*grantedToken
	for _, g := range c.pool {
		if g.refresh != "" && w.Store.RefreshLive(g.refresh) {
			cands = append(cands, g)
		}
	}
	if len(cands) == 0 || !w.Conf.GrantTypeRefreshToken {
		return "refresh: nothing to refresh"
	}
	g := cands[ch.Int(len(cands))]
	pre := ""
	if ch.Bool(1, 4) {
		// a history: the client first asks for more than was granted (and is refused), then refreshes normally; the
		// tokens of the second request must show the grant, not the refused wish
		extra := []string{oidc.ScopeEmail, oidc.ScopePhone, oidc.ScopeProfile, oidc.ScopeAddress}[ch.Int(4)]
		wish := append(append([]string(nil), g.original...), extra)
		if ch.Bool(1, 2) {
			wish = []string{oidc.ScopeOpenID, extra}
		}
		pr := w.PostForm("/oauth/token", url.Values{"grant_type": {"refresh_token"}, "refresh_token": {g.refresh}, "scope": {strings.Join(wish, " ")}}, w.RightCreds(g.client))
		pre = fmt.Sprintf(" after a refused wish for %v (%d)", wish, statusOf(pr))
		c.o.Probe("refresh-after-refused-wish")
		if ptr, ok := isTokenSuccess(pr); ok { // the wish was within the grant after all
			g.access, g.refresh, g.idToken = ptr.AccessToken, ptr.RefreshToken, ptr.IDToken
			pre = fmt.Sprintf(" after a granted narrower request %v", wish)
		}
	}
	now, key := time.Now(), w.Store.CurrentKey()
	r := w.PostForm("/oauth/token", url.Values{"grant_type": {"refresh_token"}, "refresh_token": {g.refresh}}, w.RightCreds(g.client))
	tr, ok := isTokenSuccess(r)
	if !ok {
		return fmt.Sprintf("refresh %s%s -> %d", g.client, pre, statusOf(r))
	}
	cl := w.Store.Clients[g.client]
	ic := issueCtx{flow: "refresh", client: g.client, subject: g.subject, authTime: time.Unix(g.authTime, 0), amr: []string{"pwd"}, scopes: g.original, now: now, key: key, wantID: true, wantAccess: true, accessType: cl.TokenType}
	desc := fmt.Sprintf("refresh %s/%s%s", g.client, g.subject, pre)
	c.check(desc, ic, tr)
	g.access, g.refresh, g.idToken = tr.AccessToken, tr.RefreshToken, tr.IDToken
	return desc
}

func (c *c06) device(ch *kernel.Chooser) string {
	w := c.w
	client := c.pickClient(ch)
	cl := w.Store.Clients[client]
	if !w.Caps.Device || !cl.HasGrant(oidc.GrantTypeDeviceCode) || cl.Auth == oidc.AuthMethodPost || cl.Auth == oidc.AuthMethodPrivateKeyJWT {
		return "device: not usable for " + client
	}
	scopes := append([]string{oidc.ScopeOpenID}, ch.Subset([]string{oidc.ScopeEmail, oidc.ScopeProfile})...)
	r := w.PostForm("/device_authorization", url.Values{"scope": {strings.Join(scopes, " ")}}, w.RightCreds(client))
	var da struct {
		DeviceCode string `json:"device_code"`
	}
	if r.Status != 200 || jsonUnmarshal(r.Body, &da) != nil || da.DeviceCode == "" {
		return fmt.Sprintf("device %s: start -> %d", client, r.Status)
	}
	authAt := time.Now()
	w.Store.ApproveDevice(da.DeviceCode, "u2")
	w.Advance(time.Duration(ch.Range(1, 20)) * time.Second)
	now, key := time.Now(), w.Store.CurrentKey()
	tr, ok := isTokenSuccess(w.PostForm("/oauth/token", url.Values{"grant_type": {string(oidc.GrantTypeDeviceCode)}, "device_code": {da.DeviceCode}}, w.RightCreds(client)))
	if !ok {
		return fmt.Sprintf("device %s: token refused", client)
	}
	ic := issueCtx{flow: "device", client: client, subject: "u2", authTime: authAt, amr: []string{"pwd"}, scopes: scopes, now: now, key: key, wantID: true, wantAccess: true, accessType: cl.TokenType}
	desc := fmt.Sprintf("device %s %v", client, scopes)
	c.check(desc, ic, tr)
	return desc
}

func (c *c06) serviceGrants(ch *kernel.Chooser) string {
	w := c.w
	now, key := time.Now(), w.Store.CurrentKey()
	if ch.Bool(1, 2) {
		client := "web"
		cl := w.Store.Clients[client]
		if !w.Caps.ClientCredentials || !cl.HasGrant(oidc.GrantTypeClientCredentials) {
			return "client_credentials: not usable"
		}
		tr, ok := isTokenSuccess(w.PostForm("/oauth/token", url.Values{"grant_type": {"client_credentials"}, "scope": {"api"}}, w.RightCreds(client)))
		if !ok {
			return "client_credentials refused"
		}
		c.check("client_credentials web", issueCtx{flow: "client_credentials", client: client, subject: client, scopes: []string{"api"}, now: now, key: key, wantAccess: true, accessType: cl.TokenType}, tr)
		return "client_credentials web"
	}
	a := w.RightCreds("jwt").Assertion
	tr, ok := isTokenSuccess(w.PostForm("/oauth/token", url.Values{"grant_type": {string(oidc.GrantTypeBearer)}, "assertion": {a}, "scope": {"openid api"}}, world.Creds{Mode: "none"}))
	if !ok {
		return "jwt-bearer refused"
	}
	at := op.AccessTokenTypeBearer
	if w.Store.JWTProfileJWT {
		at = op.AccessTokenTypeJWT
	}
	c.check("jwt-bearer jwt", issueCtx{flow: "jwt-bearer", client: "jwt", subject: "jwt", scopes: []string{"openid", "api"}, now: now, key: key, wantAccess: true, accessType: at}, tr)
	return "jwt-bearer jwt"
}

func (c *c06) exchange(ch *kernel.Chooser) string {
	w := c.w
	cl := w.Store.Clients["web"]
	if !w.Caps.TokenExchange || !cl.HasGrant(oidc.GrantTypeTokenExchange) || len(c.pool) == 0 {
		return "exchange: not usable"
	}
	g := c.pool[ch.Int(len(c.pool))]
	req := []oidc.TokenType{oidc.AccessTokenType, oidc.RefreshTokenType, oidc.IDTokenType}[ch.Int(3)]
	f := url.Values{"grant_type": {string(oidc.GrantTypeTokenExchange)}, "subject_token": {g.access}, "subject_token_type": {string(oidc.AccessTokenType)}, "requested_token_type": {string(req)}, "scope": {"openid email"}}
	now, key := time.Now(), w.Store.CurrentKey()
	r := w.PostForm("/oauth/token", f, w.RightCreds("web"))
	if r.Status != 200 {
		return fmt.Sprintf("exchange -> %d", statusOf(r))
	}
	tr, err := world.ParseTokenResponse(r.Body)
	if err != nil || tr.AccessToken == "" {
		return "exchange: no token"
	}
	ic := issueCtx{flow: "exchange", client: "web", subject: g.subject, scopes: []string{"openid", "email"}, now: now, key: key, wantAccess: true, accessType: cl.TokenType}
	if req == oidc.IDTokenType {
		ic.flow, ic.wantAccess = "exchange-id", false
	}
	desc := fmt.Sprintf("exchange subject of %s requested=%s", g.client, req)
	c.check(desc, ic, tr)
	return desc
}

// nextKey makes a fresh signing key: of the current key's algorithm, or (other) of another algorithm family, as when
// a provider migrates from RSA to EC keys or to a stronger hash.
func (c *c06) nextKey(ch *kernel.Chooser, other bool) *world.SignKey {
	w := c.w
	c.keyN++
	cur := w.Store.CurrentKey().Alg
	fam := world.AlgFamilies[0]
	for _, f := range world.AlgFamilies {
		if f.Alg == cur {
			fam = f
		}
	}
	if other {
		var others []world.AlgFamily
		for _, f := range world.AlgFamilies {
			if f.Alg != cur {
				others = append(others, f)
			}
		}
		fam = others[ch.Int(len(others))]
	}
	return world.SignKeyFromFixture(world.FixtureKey(fam.Prefix, w.KeyN+c.keyN), fam.Alg, fmt.Sprintf("sig-%d-r%d-%s", w.KeyN, c.keyN, fam.Alg))
}

func (c *c06) rotate(ch *kernel.Chooser) string {
	w := c.w
	if ch.Bool(1, 4) {
		// the operator replaces the key material under the name and algorithm in use (a fixed key name such as "sig"):
		// the old key is withdrawn, the published key set has the new key under the old kid. Verifiers start afresh
		// (a relying party that cached the old key under this kid is the key set's business, C13).
		cur := w.Store.CurrentKey()
		k := c.nextKey(ch, false)
		k.KID = cur.KID
		w.Store.RotateKey(k, true)
		c.ks = rp.NewRemoteKeySet(w.Net.Client("verifier", nil, false), w.Issuer+"/keys")
		c.o.Probe("key-material-replaced-under-the-same-kid")
		return fmt.Sprintf("replace key material under kid %s (%s)", k.KID, k.Alg)
	}
	k := c.nextKey(ch, ch.Bool(1, 3))
	retire := ch.Bool(1, 3)
	w.Store.RotateKey(k, retire)
	return fmt.Sprintf("rotate signing key -> %s (retire old=%v)", k.KID, retire)
}

func RunC06(t *testing.T, spec kernel.Spec) *kernel.Outcome {
	o := inBubble(t, spec, func(o *kernel.Outcome, tape *kernel.Tape) {
		// keys of every algorithm family may become current during the run: the provider must accept its own tokens
		var all []string
		for _, f := range world.AlgFamilies {
			all = append(all, string(f.Alg))
		}
		tenants := 1
		if tc := tape.Sub("cfg-tenants"); tc.Bool(1, 3) {
			tenants = 2 + tc.Int(2) // one provider, several issuers: every token names the issuer of its own request
		}
		w, err := world.NewStd(o, tape, world.StdOptions{Router: spec.Params["router"], AllGrants: true, Tenants: tenants, Options: []op.Option{
			op.WithAccessTokenVerifierOpts(op.WithSupportedAccessTokenSigningAlgorithms(all...)), op.WithIDTokenHintVerifierOpts(op.WithSupportedIDTokenHintSigningAlgorithms(all...))}})
		if err != nil {
			o.Infra = "world: " + err.Error()
			return
		}
		c := &c06{w: w, o: o, b: w.Net.NewBrowser("b1")}
		c.ks = rp.NewRemoteKeySet(w.Net.Client("verifier", nil, false), w.Issuer+"/keys")
		n := 25 + tape.Sub("cfg").Int(25)
		// two configurations: fault-free, and one where single storage calls fail while tokens are being built. The
		// oracle is the same in both (whatever token comes out must be complete and verifiable); whether a failed call
		// must end the request is C10's question, not this one's.
		faulty := tape.Sub("cfg2").Bool(1, 2)
		steps(o, tape, n, func(i int, ch *kernel.Chooser) string {
			c.step = i
			if faulty && i > 0 && ch.Bool(1, 3) {
				k, method, kind, fired := ch.Range(1, 12), "", []string{world.FaultError, world.FaultTimeout, world.FaultSlow, world.FaultSlow}[ch.Int(4)], false
				if ch.Bool(1, 2) {
					method = ch.Pick("SetUserinfoFromScopes", "SetUserinfoFromRequest", "GetPrivateClaimsFromScopes", "SigningKey", "SignatureAlgorithms", "KeySet",
						"GetClientByClientID", "AuthRequestByCode", "AuthRequestByID", "CreateAccessToken", "CreateAccessAndRefreshTokens", "TokenRequestByRefreshToken",
						"GetRefreshTokenInfo", "GetKeyByIDAndClientID", "ValidateJWTProfileScopes", "ValidateTokenExchangeRequest", "CreateTokenExchangeRequest",
						"SetUserinfoFromTokenExchangeRequest", "GetPrivateClaimsFromTokenExchangeRequest", "GetDeviceAuthorizatonState", "ClientCredentialsTokenRequest")
				}
				w.Store.Inject = func(callNo int, m string, rid int) string {
					if fired || (method == "" && callNo != k) || (method != "" && m != method) {
						return ""
					}
					fired = true
					o.Fault(kind)
					o.Probe("storage-fault-while-issuing")
					return kind
				}
				defer func() { w.Store.Inject = nil }()
			}
			c.midKey = nil
			if len(w.Issuers) > 1 {
				w.UseIssuer(ch.Int(len(w.Issuers)))
				o.Probe("multi-tenant-steps")
			}
			if i > 0 && ch.Bool(1, 5) {
				// the storage rotates its signing key while this step's requests are being served: right before the k-th
				// storage call a new key (often of another algorithm family) becomes current, the old one stays published
				k, calls, other := ch.Range(1, 30), 0, ch.Bool(2, 3)
				nk := c.nextKey(ch, other)
				w.Store.OnCall = func(ctx context.Context, method string) string {
					if calls++; calls == k {
						w.Store.RotateKey(nk, false)
						c.midKey = nk
						o.Probe("rotation-in-mid-request")
					}
					return ""
				}
				defer func() { w.Store.OnCall = nil }()
			}
			switch x := ch.Int(20); {
			case x < 6 || i == 0:
				return c.codeFlow(ch)
			case x < 9:
				return c.implicit(ch)
			case x < 12:
				return c.refresh(ch)
			case x < 14:
				return c.device(ch)
			case x < 16:
				return c.serviceGrants(ch)
			case x < 18:
				return c.exchange(ch)
			case x < 19:
				return c.rotate(ch)
			default:
				d := time.Duration(ch.Range(1, 200)) * time.Second
				w.Advance(d)
				return fmt.Sprintf("advance %v", d)
			}
		})
		var cls []string
		for _, id := range w.SortedClients() {
			cl := w.Store.Clients[id]
			cls = append(cls, fmt.Sprintf("%s{jwt=%v skew=%v idlife=%v assert=%v}", id, cl.TokenType == op.AccessTokenTypeJWT, cl.Skew, cl.IDLifetime, cl.UserinfoAssert))
		}
		o.Log = append([]string{fmt.Sprintf("config: router=%s alg=%s custom=%v fromreq=%v %v", w.Router, w.SigAlg, w.Store.CustomClaims != nil, w.Caps.FromRequest, cls)}, o.Log...)
		o.Sample = map[string]any{"seed": spec.Seed, "router": w.Router, "alg": string(w.SigAlg), "steps": o.Trace}
	})
	o.Nontrivial = o.Probes["id-tokens-checked"] > 0 && o.Probes["access-tokens-checked"] > 0
	return o
}
